"""C04 — parsing untrusted bytes never panics, aborts or hangs: inventory with obligations (DESIGN §4 C04)."""
import safety, scopes

LEVEL = dict(
    level="other",
    rule_text="every panic-capable construct (bounds/overflow/div assert terminators, indexing, unwrap/expect, explicit panics, "
              "slice/Vec operations with preconditions, allocation sized by a parsed value), every natural loop and every recursion "
              "cycle in the crate-local call closure of the byte-level entry points is one obligation; it is discharged by a sound "
              "local rule (dominating comparison / type range / constant), by a frozen table entry carrying the reviewed argument, "
              "or it is a finding; non-trivial = needed an argument beyond `RangeFull`",
    explanation="Decides: no undischarged panic/abort/non-termination construct is reachable from the parsing entry points in lopdf's "
                "own code, for all inputs, with overflow checks on. Does not decide: time/memory amounts (decompression ratios), "
                "behaviour inside dependencies (nom, flate2, weezl, rangemap, aes/cbc/md5/sha2), load_filtered's user callback.",
    trusted_base=["rustc MIR and callee resolution (nightly, -Zmir-opt-level=0, -Coverflow-checks=on)", "tables/inventory.json, tables/loops.json, tables/recursion.json (reviewed arguments)",
                  "dependencies do not panic or hang outside their documented preconditions"],
)


def run(ctx):
    F = ctx.facts("default")
    # the async API has no load_from (the reader is an AsyncRead handed to load_internal)
    opt = ("Document::load_from", "IncrementalDocument::load_from") if ctx.cur_cfg == "async" else ()
    sc, sites, st, tst = safety.run(ctx, F, scopes.C04_ENTRIES, optional=opt, with_fmt=True)
    ctx.floor("R-INV", "C04 scope bodies", len(sc), 380)
    ctx.floor("R-INV", "C04 panic-capable sites", st["sites"], 270)
    ctx.floor("R-TERM", "C04 loops", tst["loops"], 40)
    # preconditions of panicking callees that rest on a check in another function are stated as rules of their own
    import prop_c15
    prop_c15.put_precondition(ctx, F, R="R-GUARD")
    ctx.assumptions += ["usize is 64 bits (three tabled sites rely on it)", "load_filtered's user-supplied filter_func is total"]
