"""corerules.py — contracts of the general-purpose building blocks every property depends on indirectly (Object accessors
and conversions, Dictionary primitives) and a who-may-write inventory of the fields of the crate's state-carrying structs.

A property check includes the parts its clauses rest on; each part is cheap and purely structural:

 accessors(ctx, F)      Object::as_* succeed for exactly their variant (and hand out that variant's payload).
 conversions(ctx, F)    `impl From<T> for Object` builds the variant that stands for T from the unchanged argument.
 dictionary(ctx, F)     Dictionary::get / get_mut / has / set / remove are the IndexMap primitives on the same key;
                        has_type / get_type look at the `Type` entry.
 field_writers(ctx, F, adts)  the set of functions that assign (or mutably borrow) each field of the listed structs equals the
                        reviewed table tables/field_writers.json — a new writer of Document.max_id, Stream.content, ... is
                        reported with the function that writes it."""
import json, os, re
import lib
from mir import op_place, op_const, const_int, AnchorLost

V = os.path.join(os.path.dirname(os.path.abspath(__file__)), "..")

ACCESSORS = {
    "Object::as_bool": {"Boolean"}, "Object::as_i64": {"Integer"}, "Object::as_f32": {"Real"}, "Object::as_float": {"Integer", "Real"},
    "Object::as_name": {"Name"}, "Object::as_str": {"String"}, "Object::as_str_mut": {"String"}, "Object::as_reference": {"Reference"},
    "Object::as_array": {"Array"}, "Object::as_array_mut": {"Array"}, "Object::as_dict": {"Dictionary"}, "Object::as_dict_mut": {"Dictionary"},
    "Object::as_stream": {"Stream"}, "Object::as_stream_mut": {"Stream"},
}

FROM = {"bool": ("Boolean", r"^\$?\w+$|^arg1$"), "i64": ("Integer", r"^arg1$"), "i8": ("Integer", r"^from\(arg1\)$|^arg1 as i64$"), "i16": ("Integer", r"^from\(arg1\)$|^arg1 as i64$"),
        "i32": ("Integer", r"^from\(arg1\)$|^arg1 as i64$"), "u8": ("Integer", r"^from\(arg1\)$|^arg1 as i64$"), "u16": ("Integer", r"^from\(arg1\)$|^arg1 as i64$"), "u32": ("Integer", r"^from\(arg1\)$|^arg1 as i64$"),
        "f64": ("Real", r"^cast\(arg1\)$|^arg1 as f32$"), "f32": ("Real", r"^arg1$"), "std::string::String": ("Name", r"^into_bytes\(arg1\)$"),
        "&str": ("Name", r"^to_vec\(as_bytes\(arg1\)\)$|^to_owned\(as_bytes\(arg1\)\)$|^from\(as_bytes\(arg1\)\)$|^into\(as_bytes\(arg1\)\)$"),
        "std::vec::Vec<object::Object>": ("Array", r"^arg1$"), "object::Dictionary": ("Dictionary", r"^arg1$"), "object::Stream": ("Stream", r"^arg1$"),
        "(u32, u16)": ("Reference", r"^arg1$")}


def accessors(ctx, F, R="R-TABLE", only=None):
    n = 0
    for fn, want in sorted(ACCESSORS.items()):
        if only is not None and fn not in only:
            continue
        if not F.has_fn(fn):
            continue
        b = F.fn(fn)
        got = lib.ok_variants(b)
        n += 1
        ctx.ob(R, "accessor-contract|%s" % fn, got == want, "%s succeeds exactly for %s" % (fn, sorted(want)), b.where(),
               what="%s succeeds for the variants %s instead of %s: callers that rely on it to tell object kinds apart take objects of another kind"
                    % (fn, sorted(got) if got is not None else "?", sorted(want)))
    ctx.floor(R, "Object accessors checked", n, 8 if only is None else len(only))


def conversions(ctx, F, R="R-TABLE"):
    n = 0
    for b in F.fns("<Object as From>::from"):
        ty = b.lty(1)
        if ty not in FROM:
            continue
        var, rx = FROM[ty]
        aggs = []
        for bi, si, st in b.stmts():
            rv = st["rv"]
            if rv["k"] == "agg" and rv["kind"].get("adt", "").endswith("object::Object") and st["lhs"]["l"] == 0:
                with b.alpha(args=True):
                    aggs.append((rv["kind"].get("var"), b.sname(rv["ops"][0], 5).replace("&", "").replace("*", "") if rv["ops"] else ""))
        n += 1
        ok = len(aggs) == 1 and aggs[0][0] == var and re.search(rx, aggs[0][1]) is not None
        ctx.ob(R, "from-contract|%s" % ty, ok, "From<%s> builds Object::%s from the unchanged argument" % (ty, var), b.where(),
               what="`impl From<%s> for Object` builds %s instead of Object::%s(<the argument>): every dictionary entry set through `.into()` "
                    "(Length, Count, Type names, references) carries another value than the caller passed" % (ty, aggs, var))
    ctx.floor(R, "From<T> for Object impls checked", n, 14)


def dictionary(ctx, F, R="R-TABLE"):
    spec = {"Dictionary::get": r"indexmap::IndexMap::<.*>::get$", "Dictionary::get_mut": r"indexmap::IndexMap::<.*>::get_mut$",
            "Dictionary::has": r"indexmap::IndexMap::<.*>::contains_key$", "Dictionary::set": r"indexmap::IndexMap::<.*>::insert$",
            "Dictionary::remove": r"indexmap::IndexMap::<.*>::(swap_remove|shift_remove|remove)$"}
    for fn, rx in spec.items():
        b = F.fn(fn)
        prim = [c for c in b.calls if re.search(rx, c.fn or "")]
        others = [c for c in b.calls if re.search(r"indexmap::IndexMap::<", c.fn or "") and c not in prim]
        ok = len(prim) == 1 and not others
        if ok:
            # the key handed to the primitive is the caller's key (argument 2), possibly through into()/as_ref()
            with b.alpha(args=True):
                k = b.sname(prim[0].args[1], 5).replace("&", "").replace("*", "")
            ok = re.search(r"\barg2\b", k) is not None
            # the map is self.0
            o = lib.origin_local(F, b, prim[0].args[0])
            ok = ok and o is not None and o[1] == 1
        ctx.ob(R, "dictionary-primitive|%s" % fn, ok, "%s is the IndexMap primitive on self with the caller's key" % fn, b.where(),
               what="%s is no longer the single IndexMap primitive applied to the caller's key (primitives %s, others %s): every lookup / update of a dictionary entry in the crate goes through it"
                    % (fn, [(c.fn or "").rsplit("::", 1)[-1] for c in prim], [(c.fn or "").rsplit("::", 1)[-1] for c in others]))
    for fn in ("Dictionary::has_type", "Dictionary::get_type"):
        b = F.fn(fn)
        keys = set(filter(None, (lib._const_bytes_through(b2, c.args[1]) for b2 in F.with_closures(b) for c in b2.calls if c.local and re.search(r"Dictionary::(get|has|get_deref|get_mut|has_type)$", c.cname) and len(c.args) > 1)))
        want = {b"Type"} if fn.endswith("has_type") else {b"Type", b"Linearized"}
        ctx.ob(R, "dictionary-type|%s" % fn, keys == want or (fn.endswith("get_type") and b"Type" in keys and keys <= want), "%s reads %s" % (fn, sorted(keys)), b.where(),
               what="%s reads the entries %s instead of Type" % (fn, sorted(keys)))


def resolvers(ctx, F, R="R-TABLE"):
    """the lookups every query goes through: Document::get_object / get_object_mut look up exactly the id they are given in
    `objects` (BTreeMap::get / get_mut — no ranges, no iteration) and resolve reference chains through Document::dereference
    (bounded by DEREF_LIMIT); Dictionary::get_deref is dereference(get(key)); Stream::get_plain_content decides by the decoded
    filter list (Stream::filters), not by the mere presence of a Filter key."""
    for fn in ("Document::get_object", "Document::get_object_mut"):
        b = F.fn(fn)
        scope = F.with_closures(b)
        prim = [c for b2 in scope for c in b2.calls if re.search(r"BTreeMap::<.*>::(get|get_mut)$", c.fn or "")]
        other = [c for b2 in scope for c in b2.calls if re.search(r"BTreeMap::<.*>::(range|range_mut|iter|iter_mut|values|values_mut|keys|first_key_value|last_key_value|entry)$", c.fn or "")]
        der = [c for b2 in scope for c in b2.calls if c.local and c.cname.endswith("Document::dereference")]
        ctx.ob(R, "resolver-contract|%s" % fn, len(prim) >= 1 and not other and len(der) == 1,
               "%s is objects.get(id) followed by dereference" % fn, b.where(),
               what="%s no longer looks up exactly the (number, generation) it is given and resolves through Document::dereference (other map accesses: %s; dereference calls: %d): "
                    "an id can resolve to another object (another generation), or a reference chain is followed without the hop limit"
                    % (fn, sorted(set((c.fn or "").rsplit("::", 1)[-1] for c in other)), len(der)))
    gd = F.fn("Dictionary::get_deref")
    scope = F.with_closures(gd)
    der = [c for b2 in scope for c in b2.calls if c.local and c.cname.endswith("Document::dereference")]
    get = [c for b2 in scope for c in b2.calls if c.local and c.cname.endswith("Dictionary::get")]
    direct = [c for b2 in scope for c in b2.calls if re.search(r"BTreeMap::<.*>::", c.fn or "")]
    loops = [1 for b2 in scope if b2.loops()]
    ctx.ob(R, "resolver-contract|Dictionary::get_deref", len(der) == 1 and len(get) == 1 and not direct and not loops, "get_deref is doc.dereference(self.get(key)?)", gd.where(),
           what="Dictionary::get_deref no longer resolves through Document::dereference (direct map accesses: %d, own loops: %d): a chain of references is followed one step only, or without the hop limit"
                % (len(direct), len(loops)))
    gp = F.fn("Stream::get_plain_content")
    fl = [c for c in gp.calls if c.local and c.cname.endswith("Stream::filters")]
    dc = [c for c in gp.calls if c.local and c.cname.endswith("Stream::decompressed_content")]
    ok = len(fl) == 1 and len(dc) == 1 and gp.dominates(fl[0].bb, dc[0].bb)
    ctx.ob(R, "resolver-contract|Stream::get_plain_content", ok, "get_plain_content decodes only when Stream::filters() yields a non-empty list", gp.where(),
           what="Stream::get_plain_content no longer decides by the decoded filter list (Stream::filters): a stream with `/Filter []` or `/Filter null` is run through the decoder loop and comes back empty or as an error")


def font_precedence(ctx, F, R="R-ORDER"):
    """fonts are collected from the page's own resources first and then from its ancestors: a name that is already present
    must not be replaced (the page's own font wins over an inherited one of the same name)."""
    gf = F.fn("Document::get_page_fonts")
    import inv
    scope = [F.bodies[q] for q in sorted(F.reach([gf.path])) if F.bodies[q].file == gf.file and "font" in q.lower()] or [gf]
    n = 0
    ok = True
    for b in scope:
        for c in b.calls:
            if re.search(r"BTreeMap::<.*>::insert$", c.fn or "") and "Dictionary" in (c.full or ""):
                n += 1
                guarded = False
                places = [(b, c.bb)] + (inv.closure_creation_blocks(F, b) if b.kind == "Closure" else [])
                for pb, bb in places:
                    for g, s2 in lib.taken_edges(pb, bb):
                        t = pb.term(g)
                        d = pb.def_rv(t["d"]) if t["dty"] == "bool" else None
                        if d and d[2] == "call" and re.search(r"BTreeMap::<.*>::contains_key$", d[3]["f"].get("fn") or "") and t["else"] != s2:
                            guarded = True
                if not guarded:
                    ok = False
        if any(re.search(r"btree_map::Entry::<.*>::or_insert", c.fn or "") for c in b.calls):
            n += 1
    ctx.ob(R, "own-font-wins", ok and n >= 1, "a font name that is already collected is not replaced (%d insertion site(s))" % n, gf.where(),
           what="get_page_fonts inserts a font under a name that may already be present: a font inherited from an ancestor /Pages node replaces the page's own font of the same name, "
                "and its text is decoded with the wrong encoding")


def bookmark_ids(ctx, F, R="R-ORDER"):
    """add_bookmark stores the bookmark under the fresh id it returns: the id written into the bookmark, the key of
    bookmark_table, and the value pushed to `bookmarks` / the parent's children are one and the same local."""
    ab = F.fn("Document::add_bookmark")
    ins = [c for c in ab.calls if re.search(r"HashMap::<.*>::insert$", c.fn or "")]
    pushes = [c for c in ab.calls if re.search(r"Vec::<.*>::push$", c.fn or "") and "u32" in (c.full or "")]
    ids = set()
    for c in ins:
        o = lib.origin_local(F, ab, c.args[1])
        ids.add((o[1], tuple(map(str, o[2]))) if o else None)
    for c in pushes:
        o = lib.origin_local(F, ab, c.args[1])
        ids.add((o[1], tuple(map(str, o[2]))) if o else None)
    st = [(bi, si, s_) for bi, si, s_ in lib.stores_to_field(ab, "id", "Bookmark") if si != "T" and not ab.blocks[bi].get("cleanup")]
    for bi, si, s_ in st:
        o = lib.origin_local(F, ab, s_["rv"]["o"]) if s_["rv"]["k"] == "use" else None
        ids.add((o[1], tuple(map(str, o[2]))) if o else None)
    uncond = len(st) == 1 and len(ins) == 1 and ab.dominates(st[0][0], ins[0].bb)
    ctx.ob(R, "bookmark-stored-under-fresh-id", len(ids) == 1 and None not in ids and uncond and len(pushes) >= 2,
           "bookmark.id, the table key and the listed id are the same fresh id", ab.where(),
           what="add_bookmark does not store the bookmark under the one fresh id it hands out (distinct id sources: %d, id assigned unconditionally: %s): "
                "renumbering and outline building look the listed ids up in bookmark_table and miss the bookmark" % (len(ids), uncond))


# ----------------------------------------------------------------------------- who may write

def recursion_arg_order(ctx, F, fns, R="R-SIB"):
    """In a self-recursive call a parameter that is handed on unchanged stays in its own position: passing parameter j where
    parameter i of the same type is expected (old/new, buffer/pattern, value/title exchanged) flips the roles on every other
    level of the recursion."""
    n = 0
    for name in fns:
        b = F.fn(name)
        recs = [c for c in b.calls if c.name == b.path]
        if not recs:
            continue      # written as a loop: nothing is handed on
        for c in recs:
            n += 1
            bad = []
            for i, a in enumerate(c.args):
                o = lib.origin_local(F, b, a)
                if o is None or o[0] is not b or o[2]:
                    continue
                j = o[1] - 1
                if 0 <= j < b.argc and j != i and b.lty(j + 1) == b.lty(i + 1):
                    bad.append((i, j))
            ctx.ob(R, "recursion-arg-order|%s|bb%d" % (name, recs.index(c)), not bad, "parameters handed on by the recursive call keep their positions", b.where(c.ln),
                   what="%s calls itself with parameter %s in the position of %s (same type): the two exchange roles on every other level of the recursion"
                        % (name, ", ".join(b.lname(j + 1) for i, j in bad), ", ".join(b.lname(i + 1) for i, j in bad)))
    return n


def field_writer_table(F, adts):
    """{adt.field: sorted PUBLIC functions from which a store to the field (or a `&mut` borrow of it) is reachable}.
    Public entry points are used instead of the function that contains the store, so that moving a store between a
    caller and its private callee, nesting helpers differently or introducing helper structs changes nothing; what the
    table fixes is which operations of the API can change which piece of state."""
    direct = {}
    for pth, b in F.bodies.items():
        def note(place):
            for e in place["p"]:
                if isinstance(e, dict) and "f" in e and e.get("loc") and not str(e.get("n", "")).isdigit() and any(e["adt"] == a or e["adt"].endswith("::" + a) for a in adts):
                    direct.setdefault("%s.%s" % (e["adt"].rsplit("::", 1)[-1], e["n"]), set()).add(pth)
        for bi, si, st in b.stmts():
            if "lhs" in st and st["lhs"]["p"]:
                note(st["lhs"])
            rv = st.get("rv")
            if rv and rv["k"] in ("ref", "rawptr") and rv.get("mut") and rv["p"]["p"]:
                note(rv["p"])
        for c in b.calls:
            if c.dest["p"]:
                note(c.dest)
    # reverse reachability over the crate-local call graph (closures belong to their parents)
    callers = {}
    for p, qs in F.callgraph.items():
        for q in qs:
            callers.setdefault(q, set()).add(p)
    for p, b in F.bodies.items():
        if b.kind == "Closure":
            callers.setdefault(p, set()).add(p.rsplit("::{closure", 1)[0])
    out = {}
    for key, ws in direct.items():
        seen, work = set(ws), list(ws)
        while work:
            x = work.pop()
            for y in callers.get(x, ()):
                if y not in seen:
                    seen.add(y)
                    work.append(y)
        pubs = sorted({F.canon_of(F.bodies[x]) for x in seen if x in F.bodies and F.bodies[x].vis == "Public" and F.bodies[x].kind != "Closure"})
        out[key] = pubs
    return dict(sorted(out.items()))


def field_writers(ctx, F, adts, fields=None, R="R-WHO"):
    p = os.path.join(V, "tables", "field_writers.json")
    if not os.path.exists(p):
        raise AnchorLost("tables/field_writers.json is missing")
    with open(p) as f:
        table = json.load(f)
    cur = field_writer_table(F, adts)
    n = 0
    for key in sorted(set(table) | set(cur)):
        adt, field = key.split(".", 1)
        if adt not in adts or (fields is not None and key not in fields):
            continue
        want = set(table.get(key, []))
        got = set(cur.get(key, []))
        new = sorted(got - want)
        n += 1
        ctx.ob(R, "field-writers|%s" % key, not new, "%s can be changed through %d reviewed public function(s)" % (key, len(got)), "",
               what="%s can now also be changed through the public function(s) %s (reviewed: %d others): state that other operations rely on "
                    "(identifier allocation, Length bookkeeping, the previous revision, iteration budgets) changes behind their back" % (key, new, len(want)))
    ctx.floor(R, "struct fields with a writer table", n, 1)


def group_reader(ctx, F):
    import readerrules
    readerrules.run(ctx, F, ("R1", "R2"))
    readerrules.last_marker(ctx, F)
    readerrules.xref_max_id(ctx, F)
    readerrules.prev_not_carried(ctx, F)
    readerrules.no_early_object_reads(ctx, F)
    readerrules.xref_stream_defaults(ctx, F)
    readerrules.stream_body_start(ctx, F)
    readerrules.prev_chain(ctx, F)
    readerrules.number_widths(ctx, F)


def group_strings(ctx, F):
    """what the writer spells and what the reader accepts agree byte for byte (names, strings, nesting, numbers, separators):
    every clause that says "also after saving and reloading" rests on it."""
    import prop_c01, lexrules
    prop_c01.membership_rule(ctx, F)
    lexrules.check_names(ctx, F)
    lexrules.check_strings(ctx, F, cr_required=False)
    lexrules.check_nesting(ctx, F)
    lexrules.check_hex_and_numbers(ctx, F)
    lexrules.check_separators(ctx, F)
    byte_order(ctx, F)


BYTE_ORDER_RX = re.compile(r"::(to|from)_(le|ne)_bytes$|::swap_bytes$|::(to|from)_le$")
BE_RX = re.compile(r"::(to|from)_be_bytes$")


def byte_order(ctx, F, R="R-TABLE"):
    """Every multi-byte integer of the file format is big-endian (cross-reference stream fields, UTF-16BE text, 16-bit samples);
    little-endian conversions belong to the encryption algorithms only (Algorithm 1 appends the object number low byte first)."""
    n = 0
    for p, b in sorted(F.bodies.items()):
        if b.file.startswith("src/encryption"):
            continue
        for c in b.calls:
            fn = c.fn or ""
            if BE_RX.search(fn):
                n += 1
            elif BYTE_ORDER_RX.search(fn):
                ctx.ob(R, "byte-order|%s|%s" % (F.canon_of(b), fn.rsplit("::", 1)[-1]), False, "", b.where(c.ln),
                       what="%s converts an integer with %s: every multi-byte integer written to or read from a PDF file is big-endian (the value %s is only unchanged when it fits one byte)"
                            % (F.canon_of(b), fn.rsplit("::", 1)[-1], b.oname(c.args[0], 2) if c.args else "?"))
    ctx.ob(R, "byte-order|big-endian-sites", n >= 8, "%d big-endian conversions outside the encryption module, no little-endian or native-endian one" % n, "src/writer.rs",
           what="fewer big-endian conversion sites than reviewed (%d < 8): the rule no longer sees the writer's cross-reference stream fields" % n)


def group_filters(ctx, F):
    import prop_c09
    prop_c09.filter_rules(ctx, F)


def group_ids(ctx, F):
    import prop_c11
    prop_c11.id_rules(ctx, F)


def group_pages(ctx, F):
    import prop_c12
    prop_c12.skeleton_rules(ctx, F)


def group_sections(ctx, F):
    import prop_c03, prop_c19
    prop_c03.section_building(ctx, F)
    prop_c03.xref_stream_widths(ctx, F)       # offsets are four bytes wide in a cross-reference stream, as /W says
    prop_c19.counted_sink(ctx, F)


GROUPS = {"reader": group_reader, "strings": group_strings, "filters": group_filters, "ids": group_ids, "sections": group_sections, "pages": group_pages}

# rule groups shared between properties: a clause of several properties rests on the same piece of code
GROUP_OF = {
    "C01": ("reader", "strings", "ids", "sections"), "C02": ("reader", "filters"), "C03": ("reader", "strings", "ids", "sections"),
    "C05": ("reader", "strings", "ids"), "C06": ("reader", "strings"), "C07": ("reader", "filters", "ids", "sections", "strings"), "C09": ("filters",),
    "C10": ("ids", "reader", "pages", "strings"), "C11": ("ids", "filters", "sections", "reader", "pages", "strings"), "C12": ("reader",), "C13": ("filters",),
    "C14": ("strings",), "C16": ("strings",), "C17": ("strings", "ids", "reader"), "C19": ("sections", "reader", "strings"),
}

# which building blocks each property's clauses rest on (included by ./check after the property's own rules)
CORE = {
    "C01": (("conversions", "dictionary"), ["Document", "Stream"]),
    "C02": (("accessors", "dictionary", "resolvers",), ["Reader", "Xref"]),
    "C03": (("conversions",), ["Xref", "XrefSection", "Stream"]),
    "C05": (("accessors", "dictionary", "resolvers",), ["EncryptionState", "PasswordAlgorithm"]),
    "C06": ((), ["EncryptionState", "PasswordAlgorithm"]),
    "C07": (("accessors", "dictionary", "resolvers",), ["IncrementalDocument", "Document", "Xref"]),
    "C09": (("accessors", "conversions", "dictionary"), ["Stream"]),
    "C10": (("accessors", "dictionary", "resolvers", "bookmarks",), ["Document", "Bookmark"]),
    "C11": (("accessors", "conversions", "dictionary", "resolvers", "bookmarks",), ["Document", "Bookmark", "Stream"]),
    "C12": (("accessors", "dictionary", "resolvers",), ["PageTreeIter"]),
    "C13": (("accessors", "dictionary", "resolvers", "fonts",), ["Toc"]),
    "C14": (("accessors", "dictionary"), []),
    "C16": (("fonts",), []),
    "C15": (("resolvers", "fonts",), ["ToUnicodeCMap"]),
    "C17": (("accessors", "conversions", "dictionary", "resolvers", "bookmarks",), ["Bookmark", "Document"]),
    "C19": ((), ["CountingWrite", "Document"]),
}

CORE_TEXT = ("; building blocks the clauses rest on: Object accessors succeed for exactly their variant, From<T> for Object builds the variant "
             "that stands for T from the unchanged argument, Dictionary get/get_mut/has/set/remove are the IndexMap primitives on the caller's key, "
             "and the functions that write each field of the state-carrying structs are the reviewed ones (tables/field_writers.json)")


def run_for(ctx, prop):
    if (prop not in CORE and prop not in GROUP_OF) or getattr(ctx, "_core_done", None) == ctx.cur_cfg:
        return
    parts, adts = CORE.get(prop, ((), []))
    F = ctx.facts("default")
    ctx._core_done = ctx.cur_cfg
    if "accessors" in parts:
        accessors(ctx, F)
    if "conversions" in parts:
        conversions(ctx, F)
    if "dictionary" in parts:
        dictionary(ctx, F)
    if "resolvers" in parts:
        resolvers(ctx, F)
    if "fonts" in parts:
        font_precedence(ctx, F)
    if "bookmarks" in parts:
        bookmark_ids(ctx, F)
    if adts:
        field_writers(ctx, F, adts)
    # shared rule groups: an obligation already recorded by the property's own rules is not repeated
    have = {(o["rule"], o["key"]) for o in ctx.obligations}
    for g in GROUP_OF.get(prop, ()):
        n0 = len(ctx.obligations)
        f0 = len(ctx.findings)
        GROUPS[g](ctx, F)
        # drop duplicates of obligations the property already had
        keep_o = ctx.obligations[:n0]
        dup_keys = set()
        for o in ctx.obligations[n0:]:
            if (o["rule"], o["key"]) in have:
                dup_keys.add("%s|%s" % (o["rule"], o["key"]))
            else:
                keep_o.append(o)
                have.add((o["rule"], o["key"]))
        ctx.obligations[:] = keep_o
        ctx.findings[:] = ctx.findings[:f0] + [f for f in ctx.findings[f0:] if f.key not in dup_keys]
