"""C13 — read-only queries are total on arbitrary object graphs: inventory with obligations (DESIGN §4 C13)."""
import safety, scopes

LEVEL = dict(
    level="other",
    rule_text="same obligations as C04 (panic-capable constructs, loops, recursion cycles) over the crate-local call closure of the "
              "read-only query API; a recursion cycle or loop that resolves references may not claim a structural bound",
    explanation="Decides: no undischarged panic / unbounded recursion / unbounded loop construct is reachable from the query entry "
                "points in lopdf's own code for any Document value. Does not decide: the results of the queries.",
    trusted_base=["rustc MIR and callee resolution", "tables/inventory.json, tables/loops.json, tables/recursion.json", "dependencies do not panic outside documented preconditions"],
)


def run(ctx):
    F = ctx.facts("default")
    sc, sites, st, tst = safety.run(ctx, F, scopes.C13_ENTRIES, with_fmt=True)
    ctx.floor("R-INV", "C13 scope bodies", len(sc), 250)
    ctx.floor("R-INV", "C13 panic-capable sites", st["sites"], 120)
    # preconditions of panicking callees that rest on a check in another function are stated as rules of their own
    import prop_c15
    prop_c15.put_precondition(ctx, F, R="R-GUARD")
    import prop_c12
    prop_c12.size_hint_capped(ctx, F)
    import corerules
    corerules.recursion_arg_order(ctx, F, ["Document::build_outline_result"])
