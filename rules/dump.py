#!/usr/bin/env python3
"""debug helper: pretty-print the MIR facts of bodies whose path contains the argument."""
import sys, os
sys.path.insert(0, os.path.dirname(os.path.abspath(__file__)))
import mir
def show(b):
    print("=== %s  [%s] %s:%d-%d argc=%d impl_of=%r self=%r" % (b.path, b.kind, b.file, b.lo, b.hi, b.argc, b.impl_of, b.self_ty))
    for l, n in sorted(b.names.items()): print("   debug %s => _%d : %s" % (n, l, b.lty(l)))
    for n, p in b.upvars: print("   upvar %s => %s" % (n, b.pname(p)))
    for bi, blk in enumerate(b.blocks):
        print(" bb%d%s:" % (bi, " (cleanup)" if blk["cleanup"] else ""))
        for s in blk["st"]:
            if "lhs" in s:
                print("    %s = %s      [%s]   // L%d" % (raw_place(s["lhs"]), raw_rv(s["rv"]), b.rvname(s["rv"], 3), s["ln"]))
            else:
                print("    setdiscr %s" % s)
        t = blk["t"]
        k = t["k"]
        if k == "call":
            f = t["f"]
            print("    %s = CALL %s (%s) -> bb%s uw %s   // L%d  full=%s" % (raw_place(t["dest"]), f.get("res") or f.get("fn") or "IND", ", ".join(raw_op(a) for a in t["args"]), t["to"], t["uw"], t["ln"], f.get("full")))
        elif k == "switch":
            print("    SWITCH %s [%s] -> %s else bb%d" % (raw_op(t["d"]), b.oname(t["d"]), t["tg"], t["else"]))
        elif k == "assert":
            print("    ASSERT %s %s == %s -> bb%d   // L%d" % (t["ak"], raw_op(t["cond"]), t["exp"], t["to"], t["ln"]))
        elif k == "drop":
            print("    DROP %s -> bb%d" % (raw_place(t["p"]), t["to"]))
        else:
            print("    %s %s" % (k.upper(), t.get("to", "")))
def raw_place(p):
    s = "_%d" % p["l"]
    for e in p["p"]:
        if e == "*": s = "(*%s)" % s
        elif "f" in e: s = "%s.%s" % (s, e["n"])
        elif "idx" in e: s = "%s[_%d]" % (s, e["idx"])
        elif "down" in e: s = "(%s as %s)" % (s, e["down"])
        else: s = "%s%s" % (s, e)
    return s
def raw_op(o):
    if "c" in o: return "copy " + raw_place(o["c"])
    if "m" in o: return "move " + raw_place(o["m"])
    k = o["k"]
    if "int" in k: return "const %s_%s" % (k["int"], k["ty"])
    if "bytes" in k: return "const %r" % bytes.fromhex(k["bytes"])
    if "fn" in k: return "fn " + k["fn"]
    return "const " + k.get("s", "?")
def raw_rv(rv):
    k = rv["k"]
    if k == "use": return raw_op(rv["o"])
    if k == "ref": return "&%s%s" % ("mut " if rv["mut"] else "", raw_place(rv["p"]))
    if k == "bin": return "%s(%s, %s)" % (rv["op"], raw_op(rv["a"]), raw_op(rv["b"]))
    if k == "un": return "%s(%s)" % (rv["op"], raw_op(rv["o"]))
    if k == "cast": return "%s as %s (%s)" % (raw_op(rv["o"]), rv["ty"], rv["kind"])
    if k == "discr": return "discriminant(%s)" % raw_place(rv["p"])
    if k == "agg": return "%s(%s)" % (rv["kind"], ", ".join(raw_op(o) for o in rv["ops"]))
    return str(rv)
if __name__ == "__main__":
    cfg = os.environ.get("CFG", "default")
    F = mir.load(cfg)
    for p, b in F.bodies.items():
        if any(a in p for a in sys.argv[1:]): show(b)
