"""C08 — loading is deterministic under every thread schedule: effect analysis of the parallel closures (DESIGN §4 C08)."""
import re
import lib
from mir import op_place, AnchorLost

LEVEL = dict(
    level="proof",
    rule_text="obligations = one per parallel closure (same closure feeds the sequential build), one per interior-mutable / global / I/O "
              "effect reachable from a parallel closure, one per shared accumulator (its consumer must sort by a per-block key before "
              "any order-sensitive use, or be tabled as commutative+idempotent), one per rayon adaptor used (order-preserving set)",
    explanation="In safe Rust (forbid(unsafe_code) is checked) a closure run on several threads can make the result depend on the "
                "schedule only through interior mutability, globals or I/O reached from it. The check enumerates every such effect in "
                "the call closure of every closure handed to rayon and requires that each shared accumulator is consumed in an "
                "order-insensitive way and that the same closure is what the no-default-features build runs sequentially.",
    trusted_base=["rustc MIR and callee resolution for both configurations (default, --no-default-features)",
                  "rayon's par_iter/par_chunks + filter_map + collect preserve the source order in the collected result",
                  "load_filtered's user-supplied filter_func is a pure function",
                  "log:: macros do not feed the document"],
)
LEVEL["rule_text"] += '; what the parallel phase hands to an order-insensitive consumer is the object id alone (nothing a worker read next to it)'

EFFECT = [
    (re.compile(r"sync::(Mutex|RwLock)::<.*>::(lock|write|read|try_lock|get_mut)$"), "lock"),
    (re.compile(r"sync::atomic::"), "atomic"),
    (re.compile(r"cell::(Cell|RefCell|OnceCell|UnsafeCell)|sync::(OnceLock|LazyLock|Once)\b|lazy_static|once_cell"), "cell"),
    (re.compile(r"^rand::|getrandom|RandomState|hash::random"), "random"),
    (re.compile(r"^std::fs::|^std::io::(stdin|stdout|stderr)|^std::net::|^std::process::|^std::env::"), "io"),
    (re.compile(r"time::(Instant|SystemTime)::now|chrono::.*::now|jiff::.*::now"), "clock"),
    (re.compile(r"^std::thread::|rayon::current_thread_index|rayon::current_num_threads|rayon::ThreadPool"), "thread-id"),
    (re.compile(r"sync::mpsc|crossbeam"), "channel"),
]
ORDER_PRESERVING = re.compile(r"^rayon::(iter::IntoParallelRefIterator::par_iter|iter::IntoParallelIterator::into_par_iter|prelude::ParallelSlice::par_chunks(_exact)?|"
                              r"slice::ParallelSlice::par_chunks(_exact)?|iter::ParallelIterator::(filter_map|map|filter|collect|flat_map)|iter::IndexedParallelIterator::(enumerate|zip))$")
SORTS = re.compile(r"slice::<impl \[T\]>::(sort|sort_by|sort_by_key|sort_unstable|sort_unstable_by|sort_unstable_by_key|sort_by_cached_key)$")

# consumers reviewed as commutative and idempotent per element: accumulator -> (callee that must be the only crate-local call of the loop, reason)
COMMUTATIVE = {
    "zero_length_streams": ("Reader::read_stream_content",
                            "each call touches only objects[id] and reads the immutable input buffer; ids are distinct xref keys, so the calls commute"),
}


def closure_of_operand(b, o):
    """def path of the closure value held by operand o (through copies of a named local)."""
    p = op_place(o)
    if p is None or p["p"]:
        return None
    seen = set()
    l = p["l"]
    while l not in seen:
        seen.add(l)
        ds = [d for d in b.defs.get(l, []) if d[2] == "rv"]
        if len(ds) != 1:
            return None
        rv = ds[0][3]
        if rv["k"] == "agg" and rv["kind"].get("a") == "closure":
            return rv["kind"]["def"], ds[0]
        if rv["k"] == "use":
            ip = op_place(rv["o"])
            if ip is None or ip["p"]:
                return None
            l = ip["l"]
            continue
        return None
    return None


# the rule itself compares the default (rayon) build with the sequential one; other features do not touch the parallel code
THOROUGH_CONFIGS = ["async", "serde"]


def run(ctx):
    F = ctx.facts("default")
    G = ctx.facts("nodefault")
    R = "R-EFF"
    ctx.ob("R-UNSAFE", "forbid(unsafe_code)", F.forbid_unsafe() and G.forbid_unsafe(), "#![forbid(unsafe_code)] in both configurations",
           what="the crate no longer forbids unsafe code: data races are not excluded by construction", nontrivial=False)
    # (i) parallel closures
    par = []      # (parent body, rayon call, closure def path)
    rayon_calls = 0
    for p, b in sorted(F.bodies.items()):
        for c in b.calls:
            n = c.fn or c.name
            if not n.startswith("rayon::"):
                continue
            rayon_calls += 1
            ok = bool(ORDER_PRESERVING.match(n))
            ctx.ob(R, "rayon-adaptor|%s|%s" % (F.canon_of(b), n.rsplit("::", 1)[-1]), ok, "%s is in the reviewed order-preserving set" % n, b.where(c.ln),
                   what="%s uses rayon adaptor %s, which is not in the reviewed order-preserving set (e.g. for_each/reduce/find_any make the result schedule-dependent)" % (F.canon_of(b), n))
            for a in c.args:
                cd = closure_of_operand(b, a)
                if cd:
                    par.append((b, c, cd[0]))
    ctx.floor(R, "rayon call sites", rayon_calls, 6)
    ctx.floor(R, "closures handed to rayon", len(par), 2)
    # rayon must be absent from the sequential configuration
    seq_rayon = [(G.canon_of(b), c.fn) for b in G.bodies.values() for c in b.calls if (c.fn or c.name).startswith("rayon::")]
    ctx.ob(R, "sequential-build-has-no-rayon", not seq_rayon, "no rayon call in --no-default-features", "", what="the sequential configuration still calls rayon: %s" % seq_rayon[:2])
    # (ii-a) the parallel iterator runs over the same items as the sequential one: the operand (and chunk size) of every
    # rayon source is, in the sequential configuration, the operand of the corresponding std source in the same function
    SEQ_OF = {"par_chunks": "chunks", "par_chunks_exact": "chunks_exact", "par_iter": "iter", "into_par_iter": "into_iter", "par_iter_mut": "iter_mut",
              "par_chunks_mut": "chunks_mut", "par_windows": "windows"}
    nsrc = 0
    for p, b in sorted(F.bodies.items()):
        for c in b.calls:
            n = c.fn or c.name
            short = n.rsplit("::", 1)[-1]
            if not n.startswith("rayon::") or short not in SEQ_OF:
                continue
            nsrc += 1
            want = [b.sname(a, 8) for a in c.args]
            gp = G.fns(F.canon_of(b))
            got = [[g.sname(a, 8) for a in c2.args] for g in gp for c2 in g.calls if (c2.fn or c2.name).rsplit("::", 1)[-1] == SEQ_OF[short]]
            ctx.ob(R, "same-source-sequential|%s|%s" % (F.canon_of(b), short), want in got, "%s(%s) runs over the operand of %s in --no-default-features" % (short, b.oname(c.args[0], 3), SEQ_OF[short]),
                   b.where(c.ln), what="%s: the parallel build iterates %s(%s) but the sequential build has no %s over the same operand (it has %s): the two builds process different items"
                                       % (F.canon_of(b), short, ", ".join(b.oname(a, 3) for a in c.args), SEQ_OF[short], [x[0][:80] for x in got][:3]))
    ctx.floor(R, "rayon iterator sources", nsrc, 2)
    for parent, call, cdef in par:
        pfn = F.canon_of(parent)
        cb = F.bodies.get(cdef)
        if cb is None:
            raise AnchorLost("closure body %s not found" % cdef)
        cfn = F.canon_of(cb)
        # (ii) the same closure is what the sequential build runs
        gp = G.fns(pfn)
        same = False
        if len(gp) == 1:
            for c in gp[0].calls:
                n = c.fn or c.name
                if re.search(r"iter::Iterator::(filter_map|map|filter|flat_map)$", n):
                    for a in c.args:
                        cd = closure_of_operand(gp[0], a)
                        if cd and G.bodies.get(cd[0]) is not None and G.canon_of(G.bodies[cd[0]]) == cfn:
                            # and the closure bodies make the same crate-local and effectful calls
                            gb = G.bodies[cd[0]]
                            sig = lambda bb, FF: sorted((c2.fn or c2.name) for c2 in bb.calls)
                            same = sig(cb, F) == sig(gb, G)
        ctx.ob(R, "same-closure-sequential|%s" % cfn, same, "%s is also the closure of the sequential iterator in --no-default-features, with identical calls" % cfn,
               parent.where(call.ln), what="the closure handed to rayon in %s is not the one the sequential build runs (the two builds may diverge)" % pfn)
        # (iii) effects in the closure's crate-local call closure
        scope = F.reach([cb.path])
        locks = []
        for q in sorted(scope):
            qb = F.bodies[q]
            for c in qb.calls:
                n = c.fn or c.name
                if n.startswith("log::"):
                    continue
                for rx, kind in EFFECT:
                    if rx.search(n) or rx.search(c.full or ""):
                        if kind == "lock" and qb is cb:
                            locks.append(c)
                        else:
                            ctx.finding(R, "effect|%s|%s|%s" % (cfn, kind, n), "parallel closure %s reaches %s effect %s in %s" % (cfn, kind, n, F.canon_of(qb)), qb.where(c.ln))
                        break
            for bi, si, s in qb.stmts():
                rv = s.get("rv")
                if rv and rv["k"] == "tls":
                    ctx.finding(R, "effect|%s|thread-local|%s" % (cfn, rv["def"]), "parallel closure %s reads thread-local %s" % (cfn, rv["def"]), qb.where(s["ln"]))
        ctx.ob(R, "effects-enumerated|%s" % cfn, True, "%d bodies in the closure's call closure scanned; %d lock site(s)" % (len(scope), len(locks)), cb.where(), nontrivial=True)
        # accumulators
        upnames = {}
        for nm, pl in cb.upvars:
            upnames[cb.pname(pl, 1)] = nm
        accs = {}
        for c in locks:
            t = cb.oname(c.args[0], 3).lstrip("&")
            nm = None
            for k, v in upnames.items():
                if k.lstrip("&*") == t.lstrip("&*"):
                    nm = v
            if nm is None:
                ctx.finding(R, "effect|%s|lock-on-unknown|%s" % (cfn, t), "parallel closure %s locks %s, which is not a captured local of the parent" % (cfn, t), cb.where(c.ln))
                continue
            accs.setdefault(nm, []).append(c)
        for nm, cs in sorted(accs.items()):
            sorted_acc = check_consumer(ctx, F, parent, nm, cfn)
            if sorted_acc:
                check_sort_key(ctx, F, cb, nm, cfn)
    # what is merged in entry order must be *visited* in an order the file determines: no iteration over a hash collection
    # (its order changes from run to run) in the reader's merging code
    hashed = []
    for x in F.with_closures(F.fn("Reader::read")):
        for c in x.calls:
            full = (c.full or "") + " " + (c.fn or "")
            if re.search(r"(iter|into_iter|par_iter|into_par_iter|keys|values|values_mut|iter_mut|drain|par_iter_mut)$", c.fn or "") and re.search(r"Hash(Map|Set)<", full + " " + (x.lty(op_place(c.args[0])["l"]) if c.args and op_place(c.args[0]) is not None else "")):
                hashed.append("%s line %d: %s" % (F.canon_of(x), c.ln, (c.fn or "").rsplit("::", 1)[-1]))
    ctx.ob(R, "no-hash-order-iteration|Reader::read", not hashed, "Reader::read iterates no HashMap / HashSet", F.fn("Reader::read").where(),
           what="Reader::read iterates a hash collection (%s): its order differs from run to run, so which of two entries leading to the same object wins depends on the run (and on nothing in the file)" % hashed)
    ctx.extra["parallel_closures"] = [F.canon_of(F.bodies[x[2]]) for x in par]
    ctx.sample({"parallel closure": ctx.extra["parallel_closures"], "configurations": ["default", "nodefault"]})


def check_consumer(ctx, F, parent, acc, cfn):
    R = "R-EFF"
    pfn = F.canon_of(parent)
    loc = [l for l, n in parent.names.items() if n == acc and re.search(r"sync::(Mutex|RwLock)<", parent.lty(l))]
    if len(loc) != 1:
        raise AnchorLost("accumulator %s not found as a unique local of %s" % (acc, pfn))
    l = loc[0]
    if re.search(r"sync::Mutex<std::collections::BTreeMap<", parent.lty(l)):
        # a map ordered by its key: whatever order the workers insert in, it is walked in key order (the rule on the insertions,
        # check_sort_key, asks that the key is the parallel iterator's own item key, so that no two workers insert the same one)
        ctx.ob(R, "accumulator|%s|%s" % (pfn, acc), True, "%s is a BTreeMap: completion order is normalised to key order by the container" % acc, parent.where())
        ctx.__dict__.setdefault("_sort_field", {})[acc] = "btree-key"
        return True
    # into_inner(acc) -> unwrap -> value
    def root(o):
        pl = op_place(parent.resolve_copy(o))
        return pl["l"] if pl is not None and not pl["p"] else None
    ii = [c for c in parent.calls if re.search(r"sync::Mutex::<T>::into_inner$", c.fn or "") and root(c.args[0]) == l]
    if len(ii) != 1:
        ctx.finding(R, "accumulator|%s|%s" % (pfn, acc), "accumulator %s is not consumed through exactly one Mutex::into_inner after the parallel phase" % acc, parent.where())
        return False
    # follow the value to its into_iter / sort
    val = ii[0].dest["l"]
    chain = [val]
    sorts = []
    iters = []
    frontier = [val]
    seen = set()
    while frontier:
        x = frontier.pop()
        if x in seen:
            continue
        seen.add(x)
        for u in parent.uses(x):
            if u["kind"] == "arg":
                c = parent.callsite_at(u["bb"])
                n = c.fn or c.name
                if SORTS.search(n):
                    sorts.append(c)
                elif n.endswith("IntoIterator::into_iter") or re.search(r"Vec::<.*>::(drain|iter|into_iter)$|slice::<impl \[T\]>::iter$", n):
                    iters.append(c)
                    continue
                if not c.dest["p"]:
                    frontier.append(c.dest["l"])
            elif u["kind"] == "rv" and not u["stmt"]["lhs"]["p"]:
                frontier.append(u["stmt"]["lhs"]["l"])
            elif u["kind"] == "ref":
                frontier.append(u["stmt"]["lhs"]["l"])
    if not iters:
        ctx.finding(R, "accumulator|%s|%s" % (pfn, acc), "cannot find where accumulator %s is consumed" % acc, parent.where(ii[0].ln))
        return False
    was_sorted = False
    for it in iters:
        sorted_first = any(parent.dominates(s.bb, it.bb) for s in sorts)
        if sorted_first:
            was_sorted = True
            ctx.ob(R, "accumulator|%s|%s" % (pfn, acc), True, "%s is sorted before it is iterated: completion order is normalised to the sequential (key) order" % acc, parent.where(it.ln))
            # the sort key must be the block tag (field 0 of the element)
            for s in sorts:
                kc = closure_of_operand(parent, s.args[-1]) if len(s.args) > 1 else None
                okk = False
                if kc:
                    kb = F.bodies.get(kc[0])
                    if kb is not None:
                        rets = [st for bi, si, st in kb.stmts() if "lhs" in st and st["lhs"]["l"] == 0 and not st["lhs"]["p"]]
                        for st in rets:
                            rp = op_place(st["rv"]["o"]) if st["rv"]["k"] == "use" else None
                            if rp is not None:
                                rp = kb.root_place(rp, through_names=True)
                                flds = [e for e in rp["p"] if isinstance(e, dict) and "f" in e]
                                if rp["l"] == kb.argc and flds:
                                    # the element's field the sort goes by (a tuple's .0 or a struct's tag field); the rule on the
                                    # pushes (check_sort_key) asks that this very field holds the iterator's own item key
                                    okk = True
                                    ctx.__dict__.setdefault("_sort_field", {})[acc] = flds[0]["f"]
                ctx.ob(R, "sort-key-is-tag|%s|%s" % (pfn, acc), okk, "the sort key is one field of the element (the tag)", parent.where(s.ln),
                       what="accumulator %s is sorted by something other than the per-block tag" % acc)
            continue
        # commutative table: the loop over the accumulator may call only the reviewed callee
        com = COMMUTATIVE.get(acc)
        loop_calls = consumer_calls(F, parent, it)
        # the reviewed argument is about calls that are given a KEY and take everything else from the merged document: an element
        # that carries anything a worker read (a position, a length) hands a worker's view, in completion order, to the consumer
        accl = [l for l, nm in parent.names.items() if nm == acc]
        elem_ok = bool(accl) and re.search(r"Mutex<std::vec::Vec<\(u32, u16\)>>$", parent.lty(accl[0])) is not None
        if com and loop_calls == {com[0]} and not elem_ok:
            ctx.finding(R, "accumulator-carries-key-only|%s|%s" % (pfn, acc),
                        "accumulator %s (%s) carries more than the object id: what a worker read next to the id reaches the consumer in thread-completion order, "
                        "and with two entries for one id the survivor is finished with the other copy's data (the reviewed commutativity argument is about ids alone)"
                        % (acc, parent.lty(accl[0]) if accl else "?"), parent.where(it.ln))
        elif com and loop_calls == {com[0]}:
            ctx.ob(R, "accumulator|%s|%s" % (pfn, acc), True, "TABLED commutative consumer %s: %s" % (com[0], com[1]), parent.where(it.ln))
        else:
            ctx.finding(R, "accumulator|%s|%s" % (pfn, acc),
                        "accumulator %s is filled in thread-completion order and consumed without sorting by an order-sensitive loop (crate-local calls in the loop: %s)"
                        % (acc, sorted(loop_calls) or "none: direct map insertion"), parent.where(it.ln))
    return was_sorted


def check_sort_key(ctx, F, cb, acc, cfn):
    """a sort only normalises completion order if its key is unique per block: the tag pushed with each block must be the
    parallel iterator's own item key (unique by construction of the map / index), not a value parsed from the input."""
    R = "R-EFF"
    param = cb.argc            # closures: the last argument is the item
    pushes = [c for c in cb.calls if re.search(r"Vec::<.*>::(push|extend|insert)$|BTreeMap::<.*>::insert$", c.fn or "") and acc in cb.oname(c.args[0], 3)]
    if not pushes:
        ctx.finding(R, "sort-key-unique|%s|%s" % (cfn, acc), "no push into %s found in the parallel closure" % acc, cb.where())
        return
    for c in pushes:
        d = cb.def_rv(c.args[1])
        tag = None
        fld = getattr(ctx, "_sort_field", {}).get(acc, 0)
        if fld == "btree-key":
            tag = c.args[1] if re.search(r"BTreeMap::<.*>::insert$", c.fn or "") and len(c.args) == 3 else None
        elif d and d[2] == "rv" and d[3]["k"] == "agg" and d[3]["kind"].get("a") in ("tuple", "adt") and len(d[3]["ops"]) > fld:
            tag = d[3]["ops"][fld]
        ok = False
        how = "?"
        if tag is not None:
            p = op_place(tag)
            if p is not None:
                p = cb.root_place(p, through_names=True)
            how = cb.pname(p, 2) if p is not None else "?"
            ok = p is not None and p["l"] == param
        ctx.ob(R, "sort-key-unique|%s|%s" % (cfn, acc), ok, "block tag is %s, the parallel iterator's own item key" % how, cb.where(c.ln),
               what="blocks pushed into %s are tagged with `%s`, which is not the parallel iterator's own (unique) item key: equal tags keep thread-completion order through the stable sort" % (acc, how))


def consumer_calls(F, parent, it_call):
    """crate-local callees and order-sensitive map operations inside the loop driven by the iterator created at it_call."""
    itl = it_call.dest["l"]
    # the loop whose header calls next() on this iterator
    out = set()
    for head, blocks in parent.loops().items():
        drives = False
        for c in parent.calls:
            if c.bb in blocks and (c.fn or "").endswith("Iterator::next"):
                t = parent.oname(c.args[0], 4)
                # iterator local: `iter` debug name bound to into_iter result
                p = op_place(c.args[0])
                src = p["l"] if p else None
                for _ in range(4):
                    d = parent.single_def(src) if src is not None else None
                    if d and d[2] == "rv" and d[3]["k"] == "ref":
                        src = d[3]["p"]["l"]
                    elif d and d[2] == "rv" and d[3]["k"] == "use" and op_place(d[3]["o"]):
                        src = op_place(d[3]["o"])["l"]
                    else:
                        break
                if src == itl:
                    drives = True
                else:
                    dd = [x for x in parent.defs.get(src, []) if x[2] == "rv" and x[3]["k"] == "use" and op_place(x[3]["o"]) and op_place(x[3]["o"])["l"] == itl]
                    if dd:
                        drives = True
        if not drives:
            continue
        for c in parent.calls:
            if c.bb in blocks:
                n = c.fn or c.name
                if c.local and c.name in F.bodies:
                    out.add(F.canon_of(F.bodies[c.name]))
                elif re.search(r"(BTreeMap|HashMap|IndexMap)::<.*>::(insert|entry)$|Entry::<.*>::(or_insert|or_insert_with|or_default)$|Vec::<.*>::push$", n):
                    out.add(n.rsplit("::", 2)[-2] + "::" + n.rsplit("::", 1)[-1])
    return out
