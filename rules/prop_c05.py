"""C05 — encrypt then decrypt restores every string and stream (DESIGN §4 C05)."""
import re
from collections import Counter
import lib
from mir import op_place, op_const, const_bytes, AnchorLost

LEVEL = dict(
    level="other",
    rule_text="sibling agreement encrypt_object <-> decrypt_object and CryptFilter::encrypt <-> decrypt per implementation (same callee "
              "multiset modulo encrypt/decrypt, same byte constants, same closures); authentication and state decoding dominate the "
              "first mutation in decrypt_raw/encrypt; the encryption dictionary is added after / removed after the object loop and "
              "skipped by it; object-stream members are merged add-only after decryption; both password kinds are tried; for "
              "revisions 2-4 the file key must be derived from the user password (owner password unwound first); the method name each CryptFilter writes (CFM) is mapped back to the same filter by get_crypt_filters; every Ok return of authenticate_* is entered on an edge on which the owner or the user authentication was Ok",
    explanation="Decides the structural conditions without which the round trip cannot hold for every object: an exemption or filter "
                "choice present on one side only, mutation before authentication, a missing/extra Encrypt entry, replacing objects "
                "while merging object-stream members. Does not decide byte equality after the cycle, ciphertext != plaintext, key "
                "derivation values or the password space.",
    trusted_base=["rustc MIR and callee resolution", "the sibling pairs named in the rule"],
)


def norm(n):
    n = re.sub(r"decrypt", "XCRYPT", n)
    n = re.sub(r"encrypt", "XCRYPT", n)
    n = re.sub(r"plaintext|ciphertext", "TEXT", n)
    return n


def signature(F, b, _seen=None):
    """callee multiset (crate-local canonical names, foreign short names), byte constants and closure signatures.
    Calls to private helpers of the same file are looked through (their calls and constants count as the caller's), so that
    extracting a helper does not change the signature."""
    calls = Counter()
    consts = Counter()
    seen = _seen if _seen is not None else {b.path}
    for body in F.with_closures(b):
        for c in body.calls:
            n = c.name if c.local and c.name in F.bodies else (c.fn or c.name)
            if c.local and c.name in F.bodies:
                cb = F.bodies[c.name]
                if cb.vis.startswith("Restricted") and cb.file == b.file and cb.path not in seen and len(seen) < 6:
                    seen.add(cb.path)
                    c2, k2 = signature(F, cb, seen)
                    calls += c2
                    consts += k2
                    continue
                n = F.canon_of(cb)
            n = re.sub(r"\{closure#\d+\}", "{closure}", n)
            if re.search(r"ops::Try|FromResidual|ops::Deref|IntoIterator|Iterator::next|clone::Clone|drop_in_place", n):
                continue
            if not (c.local and c.name in F.bodies) and re.search(r"::(iter|iter_mut|into_iter|values_mut|try_for_each|for_each|any|all|contains|eq|ne|index|index_mut|as_slice|as_ref|borrow|borrow_mut)$", n):
                continue          # how a collection is walked or searched (a loop or an adaptor, `contains` or `any(==)`) is not what the two sides must agree on
            calls[norm(n)] += 1
        for bi, si, s in body.stmts():
            rv = s.get("rv")
            if rv and rv["k"] == "use":
                k = op_const(rv["o"])
                if k is not None and const_bytes(k) is not None and len(const_bytes(k)) > 1:
                    consts[const_bytes(k)] += 1
    return calls, consts


def sibling(ctx, F, fa, fb, label):
    a, b = F.fn(fa), F.fn(fb)
    ca, ka = signature(F, a)
    cb, kb = signature(F, b)
    d1 = {k: v for k, v in (ca - cb).items()}
    d2 = {k: v for k, v in (cb - ca).items()}
    ctx.ob("R-SIB", "calls|%s" % label, not d1 and not d2, "%s and %s make the same calls modulo encrypt/decrypt (%d call kinds)" % (fa, fb, len(ca)), a.where(),
           what="%s and %s no longer mirror each other: only in the first %s, only in the second %s — whatever one side exempts or selects differently is not restored by the other"
                % (fa, fb, dict(d1), dict(d2)))
    e1 = {k.decode("latin1"): v for k, v in (ka - kb).items()}
    e2 = {k.decode("latin1"): v for k, v in (kb - ka).items()}
    ctx.ob("R-SIB", "constants|%s" % label, not e1 and not e2, "same dictionary keys / type names on both sides: %s" % sorted(k.decode("latin1") for k in ka), a.where(),
           what="%s and %s test different names: only in the first %s, only in the second %s" % (fa, fb, e1, e2))
    return ca, ka


def matched_names(b, bb, depth=3):
    """byte strings a matched slice is known to equal on entry to block bb: from the dominating pattern tests, or — for the
    arm of an or-pattern, which has several predecessors — the union over its predecessors."""
    m = {v for k, v in lib.slice_matches(b, bb).items() if k.startswith("match:")}
    if m or depth <= 0:
        return m
    out = set()
    for p in b.pred[bb]:
        mp = {v for k, v in lib.slice_matches(b, bb, via=p).items() if k.startswith("match:")}
        out |= mp or matched_names(b, p, depth - 1)
    return out


def cfm_agreement(ctx, F):
    """the method name each crypt filter writes into the encryption dictionary (CryptFilter::method) is a name that
    get_crypt_filters maps back to the same filter: otherwise the saved file is decrypted with another filter."""
    g = F.fn("Document::get_crypt_filters")
    back = {}
    for b in F.with_closures(g):
        for c in b.calls:
            m = re.search(r"sync::Arc::<.*::(\w+CryptFilter)>::new$", c.full or "")
            if m:
                for nm in matched_names(b, c.bb):
                    back[nm] = m.group(1)
    ctx.floor("R-SIB", "CFM names recognised by get_crypt_filters", len(back), 4)
    for ty in ("Rc4CryptFilter", "Aes128CryptFilter", "Aes256CryptFilter", "IdentityCryptFilter"):
        mb = F.fn("<%s as CryptFilter>::method" % ty)
        names = set()
        for bi, si, st in mb.stmts():
            rv = st.get("rv")
            if rv and rv["k"] in ("use", "cast"):
                k = lib._const_bytes_through(mb, rv["o"])
                if k:
                    names.add(k)
        ok = len(names) == 1 and back.get(next(iter(names))) == ty
        ctx.ob("R-SIB", "cfm-agreement|%s" % ty, ok, "%s writes CFM %s, which get_crypt_filters maps to %s" % (ty, sorted(names), back.get(next(iter(names))) if names else "?"), mb.where(),
               what="%s::method() writes the crypt filter method name %s, which Document::get_crypt_filters maps to %s: a file encrypted with this filter "
                    "is decrypted with another one after save and reload (recognised names: %s)"
                    % (ty, sorted(x.decode("latin1") for x in names), back.get(next(iter(names))) if names else "nothing", {k.decode("latin1"): v for k, v in back.items()}))


def add_only_merge(ctx, F, fn, what_merge, rule="R-WHO"):
    """after the initial construction, `objects` may only grow through entry().or_insert()."""
    b = F.fn(fn)
    bad = []
    good = 0
    for c in b.calls:
        n = c.fn or c.name
        if re.search(r"BTreeMap::<.*>::(insert|append|extend|retain|clear)$|iter::Extend::extend$", n) and c.args and re.search(r"\bobjects\b", b.oname(c.args[0], 4)):
            bad.append((n.rsplit("::", 1)[-1], c.ln))
        if re.search(r"btree_map::Entry::<.*>::or_insert$", n):
            good += 1
    ctx.ob(rule, "add-only-merge|%s" % fn, not bad and good >= 1, "%s merges %s with entry().or_insert() only" % (fn, what_merge), b.where(),
           what="%s merges %s into `objects` with %s: members of object streams now replace objects that are already present (newer or edited objects are overwritten by stale copies)"
                % (fn, what_merge, bad))


def run(ctx):
    F = ctx.facts("default")
    cfm_agreement(ctx, F)
    # "the right password opens it": authentication goes through the revision-specific algorithms, which the general
    # methods of PasswordAlgorithm must select for exactly the revisions they are defined for (shared with C06)
    import prop_c06
    prop_c06.revision_dispatch(ctx, F)
    prop_c06.password_truncation(ctx, F)
    prop_c06.revision_not_version(ctx, F)
    prop_c06.identity_only_by_name(ctx, F)
    import prop_c16
    prop_c16.pdfdoc_table(ctx, F)
    # every security handler built from an EncryptionVersion says whether the metadata is encrypted: the value is written in
    # the literal (or taken from the version's own field), never left to `..Default::default()` (whose `false` disagrees with the
    # absent /EncryptMetadata entry of V < 4, which means true: the two sides then treat the metadata stream differently)
    etf = F.fn("<EncryptionState as TryFrom>::try_from")
    dflt = []
    nlit = 0
    for x in lib.struct_literals(etf, "PasswordAlgorithm"):
        o_ = x[2].get("encrypt_metadata")
        if o_ is None:
            continue
        nlit += 1
        q_ = op_place(o_)
        rp_ = etf.root_place(q_, through_names=True) if q_ is not None else None
        d_ = etf.single_def(rp_["l"]) if rp_ is not None else None
        if d_ and d_[2] == "call" and (d_[3]["f"].get("fn") or "").endswith("Default::default"):
            dflt.append(x[1] if len(x) > 1 and isinstance(x[1], int) else "?")
    ctx.ob("R-SIB", "encrypt-metadata-stated-for-every-version", nlit >= 3 and not dflt, "all %d handler literals state encrypt_metadata themselves" % nlit, etf.where(),
           what="a security handler built from an EncryptionVersion takes encrypt_metadata from Default::default() (false): encrypting skips the metadata stream, but the written dictionary has no /EncryptMetadata false, so decrypting runs the cipher over plaintext")
    # PKCS#5 padding is reversible: a whole block of padding is added when the plaintext is a multiple of the block size.  The
    # cipher crates ask the padding type for this (RawPadding::TYPE); declared "ambiguous" they add nothing in that case, while
    # the unchanged AES filters still reserve and later strip the block
    pt = [c for n_, c in F.consts.items() if n_.endswith("Pkcs5 as aes::cipher::block_padding::RawPadding>::TYPE") or re.search(r"Pkcs5 as .*RawPadding>::TYPE$", n_)]
    ctx.ob("R-TABLE", "pkcs5-padding-is-reversible", len(pt) == 1 and str(pt[0].get("int")) == "0", "<Pkcs5 as RawPadding>::TYPE = PadType::Reversible", "src/encryption/pkcs5.rs",
           what="<Pkcs5 as RawPadding>::TYPE is not PadType::Reversible (value %s): plaintexts whose length is a multiple of 16 (the empty string among them) get no padding block and do not decrypt" % ([c.get("int") for c in pt]))
    ca, ka = sibling(ctx, F, "encryption::encrypt_object", "encryption::decrypt_object", "object")
    ctx.floor("R-SIB", "byte constants of encrypt_object", len(ka), 4)
    for t in (b"XRef", b"Crypt", b"DecodeParms"):
        ctx.ob("R-SIB", "exemption-constant|%s" % t.decode(), t in ka, "%s is tested" % t.decode(), F.fn("encryption::encrypt_object").where(), what="encrypt_object no longer tests %s" % t.decode())
    for ty in ("Aes128CryptFilter", "Aes256CryptFilter", "Rc4CryptFilter", "IdentityCryptFilter"):
        ea, eb = "<%s as CryptFilter>::encrypt" % ty, "<%s as CryptFilter>::decrypt" % ty
        a, b = F.fn(ea), F.fn(eb)
        # key-length test identical; IV length 16 on both sides
        ia = sorted(set(re.findall(r"\b(16|32)\b", " ".join(x[0] for x in __import__("inv").rendered_guards(a, max(a.reachable()))))))
        ka_ = [g for g in _all_guards(a) if "len(&*key)" in g]
        kb_ = [g for g in _all_guards(b) if "len(&*key)" in g]
        ctx.ob("R-SIB", "key-length-test|%s" % ty, sorted(set(ka_)) == sorted(set(kb_)), "same key-length test on both sides: %s" % sorted(set(ka_)), a.where(),
               what="%s: encrypt and decrypt test the key length differently (%s vs %s)" % (ty, sorted(set(ka_)), sorted(set(kb_))))
    # AES: IV is the first 16 bytes on both sides
    for ty in ("Aes128CryptFilter", "Aes256CryptFilter"):
        e, d = F.fn("<%s as CryptFilter>::encrypt" % ty), F.fn("<%s as CryptFilter>::decrypt" % ty)
        iv_e = [l for l, n in e.names.items() if n == "iv" and re.search(r"\[u8; 16\]", e.lty(l))]
        iv_d = [l for l, n in d.names.items() if n == "iv" and re.search(r"\[u8; 16\]", d.lty(l))]
        idx = [c for c in d.calls if (c.fn or "").endswith("ops::Index::index") and "ciphertext" in d.oname(c.args[0], 3)]
        its = sorted(d.oname(c.args[1], 3) for c in idx)
        ctx.ob("R-SIB", "iv-layout|%s" % ty, bool(iv_e) and bool(iv_d) and its == ["RangeFrom::RangeFrom{16}", "RangeTo::RangeTo{16}"], "IV = first 16 bytes, payload from 16: %s" % its, d.where(),
               what="%s: the IV/payload split of decrypt (%s) is not 16/16.. as written by encrypt" % (ty, its))
    # 2. authentication before mutation
    dr = F.fn("Document::decrypt_raw")
    auth = lib.local_calls(F, dr, "authenticate_raw_password")
    dec = lib.local_calls(F, dr, "EncryptionState::decode")
    muts = []
    for bi, si, s in dr.stmts():
        rv = s.get("rv")
        if bi not in dr.reachable():
            continue
        if rv and rv["k"] == "ref" and rv.get("mut") and any(isinstance(e, dict) and e.get("n") in ("objects", "trailer", "encryption_state") for e in rv["p"]["p"]):
            muts.append((bi, s["ln"]))
        if "lhs" in s and any(isinstance(e, dict) and e.get("n") in ("objects", "trailer", "encryption_state") for e in s["lhs"]["p"]):
            muts.append((bi, s["ln"]))
    ctx.floor("R-ORDER", "mutations in decrypt_raw", len(muts), 4)
    ok = len(auth) == 1 and len(dec) == 1 and all(dr.dominates(auth[0].bb, m[0]) and dr.dominates(dec[0].bb, m[0]) for m in muts)
    okp = ok and lib.result_disposition(dr, auth[0].dest["l"])[0] == "propagated" and lib.result_disposition(dr, dec[0].dest["l"])[0] == "propagated"
    ctx.ob("R-ORDER", "authenticate-before-mutation|decrypt_raw", okp, "authenticate_raw_password()? and EncryptionState::decode()? dominate all %d mutations" % len(muts), dr.where(),
           what="decrypt_raw mutates the document before the password was authenticated and the state decoded (or ignores their result): a wrong password no longer leaves the document unchanged")
    en = F.fn("Document::encrypt")
    enc = lib.local_calls(F, en, "EncryptionState::encode")
    ise = lib.local_calls(F, en, "Document::is_encrypted")
    emuts = [bi for bi, si, s in en.stmts() if (s.get("rv") and s["rv"]["k"] == "ref" and s["rv"].get("mut") and any(isinstance(e, dict) and e.get("n") in ("objects", "trailer") for e in s["rv"]["p"]["p"]))]
    emuts += [c.bb for c in lib.local_calls(F, en, "Document::add_object")]
    ok = len(enc) == 1 and len(ise) == 1 and bool(emuts) and all(en.dominates(enc[0].bb, m) and en.dominates(ise[0].bb, m) for m in emuts)
    ctx.ob("R-ORDER", "encode-before-mutation|encrypt", ok and lib.result_disposition(en, enc[0].dest["l"])[0] == "propagated", "AlreadyEncrypted test and state.encode()? dominate all mutations", en.where(),
           what="Document::encrypt mutates the document before the state was encoded / the already-encrypted test was made")
    # 3. dictionary handling
    loops = en.loops()
    eo = lib.local_calls(F, en, "encryption::encrypt_object")
    ao = lib.local_calls(F, en, "Document::add_object")
    st = [(k, v, c) for k, v, c in lib.dict_sets(en) if k == b"Encrypt"]
    ok = len(eo) == 1 and len(ao) == 1 and len(st) == 1 and not en.can_reach(ao[0].bb, eo[0].bb) and "object_id" in en.oname(st[0][1], 4)
    ctx.ob("R-ORDER", "encrypt-dict-after-loop|encrypt", ok, "the encryption dictionary is added after the object loop and referenced from the trailer", en.where(),
           what="Document::encrypt adds the encryption dictionary before/inside the object loop (it would be encrypted itself) or does not reference it from the trailer")
    rm = [c for c in lib.local_calls(F, dr, "Dictionary::remove") if lib._const_bytes_through(dr, c.args[1]) == b"Encrypt"]
    orm = [c for c in dr.calls if re.search(r"BTreeMap::<.*>::remove$", c.fn or "") and "objects" in dr.oname(c.args[0], 4)]
    rets = [bi for bi, s in lib.blocks_assigning_ret_variant(dr, "Ok")]
    ok = len(rm) == 1 and len(orm) == 1 and bool(rets) and all(dr.dominates(rm[0].bb, r) and dr.dominates(orm[0].bb, r) for r in rets)
    ctx.ob("R-ORDER", "encrypt-dict-removed|decrypt_raw", ok, "every Ok return passes trailer.remove(Encrypt) and objects.remove(id)", dr.where(),
           what="decrypt_raw can return Ok without removing the Encrypt entry and the encryption dictionary object")
    def site(c):
        """where in decrypt_raw a call happens: its own block, or (a call inside a closure) the block that makes the closure"""
        if c.body is dr:
            return c.bb
        for bi_, si_, st_ in dr.stmts():
            rv_ = st_.get("rv")
            if rv_ and rv_["k"] == "agg" and rv_["kind"].get("a") == "closure" and rv_["kind"]["def"] == c.body.path:
                return bi_
        return None
    drc = F.with_closures(dr)
    do = [c for x in drc for c in x.calls if c.local and c.cname.endswith("encryption::decrypt_object")]
    skip = False
    if len(do) == 1:
        import inv
        gs = inv.rendered_guards(do[0].body, do[0].bb)
        skip = any(re.search(r"eq\(&id,&encryption_obj_id\)|Eq\(id,encryption_obj_id\)", g) and tr is False for g, tr in gs) or any("encryption_obj_id" in g for g, tr in gs)
        if not skip and do[0].body is not dr:
            # the loop is an iterator chain: a `filter` whose closure compares with the captured id of the encryption dictionary
            for x in drc:
                if x.kind == "Closure" and any(nm == "encryption_obj_id" for nm, _pl in x.upvars) and x.lty(0) == "bool":
                    made = site(type("C", (), {"body": x, "bb": 0})())
                    used = [c for c in dr.calls if re.search(r"iter::Iterator::filter$", c.fn or "")]
                    if made is not None and used:
                        skip = True
    ctx.ob("R-ORDER", "encrypt-dict-skipped|decrypt_raw", skip, "the loop does not decrypt the encryption dictionary itself", dr.where(),
           what="decrypt_raw no longer skips the encryption dictionary object in its loop")
    osn = [c for x in drc for c in x.calls if c.local and c.cname.endswith("ObjectStream::new")]
    ctx.ob("R-ORDER", "decrypt-loop-before-objstm-merge", len(do) == 1 and site(do[0]) is not None and all(site(c) is not None and site(c) != site(do[0]) and not dr.can_reach(site(c), site(do[0])) for c in osn),
           "object streams are expanded after the decryption loop", dr.where(), what="decrypt_raw expands object streams before their containers were decrypted")
    add_only_merge(ctx, F, "Document::decrypt_raw", "the members of decrypted object streams")
    # 5a. both password kinds
    for fn in ("Document::authenticate_password", "Document::authenticate_raw_password"):
        b = F.fn(fn)
        o = lib.local_calls(F, b, "PasswordAlgorithm::authenticate_owner_password")
        u = lib.local_calls(F, b, "PasswordAlgorithm::authenticate_user_password")
        # every Ok return is entered only on an edge on which the owner or the user authentication (or their `.or`
        # combination) was found Ok; both outcomes are consulted on some such edge
        ok = False
        if len(o) == 1 and len(u) == 1 and not o[0].dest["p"] and not u[0].dest["p"]:
            lo, lu = o[0].dest["l"], u[0].dest["l"]
            se = [(org, x) for org, x in lib.success_edges(b) if org & {lo, lu}]
            rets = [bi for bi, _s in lib.blocks_assigning_ret_variant(b, "Ok")]
            # every way to an Ok return passes one of those edges (an or-pattern arm is entered from several of them)
            sx = {x for _org, x in se}
            covered = all(r in sx or (r != 0 and not b.can_reach(0, r, avoid=sx)) for r in rets)
            ok = bool(rets) and covered and any(lo in org for org, _x in se) and any(lu in org for org, _x in se)
            if not rets:
                # the combined result is returned as it is (`a.or(b).map_err(..)`): the return place carries both outcomes
                d0 = b.defs.get(0, [])
                orgs = set()
                for d in d0:
                    if d[2] == "call":
                        tmp = d[3]["dest"]["l"]
                        # origins of the value the call produces: look at its receiver chain
                        nm = d[3]["f"].get("fn") or ""
                        if re.search(r"result::Result::<.*>::(or|map_err)$", nm):
                            for a in d[3]["args"]:
                                q = op_place(a)
                                if q is not None and not q["p"]:
                                    orgs |= lib.result_origins(b, q["l"])
                ok = bool(d0) and {lo, lu} <= orgs
        ctx.ob("R-ORDER", "both-passwords|%s" % fn, ok, "owner and user authentication are both tried and the combined result is propagated", b.where(),
               what="%s no longer accepts both the owner and the user password (or ignores the outcome)" % fn)
    # 5b. revisions 2-4: the file key is a function of the *user* password
    ck = F.fn("PasswordAlgorithm::compute_file_encryption_key")
    scope = F.reach([ck.path])
    rc4 = [q for q in scope if F.canon_of(F.bodies[q]) in ("Rc4::new", "Rc4::decrypt", "Rc4::apply_keystream")]
    ctx.ob("R-ORDER", "owner-password-key|compute_file_encryption_key", bool(rc4),
           "the key derivation can reach the RC4 unwinding of O (Algorithm 7), the only way from the owner password to the user password", ck.where(),
           what="for revisions 2-4 the file key is derived by Algorithm 2 from whatever password is given; nothing on that path unwinds O (Algorithm 7): with the owner password decrypt() returns Ok and removes /Encrypt, but no string or stream is restored")
    # ... and that way is taken whenever the password given is not the user password: the only conditions in front of the
    # unwinding are the revision dispatch and the failed user authentication of the very password (no shortcut for an empty
    # password, a length, a flag: the owner password may be any string, the empty one included)
    import inv as _inv
    rec = [c for c in ck.calls if c.local and c.cname.endswith("recover_user_password_r4")]
    okr, extra = bool(rec), []
    for c in rec:
        for gd, tr in _inv.rendered_guards(ck, c.bb):
            if re.search(r"\.revision\b", gd) or re.match(r"^discr\(", gd):
                continue
            if re.match(r"^is_err\(&?authenticate_user_password_r4\(", gd) and tr:
                continue
            if re.match(r"^is_ok\(&?authenticate_user_password_r4\(", gd) and not tr:
                continue
            extra.append(("" if tr else "!") + gd)
    ctx.ob("R-ORDER", "owner-password-key|unconditional-recovery", okr and not extra, "the user password is retrieved from O whenever the given password fails the user authentication", ck.where(),
           what="compute_file_encryption_key retrieves the user password from O only under an extra condition (%s): an owner password for which it does not hold opens the document with a key derived from the owner password itself" % extra)
    ctx.sample({"sibling": "encrypt_object <-> decrypt_object", "call kinds": len(ca), "constants": sorted(k.decode("latin1") for k in ka)})


def _all_guards(b):
    out = []
    for bi in range(b.n):
        t = b.term(bi)
        if t["k"] == "switch":
            out.append(b.oname(t["d"], 4))
    return out
