"""C17 — bookmarks become a well-formed outline that reads back (DESIGN §4 C17): writer/reader sibling agreement."""
import re
import lib, inv
from mir import op_place, op_const, const_bytes, AnchorLost

LEVEL = dict(
    level="other",
    rule_text="keys the outline reader requires ⊆ keys the outline writer sets; the action type written ∈ the set the reader accepts; D "
              "is written as a 2-element array and read by index 0/1; title codec agreement (FE FF + big-endian units produced by "
              "encode_utf16, i.e. with surrogate pairs; reader tests FE FF and assembles big-endian); Next/Prev are set as a pair and "
              "Parent/First/Last/Count on every level; the zero-page fix-up walks every child list regardless of page state; the escape decision of write_string (titles are literal or hex strings) is order-insensitive; build_outline numbers its objects from a counter that starts at max_id and is only incremented (data flow)",
    explanation="Decides link/key/codec agreement between build_outline and get_toc. Does not decide link consistency of a whole "
                "forest, order or page numbers.",
    trusted_base=["rustc MIR and callee resolution"],
)
LEVEL["rule_text"] += '; the page-number lookup of get_toc does not presume ids in ascending order'


def keys_read(F, fn):
    out = set()
    for b in F.fns(fn):
        # the function with its closures and the private helpers of the same file it hands the work to
        for body in lib.local_scope(F, b):
            for c in body.calls:
                if c.local and re.search(r"Dictionary::(get|get_deref|has|get_mut)$|Document::get_dict_in_dict$", lib.canon_callee(F, c)):
                    for a in c.args[1:]:
                        k = lib._const_bytes_through(body, a)
                        if k:
                            out.add(k)
    return out


def keys_set(F, fn):
    out = {}
    for b in F.fns(fn):
        for body in F.with_closures(b):
            for k, v, c in lib.dict_sets(body):
                if k:
                    out.setdefault(k, []).append((body, v, c))
    return out


def _run(ctx):
    F = ctx.facts("default")
    R = "R-SIB"
    need = set()
    for fn in ("Document::get_outline", "Document::get_outlines"):
        need |= keys_read(F, fn)
    need -= {b"Outlines", b"Dests", b"Names", b"Dest"}
    have = {}
    for fn in ("Document::outline_child", "Document::build_outline"):
        for k, v in keys_set(F, fn).items():
            have.setdefault(k, []).extend(v)
    oc = F.fn("Document::outline_child")
    # the `dictionary!` macro for the action dictionary
    ctx.floor(R, "keys read by the outline reader", len(need), 5)
    ctx.floor(R, "keys set by the outline writer", len(have), 10)
    miss = sorted(k.decode() for k in need if k not in have)
    ctx.ob(R, "reader-keys-subset-of-writer-keys", not miss, "reader needs %s; writer sets %s" % (sorted(k.decode() for k in need), sorted(k.decode() for k in have)), oc.where(),
           what="the outline reader requires the key(s) %s which build_outline never writes: the table of contents cannot be read back" % miss)
    for k in (b"Parent", b"Title", b"A", b"Next", b"Prev", b"First", b"Last", b"Count", b"D", b"S"):
        ctx.ob(R, "writer-sets|%s" % k.decode(), k in have, "%s is written" % k.decode(), oc.where(), what="the outline writer no longer sets /%s" % k.decode())
    # action type
    sval = [lib._const_bytes_through(b, v) or b.oname(v, 5).encode() for b, v, c in have.get(b"S", [])]
    go = F.fn("Document::get_outline")
    accepted = set()
    for c in go.calls:
        for a in c.args:
            k = lib._const_bytes_through(go, a)
            if k and k.startswith(b"GoTo"):
                accepted.add(k)
    for v in lib.format_sites(go):
        pass
    for bi, si, s in go.stmts():
        rv = s.get("rv")
        if rv and rv["k"] == "use":
            k = op_const(rv["o"])
            if k is not None and const_bytes(k) and const_bytes(k).startswith(b"GoTo"):
                accepted.add(const_bytes(k))
    okS = bool(sval) and all(any(a in v for a in accepted) for v in sval)
    ctx.ob(R, "action-type-accepted", okS and bool(accepted), "writer sets S = %s; reader accepts %s" % (sval, sorted(accepted)), oc.where(),
           what="build_outline writes the action type %s but get_outline accepts only %s" % (sval, sorted(accepted)))
    # D: 2-element array [page, /Fit]
    dval = have.get(b"D", [])
    okD = False
    how = "?"
    for b, v, c in dval:
        d = b.def_rv(v)
        els = None
        if d and d[2] == "call":
            # vec![..].into()
            for a in d[3]["args"]:
                els = lib.vec_literal(b, a) or els
        if els is None:
            els = lib.vec_literal(b, v)
        if els is not None:
            how = [b.oname(e, 4) for e in els]
            okD = len(els) == 2 and "page" in how[0]
    ctx.ob(R, "destination-array", okD, "D = [page, /Fit]: %s" % how, oc.where(), what="the destination written by build_outline is not the 2-element array [page /Fit] that the reader indexes with [0] and [1]")
    # title codec
    enc16 = [c for b in F.with_closures(oc) for c in b.calls if re.search(r"str::<impl str>::encode_utf16$", c.fn or "")]
    chars = [c for b in F.with_closures(oc) for c in b.calls if re.search(r"str::<impl str>::(chars|char_indices|bytes)$", c.fn or "")]
    tobe = [k for b in F.with_closures(oc) for k in [x for x in b.fn_mentions()] if k[0].endswith("to_be_bytes")] + \
           [c for b in F.with_closures(oc) for c in b.calls if re.search(r"num::<impl u16>::to_be_bytes$", c.fn or "")]
    lits = [lib.vec_literal(oc, {"c": c.dest}) for c in oc.calls if (c.fn or "").endswith("box_assume_init_into_vec_unsafe")]
    bom = any(l is not None and [oc.oname(e, 2) for e in l] == ["254", "255"] for l in lits)
    ctx.ob(R, "title-encoder", len(enc16) == 1 and not chars and bool(tobe) and bom, "non-ASCII titles are FE FF + encode_utf16() units big-endian", oc.where(),
           what="outline_child does not encode non-ASCII titles as FE FF followed by big-endian encode_utf16() units (characters above U+FFFF need surrogate pairs)")
    gt = F.fn("Document::get_toc")
    conds = [gt.oname(gt.term(bi)["d"], 5) for bi in range(gt.n) if gt.term(bi)["k"] == "switch"]
    bomr = any(re.search(r"Eq\(.*index\(&?\w+,0\),254\)", c) for c in conds) and any(re.search(r"Eq\(.*index\(&?\w+,1\),255\)", c) for c in conds)
    if not bomr:
        # a slice pattern `[0xfe, 0xff, ..]`: switches on element 0 / element 1 with an arm for 254 / 255
        el = {0: set(), 1: set()}
        for bi in range(gt.n):
            t_ = gt.term(bi)
            if t_["k"] != "switch" or t_["dty"] != "u8":
                continue
            p_ = op_place(t_["d"])
            if p_ is None:
                continue
            p_ = gt.root_place(p_, through_names=True)
            ix = [e for e in p_["p"] if isinstance(e, dict) and ("cidx" in e)]
            if len(ix) == 1 and not ix[0].get("end") and ix[0]["cidx"] in el:
                el[ix[0]["cidx"]] |= {int(v) for v, _x in t_["tg"]}
        bomr = 254 in el[0] and 255 in el[1]
    be = False
    for cl in F.closures_of(gt.path):
        for bi, si, s in cl.stmts():
            if "lhs" in s and s["lhs"]["l"] == 0:
                t = cl.rvname(s["rv"], 6)
                if re.match(r"^BitOr\(Shl\(\*?(\w+)\[0\] as u16,8\),\*?\1\[1\] as u16\)$", t):
                    be = True
    ctx.ob(R, "title-decoder", bomr and be, "get_toc tests FE FF and assembles (x[0] << 8) | x[1]", gt.where(), what="get_toc's title decoder no longer mirrors the writer's FE FF / big-endian encoding")
    # the title bytes reach the decoder as they were stored: nothing is popped, trimmed or filtered off them first (a UTF-16 title
    # may end in a zero byte: U+xx00)
    cut = [(F.canon_of(b_), c.ln, (c.fn or "").rsplit("::", 1)[-1]) for b_ in lib.local_scope(F, gt) for c in b_.calls
           if re.search(r"Vec::<.*>::(pop|truncate|retain|drain|remove|dedup\w*|split_off)$|str::<impl str>::(trim\w*|strip_\w+)$|slice::<impl \[T\]>::(trim_ascii\w*|strip_\w+|split_last|rsplit\w*)$", c.fn or "")]
    # "in the same order": what get_toc returns follows the order in which the outline was walked, so the collection the walk
    # fills keeps insertion order (an IndexMap or a Vec — a BTreeMap would sort the entries by title, a HashMap shuffle them)
    so = F.fn("toc::setup_outline_page_ids")
    tys = [so.lty(i_) for i_ in range(1, so.argc + 1) if re.search(r"Map<|Vec<|Set<", so.lty(i_)) and "Outline" not in so.lty(i_).split("<")[0]]
    coll = [t_ for t_ in tys if re.search(r"^&mut ", t_)]
    ctx.ob(R, "toc-keeps-walk-order", bool(coll) and all(re.search(r"indexmap::(map::)?IndexMap<|(^|[^A-Za-z])Vec<", t_) and not re.search(r"BTreeMap<|HashMap<", t_.split("<")[0] + "<") for t_ in coll),
           "the table of contents is collected in %s" % [t_[:40] for t_ in coll], so.where(),
           what="the table of contents is collected in %s, which does not keep the order of insertion: get_toc returns the entries sorted by title bytes (or in hash order) instead of outline order" % [t_[:60] for t_ in coll])
    # the page number of an entry is looked up by the page's id in the pages of the document, which are in PAGE order: a search
    # that presumes the ids ascend (binary_search, partition_point) misses pages whenever /Kids does not list them in id order
    bs = [(x, c) for x in lib.local_scope(F, gt) for c in x.calls if re.search(r"::(binary_search|binary_search_by|binary_search_by_key|partition_point)$", c.fn or c.name)]
    ctx.ob(R, "page-number-lookup-by-id", not bs, "get_toc finds the page number of an entry by a lookup that does not presume sorted ids", gt.where(bs[0][1].ln if bs else None),
           what="get_toc looks the page of an entry up with %s in the list of pages, which is in page order, not in id order: entries whose page has a smaller object number than an "
                "earlier page are not found and drop out of the table of contents" % ((bs[0][1].fn or bs[0][1].name).rsplit("::", 1)[-1] if bs else ""))
    ctx.ob(R, "title-bytes-decoded-as-stored", not cut, "get_toc removes nothing from the title bytes before decoding them", gt.where(),
           what="get_toc removes bytes from a title before decoding it (%s): a UTF-16 title whose last unit ends in a zero byte (or whatever else is cut) is rejected or changed on read-back" % [("%s line %d: %s" % t_) for t_ in cut[:3]])
    # sibling links
    nxt = have.get(b"Next", [])
    prv = have.get(b"Prev", [])
    okp = len(nxt) == 1 and len(prv) == 1 and nxt[0][0] is prv[0][0]
    if okp:
        b = nxt[0][0]
        okp = b.dominates(nxt[0][2].bb, prv[0][2].bb) or b.dominates(prv[0][2].bb, nxt[0][2].bb)
        okp = okp and "id" == b.oname(nxt[0][1], 2).split(" ")[0].strip("&*") and b.oname(prv[0][1], 2).strip("&*").startswith("x")
    ctx.ob(R, "next-prev-pair", okp, "previous sibling gets Next = this id, this item gets Prev = previous id, in the same branch", oc.where(),
           what="Next and Prev are no longer set as a consistent pair between consecutive siblings")
    par = have.get(b"Parent", [])
    # Parent = (a component of) a parameter of outline_child that is an object id, and the recursive call hands the id of the item
    # it has just numbered to that parameter (by data flow: a tuple parameter and two separate parameters are the same thing)
    okpar, howpar = False, "?"
    if len(par) == 1 and par[0][0] is oc:
        o = lib.origin_local(F, oc, par[0][1])
        if o is not None and o[0] is oc and 1 <= o[1] <= oc.argc:
            P = o[1]
            comp = [e["f"] for e in o[2] if isinstance(e, dict) and "f" in e]
            # the id of the item under construction: the key under which the dictionary that receives /Parent is stored
            ins = [c for c in oc.calls if re.search(r"HashMap::<.*>::insert$", c.fn or "") and len(c.args) == 3]
            recs = [c for c in oc.calls if c.local and c.name == oc.path]
            okrec = bool(recs) and bool(ins)
            for c in recs:
                a = c.args[P - 1]
                for f in comp:
                    d = oc.def_rv(a)
                    if d and d[2] == "rv" and d[3]["k"] == "agg" and f < len(d[3]["ops"]):
                        a = d[3]["ops"][f]
                    else:
                        a = None
                        break
                oa = lib.origin_local(F, oc, a) if a is not None else None
                if oa is None or not any((lib.origin_local(F, oc, i.args[1]) or (None, None, 1))[1] == oa[1] for i in ins):
                    okrec = False
            okpar = okrec
            howpar = "parameter %s%s; the recursive call passes the new item's id there" % (oc.lname(P), "".join(".%d" % f for f in comp))
    ctx.ob(R, "parent-link", okpar, "Parent = the parent's id (%s)" % howpar, oc.where(), what="outline items are not linked to their parent's id")
    cnt = [x for x in have.get(b"Count", []) if x[0] is oc]
    okcnt, howcnt = False, "?"
    if len(cnt) == 1:
        comp = lib.call_component(F, oc, cnt[0][1])
        if comp is not None and comp[0] is oc:
            howcnt = oc.sname(comp[1], 5)
            okcnt = re.search(r"len\(", howcnt) is not None
    ctx.ob(R, "count-is-children", okcnt, "Count = the child count returned by the recursive call (%s)" % howcnt, oc.where(), what="Count is not the child count")
    # zero-page fix-up: the full walk is not conditional on page state
    rf = F.fn("Document::recursive_fix_pages")
    rec = [c for c in rf.calls if c.local and c.name == rf.path]
    # the recursive call that hands on the function's own bool parameter (`first`), wherever it stands in the list
    # (the mode parameter is a bool, or a private enum without fields that says the same in words: the top-level mode is the value
    # adjust_zero_pages starts with; the full walk hands on that mode — its own parameter, or the constant under a test for it)
    def _fieldless(t_):
        a_ = F.adts.get(t_)
        return a_ is not None and a_.get("enum") and not any(v_["fields"] for v_ in a_["variants"])
    bj = [i for i in range(1, rf.argc + 1) if rf.lty(i) == "bool" or _fieldless(rf.lty(i))]
    az = F.fn("Document::adjust_zero_pages")
    tops = {az.oname(c.args[bj[0] - 1], 3) for c in az.calls if c.local and c.name == rf.path} if len(bj) == 1 else set()
    top = next(iter(tops)) if len(tops) == 1 else None
    want_guard = None
    if top is not None and len(bj) == 1:
        pn = rf.lname(bj[0])
        if rf.lty(bj[0]) == "bool":
            want_guard = (pn, top == "1")
        else:
            m_ = re.match(r"^\w+::(\w+)\{\}$", top)
            vs_ = [i_ for i_, v_ in enumerate(F.adts[rf.lty(bj[0])]["variants"]) if m_ and v_["name"] == m_.group(1)]
            if vs_:
                want_guard = ("discr(%s)==%d" % (pn, F.adts[rf.lty(bj[0])]["variants"][vs_[0]].get("discr", vs_[0])), True)
    full = [c for c in rec if len(bj) == 1 and (lib.same_origin(F, rf, c.args[bj[0] - 1], rf, bj[0]) or (top is not None and rf.oname(c.args[bj[0] - 1], 3) == top))]
    okw = len(full) == 1 and want_guard is not None
    if okw:
        gs = inv.rendered_guards(rf, full[0].bb)
        okw = not any(re.search(r"\bpage\b|objectid", g) for g, tr in gs) and any(g == want_guard[0] and tr == want_guard[1] for g, tr in gs)
        # the walk must also follow the fix-up of a zero-page parent within the same turn of the loop
        fix = [x for x in lib.stores_to_field(rf, "page", "Bookmark")]
        heads = list(rf.loops().keys())
        okw = okw and bool(fix) and all(rf.can_reach(x[0], full[0].bb, avoid=heads) for x in fix)
    # ... and the page a zero-page parent has just been given is the page the first-page pass reports for it: the local that is
    # tested and returned afterwards is assigned the same value as the bookmark (or the pass moves on to the next sibling as if the
    # parent still had no page, and the grandparent gets the wrong page or none)
    oku, whyu = False, "no fix-up store found"
    fixs = lib.stores_to_field(rf, "page", "Bookmark")
    rets = set()
    for bi_, si_, st_ in rf.stmts():
        if "lhs" in st_ and st_["lhs"]["l"] == 0 and not st_["lhs"]["p"] and st_["rv"]["k"] == "use" and op_place(st_["rv"]["o"]) is not None:
            o_ = lib.origin_local(F, rf, st_["rv"]["o"])
            if o_ is not None and o_[0] is rf and not o_[2]:
                rets.add(o_[1])
    for x in fixs:
        if x[1] == "T":
            continue
        v_ = x[2]["rv"]["o"] if x[2]["rv"]["k"] == "use" else None
        ov = lib.origin_local(F, rf, v_) if v_ is not None else None
        whyu = "the value stored into Bookmark.page at line %d is not also assigned to the page the pass goes on with" % x[2]["ln"]
        if ov is None:
            continue
        for l_ in rets:
            for d_ in rf.defs.get(l_, []):
                if d_[2] == "rv" and d_[3]["k"] == "use" and op_place(d_[3]["o"]) is not None:
                    od = lib.origin_local(F, rf, d_[3]["o"])
                    if od is not None and od[1] == ov[1] and not od[2] and (d_[0] == x[0] or rf.can_reach(x[0], d_[0]) or rf.can_reach(d_[0], x[0])):
                        oku = True
        if ov[1] in rets:
            oku = True
    ctx.ob("R-ORDER", "zero-page-fixup-updates-the-answer", oku, "the page given to a zero-page parent is also the page the pass tests and returns for it", rf.where(),
           what="recursive_fix_pages: %s — after a zero-page parent was given its first child's page, the first-page pass still sees (0, 0) for it and goes on to the next sibling: "
                "a grandparent gets the page of a later sibling, or none (and drops out of the table of contents)" % whyu)
    ctx.ob("R-ORDER", "zero-page-fixup-walks-all-children", okw, "in the top-level pass every non-empty child list is walked, whatever the item's own page is", rf.where(),
           what="adjust_zero_pages' top-level walk into an item's children is now conditional on the item's page state: nested zero-page parents to the right of the first paged child keep page (0, 0) and drop out of the table of contents")
    # only a bookmark WITHOUT a page of its own is given one: every store to Bookmark.page is dominated by `page.0 == 0`
    for x in lib.stores_to_field(rf, "page", "Bookmark"):
        gs = inv.rendered_guards(rf, x[0])
        okz = any((re.match(r"^Eq\((0,[\w.*]+\.0|[\w.*]+\.0,0)\)$", g) and tr) or (re.match(r"^Ne\((0,[\w.*]+\.0|[\w.*]+\.0,0)\)$", g) and not tr) for g, tr in gs)
        ctx.ob("R-GUARD", "page-overwritten-only-when-zero", okz, "the store to Bookmark.page is dominated by the test that the bookmark's page number is 0", rf.where(x[2]["ln"]),
               what="recursive_fix_pages can overwrite the page of a bookmark that has a page of its own (the store to Bookmark.page is not dominated by `page.0 == 0`; dominating tests: %s): a parent bookmark loses its destination to its first descendant's"
                    % [("" if tr else "!") + g for g, tr in gs])
    # adjust_zero_pages starts the walk whenever there are bookmarks: the zero-page parents may sit at any depth, so no test of
    # the roots' pages may stand in front of it
    az = F.fn("Document::adjust_zero_pages")
    azc = [c for x in lib.local_scope(F, az) for c in x.calls if c.local and c.cname.endswith("recursive_fix_pages") and x is az]
    extra = [("" if tr else "!") + g for c in azc for g, tr in inv.rendered_guards(az, c.bb) if not re.match(r"^is_empty\(", g)]
    ctx.ob("R-ORDER", "zero-page-fixup-always-started", len(azc) >= 1 and not extra, "adjust_zero_pages calls recursive_fix_pages unconditionally", az.where(),
           what="adjust_zero_pages starts the fix-up only under %s: a zero-page parent below the top level keeps page (0, 0) and drops out of the table of contents when that does not hold" % extra)
    stp = [rf.rvname(s[2]["rv"], 3) for s in lib.stores_to_field(rf, "page", "Bookmark") if s[1] != "T"]
    ctx.ob("R-ORDER", "zero-page-gets-child-page", stp == ["objectid"], "a zero-page parent takes the page found among its descendants", rf.where(), what="a zero-page parent no longer takes the first descendant page")


def run(ctx):
    _run(ctx)
    import prop_c01
    # literal strings (operands / titles) are written by Writer::write_string: its escape decision must not depend on list order
    prop_c01.membership_rule(ctx, ctx.facts("default"))
    # "the objects all receive fresh identifiers": the counter rule of C11
    import prop_c11
    prop_c11.outline_ids(ctx, ctx.facts("default"))
