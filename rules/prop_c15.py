"""C15 — ToUnicode CMaps decode text as the CMap defines (DESIGN §4 C15)."""
import re
import lib, inv, guard
from mir import op_place, op_const, const_int, AnchorLost

LEVEL = dict(
    level="other",
    rule_text="the interval map coalesces equal adjacent values and splits ranges on overlap, so a stored target may only be interpreted "
              "from (code, stored value), never from where its interval happens to start: no use of RangeInclusive::start in "
              "ToUnicodeCMap::get; single-unit targets are stored as a translation-invariant offset (wrapping_sub at insertion, "
              "wrapping_add at lookup); end < start is rejected before insertion; later sections overwrite earlier ones; one constant "
              "4 for the maximum code length in the parser, the map array, get/put and the byte-to-text loop; the parser collects the sections with an order-preserving collector and nothing between the parser and from_sections rearranges them",
    explanation="Decides the representation invariants without which `last definition wins` and `offset within the range` cannot hold "
                "under splitting/merging. Does not decide that decoded text equals the CMap's definition in general.",
    trusted_base=["rustc MIR and callee resolution", "rangemap::RangeInclusiveMap semantics (coalescing, overwrite on insert)"],
)
LEVEL["rule_text"] += '; the lines of a section reach put in file order (no map or set keyed by the code range, no sort or dedup in between)'


def _member_sig(b, o, depth=6):
    """what one alternative of an `alt((..))` consumes, without what it returns: tag(k) -> ('tag', k), a parser function ->
    ('fn', name); map / value / recognize / cut wrappers are looked through."""
    from mir import op_place, op_const
    for _ in range(depth):
        k = op_const(o)
        if k is not None:
            if "fn" in k:
                full_ = k.get("res") or k.get("fn") or str(k)
                # a parser function of the crate shows by its short name; a foreign one (nom's `line_ending`, which knows no
                # bare CR, bound to the name `eol`) by its full path
                return ("fn", full_.rsplit("::", 1)[-1]) if k.get("loc") else ("foreign-fn", full_)
            return ("const", str(k))
        q = op_place(o)
        d = b.single_def(q["l"]) if q is not None and not q["p"] else None
        if d is None:
            return ("?", b.sname(o, 3))
        if d[2] == "rv" and d[3]["k"] in ("use", "cast"):
            o = d[3]["o"]
            continue
        if d[2] == "call":
            short = (d[3]["f"].get("fn") or "").rsplit("::", 1)[-1]
            if short in ("map", "value", "recognize", "cut", "map_res", "map_opt", "into") and d[3]["args"]:
                o = d[3]["args"][-1] if short == "value" else d[3]["args"][0]
                continue
            if short in ("tag", "tag_no_case", "one_of", "is_a", "char") and d[3]["args"]:
                return (short, lib._const_bytes_through(b, d[3]["args"][0]))
            return ("call", short)
        return ("?", b.sname(o, 3))
    return ("?", "deep")


def twin_parsers(ctx, F, prefix="parser::cmap_parser::"):
    """`x0` and `x1` (zero-or-more and one-or-more of the same thing) accept the same alternatives: a token that may be followed by
    `x0` and one that must be followed by `x1` are separated by the same white space."""
    names = {}
    for p_, b in F.bodies.items():
        fn = F.canon_of(b)
        if fn.startswith(prefix) and "{closure" not in fn:
            names[fn] = b
    n = 0
    for fn, b0 in sorted(names.items()):
        if not fn.endswith("0") or fn[:-1] + "1" not in names:
            continue
        b1 = names[fn[:-1] + "1"]
        sigs = []
        for b in (b0, b1):
            sg = set()
            for c in b.calls:
                if (c.fn or "").endswith("branch::alt") and c.args:
                    d = b.def_rv(c.args[0])
                    if d and d[2] == "rv" and d[3]["k"] == "agg":
                        sg |= {_member_sig(b, o) for o in d[3]["ops"]}
            sigs.append(sg)
        if not sigs[0] and not sigs[1]:
            continue
        n += 1
        ctx.ob("R-SIB", "twin-parsers|%s" % fn[:-1].rsplit("::", 1)[-1], sigs[0] == sigs[1], "%s and %s accept the same alternatives (%d)" % (fn, fn[:-1] + "1", len(sigs[0])), b1.where(),
               what="%s and %s no longer accept the same alternatives (only in the first: %s; only in the second: %s): what is white space after one token is not after another"
                    % (fn, fn[:-1] + "1", sorted(map(str, sigs[0] - sigs[1])), sorted(map(str, sigs[1] - sigs[0]))))
    # the end-of-line member of the white-space parsers is the crate's own `eol` (CR LF, LF and a bare CR: ISO 32000-1 7.2.3)
    foreign = sorted({str(m_) for fn_, b_ in names.items() if re.search(r"space[01]$", fn_) for c in b_.calls if (c.fn or "").endswith("branch::alt") and c.args
                      for d_ in [b_.def_rv(c.args[0])] if d_ and d_[2] == "rv" and d_[3]["k"] == "agg" for m_ in (_member_sig(b_, o_) for o_ in d_[3]["ops"]) if m_[0] == "foreign-fn"})
    ctx.ob("R-SIB", "whitespace-members-are-the-crates-own", not foreign, "the function members of the white-space parsers are crate-local (eol, comment)", "src/parser/cmap_parser.rs",
           what="a white-space parser of the CMap grammar uses the foreign parser %s for the end of line: it does not accept every end-of-line marker the crate's `eol` does (a bare CR), so a CMap with such line ends is rejected" % foreign)
    ctx.floor("R-SIB", "zero-or-more / one-or-more parser twins in %s" % prefix, n, 2)


def put_precondition(ctx, F, R="R-WHO"):
    """RangeInclusiveMap::insert panics when the range is reversed: every `put` of a range read from the file stands behind
    the rejection of end < start (also part of the no-panic properties C04 and C13)."""
    import inv
    fs = F.fn("ToUnicodeCMap::from_sections")
    put = lib.local_calls(F, fs, "ToUnicodeCMap::put")
    ctx.floor(R, "ToUnicodeCMap::put calls in from_sections", len(put), 1)       # one per kind of target, or one for all
    for c in put:
        gs = inv.rendered_guards(fs, c.bb)
        lo_, hi_ = (fs.oname(c.args[1], 3).strip("&*"), fs.oname(c.args[2], 3).strip("&*")) if len(c.args) >= 3 else ("?", "?")
        # !(hi < lo), spelt either way round
        ok = any((gd == "Lt(%s,%s)" % (hi_, lo_) and tr is False) or (gd == "Gt(%s,%s)" % (lo_, hi_) and tr is False)
                 or (gd == "Le(%s,%s)" % (lo_, hi_) and tr is True) or (gd == "Ge(%s,%s)" % (hi_, lo_) and tr is True) for gd, tr in gs)
        ctx.ob("R-GUARD", "end-not-before-start|%d" % put.index(c), ok, "put is dominated by !(end < start)", fs.where(c.ln), what="from_sections inserts a range without rejecting end < start first (RangeInclusiveMap::insert panics on it)")


def _eq_is_structural(F, e, adt):
    """a hand-written `eq` that is the structural one: it calls nothing but `==` of the same field of the same variant of
    its two arguments, does so for every field of every variant (variants of at most one field: no conjunction to get
    wrong), and answers `true` nowhere else."""
    a = F.adts.get(adt)
    if a is None or any(len(v["fields"]) > 1 for v in a["variants"]) or e.argc != 2:
        return False
    want = {(v["name"], f["n"]) for v in a["variants"] for f in v["fields"]}
    got = set()
    for b in F.with_closures(e):
        if b is not e:
            return False
        for c in b.calls:
            if not re.search(r"cmp::PartialEq(<.*>)?>?::eq$|cmp::impls::<impl (std|core)::cmp::PartialEq<&B> for &A>::eq$", c.fn or c.name) or len(c.args) != 2:
                return False
            with b.alpha(args=True):
                l, r = b.sname(c.args[0], 6).replace("&", "").replace("*", ""), b.sname(c.args[1], 6).replace("&", "").replace("*", "")
            m1, m2 = re.match(r"^arg1@(\w+)\.(\w+)$", l), re.match(r"^arg2@(\w+)\.(\w+)$", r)
            if not (m1 and m2):
                m1, m2 = re.match(r"^arg2@(\w+)\.(\w+)$", l), re.match(r"^arg1@(\w+)\.(\w+)$", r)
            if not (m1 and m2 and m1.groups() == m2.groups()):
                return False
            got.add(m1.groups())
        for bi, si, st in b.stmts():
            rv = st.get("rv")
            if rv is None:
                continue
            if rv["k"] == "use" and op_const(rv["o"]) is not None and b.lty(st["lhs"]["l"]) == "bool" and const_int(op_const(rv["o"])) == 1:
                return False
            if rv["k"] in ("bin", "un") and b.lty(st["lhs"]["l"]) == "bool":
                return False      # fields compared by something else than `==` of the whole field
    return got == want


def run(ctx):
    F = ctx.facts("default")
    R = "R-WHO"
    g = F.fn("ToUnicodeCMap::get")
    # 1. translation invariance
    bad = []
    for b in F.with_closures(g):
        for c in b.calls:
            if re.search(r"ops::RangeInclusive::<.*>::(start|end)$", c.fn or ""):
                arm = "?"
                m = lib.slice_matches(b, c.bb)
                # which variant arm: the dominating switch on the discriminant of the stored value
                for gd, tr in inv.rendered_guards(b, c.bb):
                    mm = re.search(r"discr\(.*\)==(\d+)", gd)
                    if mm:
                        arm = mm.group(1)
                bad.append((b, c, arm))
    names = {}
    a = F.adts.get("encodings::cmap::BfRangeTarget")
    if a:
        names = {str(i): v["name"] for i, v in enumerate(a["variants"])}
    if not bad:
        ctx.ob(R, "translation-invariant-lookup", True, "ToUnicodeCMap::get never uses the start of the stored interval", g.where())
    for b, c, arm in bad:
        ctx.finding(R, "translation-invariant-lookup|%s" % names.get(arm, arm), "ToUnicodeCMap::get computes the %s result from `code - range.start()`: the interval map merges equal adjacent values and splits ranges on overlapping inserts, so the start it reports is not the start the CMap defined (`<01> <00410042>` + `<02> <00410042>` decodes 01 02 as ABAC)"
                    % names.get(arm, "variant " + arm), b.where(c.ln))
    # 2. offset representation
    fs = F.fn("ToUnicodeCMap::from_sections")
    pc = F.fn("ToUnicodeCMap::put_char")
    for fn, b0, src in (("from_sections", fs, "start"), ("put_char", pc, "code")):
        # the function itself or the private helper it builds the target with
        aggs = [(x, s) for x in ([b0] if fn == "from_sections" else lib.local_scope(F, b0)) for bi, si, s in x.stmts()
                if s.get("rv") and s["rv"]["k"] == "agg" and s["rv"]["kind"].get("var") == "UTF16CodePoint"]
        b = b0
        ok = len(aggs) == 1 and re.match(r"^wrapping_sub\(.* as u32,%s\)$" % src, aggs[0][0].oname(aggs[0][1]["rv"]["ops"][0], 5)) is not None
        ctx.ob(R, "offset-stored|%s" % fn, ok, "%s stores single-unit targets as UTF16CodePoint { offset: target - %s }" % (fn, src), b.where(),
               what="%s no longer stores single-unit targets as a translation-invariant offset (UTF16CodePoint): such ranges are then interpreted relative to wherever the interval map makes them start" % fn)
    gcl = F.with_closures(g)
    wa = [c for b in gcl for c in b.calls if re.search(r"num::<impl u32>::wrapping_add$", c.fn or "")]
    ctx.ob(R, "offset-applied|get", len(wa) == 1, "get computes code + offset for UTF16CodePoint", g.where(), what="get no longer adds the stored offset to the code")
    # 2a. the interval map merges touching intervals whose values are *equal*: equality of targets is the structural one (derived),
    # or two different multi-unit targets that merely end alike are merged and the earlier range takes the later one's prefix
    eqs = F.fns("<BfRangeTarget as PartialEq>::eq")
    derived = bool(eqs) and all(all(st.get("x") for bi, si, st in e_.stmts()) and all(e_.term(bi).get("x") for bi in range(e_.n) if e_.term(bi)["k"] in ("call", "switch")) for e_ in eqs)
    if eqs and not derived and len(eqs) == 1:
        derived = _eq_is_structural(F, eqs[0], "encodings::cmap::BfRangeTarget")
    ctx.ob(R, "target-equality-is-structural", derived, "PartialEq for BfRangeTarget is the derived (field by field) one, or written out the same way", eqs[0].where() if eqs else "src/encodings/cmap.rs",
           what="BfRangeTarget compares equal by a hand-written rule: rangemap merges adjacent ranges whose targets are 'equal', so two definitions that differ in what the rule ignores are merged into one and decode alike")
    # 3. precondition of the map
    put_precondition(ctx, F)
    twin_parsers(ctx, F)
    # 4. file order, overwrite
    pb_ = F.fn("ToUnicodeCMap::put")
    pscope = lib.local_scope(F, pb_)
    ins = [c for x in pscope for c in x.calls if re.search(r"rangemap::.*::insert$", c.fn or "")]
    other = [c for x in pscope for c in x.calls if re.search(r"rangemap::.*::(remove|clear|gaps|split_off)$", c.fn or "")]
    # ... for every definition: once the code length was accepted, no way through `put` returns without an insert (a "this is
    # already defined" shortcut keeps an older definition that a later one was meant to replace)
    bypass = []
    for x in pscope:
        if x.kind == "Closure":
            continue
        ib = {c.bb for c in x.calls if re.search(r"rangemap::.*::insert$", c.fn or "")} | {c.bb for c in x.calls if c.local and any(c.name == y.path for y in pscope if y is not x)}
        if not ib:
            continue
        # a loop that inserts once per element counts as passed when it is reached (it may have nothing to go through)
        ib |= {h for h, bl in x.loops().items() if bl & ib}
        rets = [bi for bi in range(x.n) if x.term(bi)["k"] == "return"]
        rejected = set()
        for bi in range(x.n):
            t = x.term(bi)
            if t["k"] == "switch" and "code_len" in x.oname(t["d"], 4):
                for y in [q for _v, q in t["tg"]] + [t["else"]]:
                    if not any(y == i or x.can_reach(y, i) for i in ib):
                        rejected.add(y)
        for r in rets:
            if r not in ib and (r == 0 or x.can_reach(0, r, avoid=ib | rejected)):
                bypass.append("%s line %s" % (F.canon_of(x), x.term(r).get("ln")))
    ctx.ob(R, "every-definition-is-entered", not bypass, "every path through put that accepts the code length inserts into the interval map", pb_.where(),
           what="ToUnicodeCMap::put can return without entering the definition (%s): a later definition of a code does not replace the earlier one" % bypass)
    # ... and every line of a section reaches put, in the order of the file: between the parsed list and the calls of put nothing
    # regroups the lines (a map or set keyed by the code range keeps a repeated range at the position of its FIRST line, a sort or
    # dedup moves or drops lines): "the last definition that covers a code" is decided by that order
    fsb = F.fn("ToUnicodeCMap::from_sections")
    regroup = []
    for x in lib.local_scope(F, fsb):
        for c in x.calls:
            fu = c.full or ""
            if re.search(r"(IndexMap|BTreeMap|HashMap|IndexSet|BTreeSet|HashSet)<\(u32, u32, u8\)", fu) or re.search(r"::(dedup|dedup_by|dedup_by_key|sort|sort_by|sort_by_key|sort_unstable|sort_unstable_by|sort_unstable_by_key|reverse|retain|rev)$", c.fn or c.name):
                regroup.append("%s (line %d)" % ((c.fn or c.name).rsplit("::", 2)[-1], c.ln))
    ctx.ob(R, "definitions-applied-in-file-order", not regroup, "from_sections hands every line to put in the order of the file", fsb.where(),
           what="ToUnicodeCMap::from_sections regroups the lines of a section before they are entered (%s): a range defined again after an overlapping one keeps its first position, "
                "so the overlapping definition in between wins although it is not the last one" % regroup[:3])
    ctx.ob(R, "last-definition-wins", len(ins) >= 1 and not other, "put inserts into the interval map (insert overwrites what it overlaps)", pb_.where(), what="put no longer inserts with overwrite semantics")
    # 4a. what is stored does not depend on where the interval starts: the last unit of a multi-unit target is stored relative to
    # code 0 (wrapping_sub of the range's first code) and read back with wrapping_add of the code; an array target is entered one
    # code at a time (an interval `code..=code`), because an index into it would be relative to the interval
    subs = [x.oname(c.args[1], 4) for x in pscope for c in x.calls if re.search(r"num::<impl u16>::wrapping_sub$", c.fn or "")]
    okrel = any(re.search(r" as u16$", t) for t in subs)
    adds = [x.oname(c.args[1], 4) for x in gcl for c in x.calls if re.search(r"num::<impl u16>::wrapping_add$", c.fn or "")]
    okadd = any(re.match(r"^\w+ as u16$", t) for t in adds)
    ctx.ob(R, "multi-unit-target-relative-to-code-0", okrel and okadd, "put stores last - first code (%s), get returns last + code (%s)" % (subs, adds), pb_.where(),
           what="a multi-unit bfrange target is not stored relative to code 0 and read back by adding the code (stored with %s, read with %s): the value depends on where the interval map makes the interval start" % (subs, adds))
    single = []
    for x in pscope:
        for c in x.calls:
            if re.search(r"RangeInclusive::<.*>::new$", c.fn or "") and len(c.args) == 2 and x.oname(c.args[0], 3) == x.oname(c.args[1], 3) and any(c.bb in bl for bl in x.loops().values()):
                single.append(c)
    # ... and each element is entered for ITS code: the interval, the offset of a one-unit element (char_target) and the
    # re-basing of a multi-unit element (stored) all take the same code
    okcode, howcode = True, []
    for c in single:
        xb = [x for x in pscope if c in x.calls][0]
        code = xb.oname(c.args[0], 3)
        for c2 in xb.calls:
            if c2.local and re.search(r"ToUnicodeCMap::(stored|char_target)$", c2.cname) and any(c2.bb in bl and c.bb in bl for bl in xb.loops().values()):
                # the code argument(s): the parameters of the callee that are source codes (u32), wherever they stand
                cb2 = F.bodies.get(c2.name)
                pos = [i - 1 for i in range(1, cb2.argc + 1) if cb2.lty(i) == "u32"] if cb2 is not None else [0]
                given = [xb.oname(c2.args[i], 3) for i in pos if i < len(c2.args)]
                howcode.append("%s(%s)" % (c2.cname.rsplit("::", 1)[-1], ",".join(given)))
                if not given or any(g_ != code for g_ in given):
                    okcode = False
    ctx.ob(R, "array-element-entered-for-its-own-code", okcode, "interval %s, %s" % ([x_.oname(c.args[0], 3) for c in single for x_ in pscope if c in x_.calls], howcode), pb_.where(),
           what="an element of an array bfrange target is entered with a code other than its own (%s): elements after the first decode to a shifted value" % howcode)
    arr_stored = [s_ for x in pscope + [fs] for bi, si, s_ in x.stmts() if s_.get("rv") and s_["rv"]["k"] == "agg" and s_["rv"]["kind"].get("var") == "ArrayOfHexStrings"]
    ctx.ob(R, "array-target-entered-per-code", bool(single) or not arr_stored, "an array target is entered as one `code..=code` interval per element (%d such insertion)" % len(single), pb_.where(),
           what="an array bfrange target is stored as one value for its whole range: its elements can only be found by an index relative to the interval's start, which the interval map changes when it merges or splits intervals")
    it = [c for c in fs.calls if (c.fn or "").endswith("IntoIterator::into_iter") and "cmap_sections" in fs.oname(c.args[0], 3)]
    rev = [c for c in fs.calls if re.search(r"Iterator::rev$|::reverse$|sort", c.fn or "")]
    ctx.ob(R, "sections-in-file-order", len(it) == 1 and not rev, "sections are processed in the order the parser returned them", fs.where(), what="sections are no longer processed in file order")
    # 4b. the parser hands the sections over in file order: collected by an order-preserving nom collector and not rearranged
    for fn in ("parser::cmap_parser::cmap_codespace_and_mappings", "parser::cmap_parser::cmap_stream", "parser::cmap_parser::parse"):
        if not F.has_fn(fn):
            continue
        pb = F.fn(fn)
        scope = F.with_closures(pb)
        folds = [c for b2 in scope for c in b2.calls if re.search(r"nom::multi::fold_many", c.fn or "") and "CMapSection" in (c.full or "")]
        rearr = [c for b2 in scope for c in b2.calls if re.search(r"::(sort\w*|reverse|swap|insert|extend|append|retain|iter_mut|dedup\w*|rev|drain|remove|truncate)$", c.fn or "")
                 and "CMapSection" in (c.full or "")]
        if fn.endswith("cmap_codespace_and_mappings"):
            coll = [c for b2 in scope for c in b2.calls if re.search(r"nom::multi::(many0|many1|separated_list0|separated_list1)$", c.fn or "") and "CMapSection" in (c.full or "")]
            ctx.ob(R, "sections-collected-in-order", len(coll) >= 1 and not folds and not rearr, "sections are collected by %s" % sorted(set((c.fn or "").rsplit("::", 1)[-1] for c in coll)), pb.where(),
                   what="cmap_codespace_and_mappings no longer returns the sections in the order of the file (uses %s): a later definition that should override an earlier one is applied first"
                        % sorted(set((c.fn or "").rsplit("::", 1)[-1] for c in folds + rearr)))
        else:
            ctx.ob(R, "sections-not-rearranged|%s" % fn.rsplit("::", 1)[-1], not folds and not rearr, "no rearrangement of the section list", pb.where(),
                   what="%s rearranges the list of CMap sections (%s)" % (fn, sorted(set((c.fn or "").rsplit("::", 1)[-1] for c in folds + rearr))))
    # 5. one maximum code length
    consts = {}
    sc = F.fn("parser::cmap_parser::source_code")
    mm = [c for c in sc.calls if re.search(r"nom::multi::many_m_n$", c.fn or "")]
    consts["parser many_m_n max"] = sc.oname(mm[0].args[1], 2) if len(mm) == 1 else "?"
    zr = [sc.oname(c.args[1], 4) for c in sc.calls if (c.fn or "").endswith("Iterator::zip")]
    consts["parser zip range"] = zr[0] if len(zr) == 1 else "?"
    a = F.adts.get("encodings::cmap::ToUnicodeCMap")
    bt = [f["ty"] for v in a["variants"] for f in v["fields"] if f["n"] == "bf_ranges"] if a else []
    m = re.search(r"; (\d+)\]$", bt[0]) if bt else None
    if m is None and bt:
        # the length is a named constant: take its value from the compiled constants
        mn = re.search(r"; ([\w:]+)\]$", bt[0])
        if mn:
            vals = [c.get("int") for n_, c in F.consts.items() if (n_ == mn.group(1) or n_.endswith("::" + mn.group(1))) and "int" in c]
            if len(vals) == 1:
                m = re.match(r"(\d+)", str(vals[0]))
    consts["map array length"] = m.group(1) if m else "?"
    for fn in ("ToUnicodeCMap::get", "ToUnicodeCMap::put"):
        b = F.fn(fn)
        # the code length is the u8 parameter; parameters are named by position, so a rename does not matter
        lenarg = [i for i in range(1, b.argc + 1) if b.lty(i) == "u8"]
        with b.alpha(args=True):
            cs = [b.oname(b.term(bi)["d"], 3) for bi in range(b.n) if b.term(bi)["k"] == "switch"]
        # the largest admitted length, from whichever comparison states it: `len > 4` (rejected), `len <= 4` / `1..=4` (admitted)
        a_ = "arg%d" % (lenarg[0] if len(lenarg) == 1 else 0)
        ub = []
        for c in cs:
            for rx, f_ in ((r"^Gt\(%s,(\d+)\)$" % a_, 0), (r"^Le\(%s,(\d+)\)$" % a_, 0), (r"^Lt\(%s,(\d+)\)$" % a_, -1), (r"^Ge\((\d+),%s\)$" % a_, 0),
                           (r"^Lt\((\d+),%s\)$" % a_, 0), (r"^Ge\(%s,(\d+)\)$" % a_, None), (r"^Le\((\d+),%s\)$" % a_, None)):
                m_ = re.match(rx, c)
                if m_ and f_ is not None:
                    ub.append(int(m_.group(1)) + f_)
        ub = [u for u in ub if u >= 2]
        consts["%s bound" % fn] = str(max(ub)) if ub else "?"
    e = F.fn("Encoding::bytes_to_string")
    # the running code length: the local passed as the length argument of ToUnicodeCMap::get
    getc = lib.local_calls(F, e, "ToUnicodeCMap::get")
    lenloc = None
    if len(getc) == 1:
        r = lib.origin_local(F, e, getc[0].args[2])
        lenloc = r[1] if r is not None and r[0] is e and not r[2] else None
    resets = []
    for bi in range(e.n):
        t = e.term(bi)
        if t["k"] != "switch" or t["dty"] != "bool":
            continue
        p = op_place(t["d"])
        d = e.single_def(p["l"]) if p is not None and not p["p"] else None
        if d and d[2] == "rv" and d[3]["k"] == "bin" and d[3]["op"] == "Eq" and lib.switch_on_operand(e, d[3]["a"], lenloc) and op_const(d[3]["b"]) is not None:
            resets.append(str(const_int(op_const(d[3]["b"]))))
    consts["bytes_to_string reset"] = resets[0] if len(resets) == 1 else "?"
    ok = consts["parser many_m_n max"] == "4" and consts["parser zip range"] == "Range::Range{0,4}" and consts["map array length"] == "4" and \
         consts["ToUnicodeCMap::get bound"] == "4" and consts["ToUnicodeCMap::put bound"] == "4" and consts["bytes_to_string reset"] == "4"
    ctx.ob("R-TABLE", "max-code-length-agrees", ok, "every place uses 4 as the maximum code length: %s" % consts, sc.where(),
           what="the places that know the maximum source-code length disagree (%s): codes of the longest admitted length are parsed or looked up wrongly" % consts)
    pw = [c for b in F.with_closures(sc) for c in b.calls if re.search(r"num::<impl u(32|64|128|size)>::pow$", c.fn or "")]
    ctx.ob("R-TABLE", "big-endian-code", len(pw) == 1 and any((c.fn or "").endswith("Iterator::rev") for c in sc.calls), "source codes are big-endian: 256^i over the reversed bytes", sc.where(),
           what="source codes are no longer assembled big-endian")
    # 6. code lengths tried in increasing order
    ups = [u for u in __import__("term").counter_updates(e, set(range(e.n)), None) if lenloc is not None and u[3] == e.pname({"l": lenloc, "p": []}, 2)]
    ctx.ob("R-ORDER", "lengths-tried-increasing", len(ups) == 1 and ups[0][1] == "Add" and ups[0][2] == 1, "the candidate code grows by one byte per step and is looked up at each length", e.where(),
           what="bytes_to_string no longer tries code lengths 1, 2, 3, 4 in increasing order")
    # 6a. ... by asking the CMap every time: the lookup stands on every turn of the loop over the bytes (an answer remembered from
    # an earlier code is only right if the remembered key is the code *and its length*; the map is the one place that knows)
    import term as _term
    gets = [c for c in e.calls if c.local and c.cname.endswith("ToUnicodeCMap::get")]
    lps = e.loops()
    okl = bool(gets)
    for c in gets:
        inl = [(h, bl) for h, bl in lps.items() if c.bb in bl]
        if not inl:
            okl = False
            continue
        h, bl = min(inl, key=lambda t: len(t[1]))
        okl = okl and _term.every_cycle_passes(e, h, bl, {g.bb for g in gets if g.bb in bl})
    ctx.ob("R-ORDER", "every-code-is-looked-up", okl, "ToUnicodeCMap::get is called on every turn of the loop over the bytes", e.where(),
           what="bytes_to_string can go round its loop without asking the CMap (a shortcut or a remembered answer): codes of different lengths with the same numeric value, or a repeated code, are decoded from the wrong entry")
    # 7. surrogate pairs: decoding UTF-16 units as UTF-16BE
    dec = [c for c in e.calls if re.search(r"encoding_rs::Encoding::decode", c.fn or "")]
    ctx.ob("R-ORDER", "utf16-units-decoded-as-utf16", len(dec) >= 1, "the collected units are decoded as UTF-16BE (surrogate pairs become one character)", e.where(), what="the units produced by the CMap are no longer decoded as UTF-16")
    # 8. the CMap is found: /ToUnicode is held by reference, every place in get_font_encoding that reads it resolves it
    gfe = F.fn("Dictionary::get_font_encoding")
    tu_raw = [c for x in lib.local_scope(F, gfe) for c in x.calls if c.local and re.search(r"Dictionary::get$", c.cname) and any(lib._const_bytes_through(x, a) == b"ToUnicode" for a in c.args[1:])]
    tu_der = [c for x in lib.local_scope(F, gfe) for c in x.calls if c.local and re.search(r"Dictionary::get_deref$", c.cname) and any(lib._const_bytes_through(x, a) == b"ToUnicode" for a in c.args[1:])]
    ctx.ob("R-WHO", "tounicode-behind-a-reference", len(tu_der) >= 1 and not tu_raw, "ToUnicode is fetched with get_deref (%d place(s))" % len(tu_der), gfe.where(tu_raw[0].ln if tu_raw else None),
           what="get_font_encoding reads /ToUnicode without resolving the reference it is held by: the CMap is skipped and the text is decoded with a default one-byte encoding")
    # ... and it is looked for before giving up: a one-byte table chosen without a matching /Encoding name (the fallback for a font
    # whose /Encoding is absent or a dictionary) stands behind a lookup of /ToUnicode
    fallbacks = 0
    unasked = []
    for bi, si, st_ in gfe.stmts():
        rv = st_.get("rv")
        if rv and rv["k"] == "agg" and rv["kind"].get("var") == "OneByteEncoding":
            if any(k.startswith("match:") for k in lib.slice_matches(gfe, bi)):
                continue
            if any(lib.lookup_field(gfe, rv["ops"][0], lk) is not None for lk in lib.table_lookups(F, gfe)):
                continue        # chosen by name in a table of (name, table) pairs
            fallbacks += 1
            if not any(c.bb == bi or gfe.dominates(c.bb, bi) for c in tu_der if c in gfe.calls):
                unasked.append(st_["ln"])
    ctx.ob("R-ORDER", "tounicode-before-fallback", fallbacks >= 1 and not unasked, "the fallback encoding (%d place(s)) is chosen only after /ToUnicode was looked up" % fallbacks, gfe.where(unasked[0] if unasked else None),
           what="get_font_encoding falls back to a default one-byte encoding (line %s) without having looked for /ToUnicode: a font whose /Encoding is absent or a dictionary is decoded through StandardEncoding although it carries a CMap" % unasked)
