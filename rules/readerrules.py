"""readerrules.py — ordering obligations of Reader::read shared by C02 (files from any producer load), C03 (Size),
C07 (revisions) and C11 (identifier allocation):

 R1 size-from-merged-table: `document.max_id = xref.size - 1` is the base of every later allocation and of the saved /Size.
    xref.size must be *made equal* to max_id()+1 of the MERGED table: the correction is two-sided (a branch on size != count
    whose taken side assigns size = count, count = checked_add(xref.max_id(), 1)), and no Xref::merge can run after the
    max_id() call that feeds it.
 R2 deferred-lengths-last: streams whose /Length could not be resolved while parsing are completed by read_stream_content,
    which looks the length up in document.objects; every insertion into document.objects (initial collect, object-stream
    members) must precede it.
 R3 last-marker-wins: the file's cross-reference data is located from the LAST `%%EOF` / `startxref` of the tail (an earlier
    one belongs to an older revision or to embedded data).  The scan may leave its loop with a match only through a value
    that prefers a later match (the self-recursive continuation from match+1 combined with `or`, or a reverse scan)."""
import re
import lib
from mir import op_place, op_const, const_int


def run(ctx, F, which=("R1", "R2")):
    rd = F.fn("Reader::read")
    R = "R-ORDER"
    if "R1" in which:
        merges = [c for c in rd.calls if c.local and c.cname.endswith("Xref::merge")]
        mx = [c for c in rd.calls if c.local and c.cname.endswith("Xref::max_id")]
        ok_after = len(mx) == 1 and bool(merges) and all(not rd.can_reach(mx[0].bb, m.bb) for m in merges)
        ctx.ob(R, "size-from-merged-table|max_id-after-merges", ok_after, "xref.max_id() is taken after every Xref::merge (%d merges)" % len(merges), rd.where(),
               what="Reader::read computes the highest object number (xref.max_id()) before all previous cross-reference sections are merged: "
                    "Document.max_id / the saved Size can be smaller than an object number of an earlier revision")
        # the correction: switch on Ne/Eq(size, count), the differing side stores size = count
        two_sided = False
        if len(mx) == 1:
            stores = [(bi, si, s) for bi, si, s in lib.stores_to_field(rd, "size", "Xref") if si != "T"]
            for bi in range(rd.n):
                t = rd.term(bi)
                if t["k"] != "switch" or t["dty"] != "bool":
                    continue
                p = op_place(t["d"])
                d = rd.single_def(p["l"]) if p is not None and not p["p"] else None
                if not (d and d[2] == "rv" and d[3]["k"] == "bin" and d[3]["op"] in ("Ne", "Eq")):
                    continue
                r = rd.sname(d[3]["a"], 8) + " | " + rd.sname(d[3]["b"], 8)
                if ".size" not in r or "max_id(" not in r:
                    continue
                differ = t["else"] if d[3]["op"] == "Ne" else [x for v, x in t["tg"] if v == "0"][0]
                for sb, si, s in stores:
                    if (sb == differ or rd.dominates(differ, sb)) and "max_id(" in rd.sname(s["rv"]["o"], 8) if s["rv"]["k"] == "use" else False:
                        two_sided = True
        ctx.ob(R, "size-from-merged-table|two-sided-correction", two_sided, "xref.size is set to max_id()+1 whenever it differs (both directions)", rd.where(),
               what="Reader::read no longer forces xref.size to max_id()+1 in both directions: an understated trailer Size survives loading, "
                    "so Document.max_id is below existing object numbers (new objects collide, the saved table omits objects)")
        mid = [(bi, si, s) for bi, si, s in lib.stores_to_field(rd, "max_id", "Document") if si != "T"]
        okm = len(mid) == 1 and len(mx) == 1 and rd.dominates(mx[0].bb, mid[0][0])
        ctx.ob(R, "size-from-merged-table|max_id-after-correction", okm, "document.max_id is assigned after the correction", rd.where(),
               what="Reader::read assigns Document.max_id before xref.size was corrected")
    if "R2" in which:
        rsc = [c for c in rd.calls if c.local and c.cname.endswith("Reader::read_stream_content")]
        adds = []
        for c in rd.calls:
            if re.search(r"BTreeMap::<.*>::(insert|entry|extend|append)$|btree_map::Entry::<.*>::or_insert", c.fn or "") and c.args:
                o = lib.origin_local(F, rd, c.args[0])
                if o is not None and o[2] and isinstance(o[2][-1], dict) and o[2][-1].get("n") == "objects":
                    adds.append(c)
        for bi, si, s in lib.stores_to_field(rd, "objects", "Document"):
            adds.append(type("S", (), {"bb": bi, "ln": s["ln"] if si != "T" else s.ln})())
        ctx.floor(R, "insertions into document.objects in Reader::read", len(adds), 2)
        bad = [a for a in adds for c in rsc if rd.can_reach(c.bb, a.bb)]
        ctx.ob(R, "deferred-lengths-last", len(rsc) >= 1 and not bad, "read_stream_content runs after every insertion into document.objects (%d)" % len(adds), rd.where(),
               what="Reader::read completes streams with deferred /Length (read_stream_content) before all objects are in document.objects "
                    "(insertion at line %s comes later): an indirect /Length stored in an object stream is not found and the stream is left empty"
                    % (bad[0].ln if bad else "?"))


def last_marker(ctx, F):
    R = "R-ORDER"
    ss = F.fn("Reader::search_substring")
    gx = F.fn("Reader::get_xref_start")
    pats = sorted(set(filter(None, (lib._const_bytes_through(b2, c.args[1]) for b2 in F.with_closures(gx) for c in b2.calls
                                    if c.local and c.cname.endswith("Reader::search_substring")))))
    ctx.ob(R, "last-marker-wins|markers", pats == [b"%%EOF", b"startxref"], "get_xref_start looks for %s" % pats, gx.where(),
           what="get_xref_start no longer searches for %%EOF and startxref (searched: %s)" % pats)
    rev = any(re.search(r"rposition$|rfind$|Iterator::rev$|rsplit", c.fn or "") for b2 in F.with_closures(ss) for c in b2.calls)
    # returns of Some(..) from inside the scan loop
    ok = True
    why = ""
    loops = ss.loops()
    inloop = set().union(*loops.values()) if loops else set()
    for bi, si, s in ss.stmts():
        rv = s.get("rv")
        if "lhs" in s and s["lhs"]["l"] == 0 and not s["lhs"]["p"] and rv and rv["k"] == "agg" and rv["kind"].get("var") == "Some":
            if any(bi == x or ss.can_reach(x, bi) for x in inloop) and not rev:
                # a plain `return Some(pos)` at the first match
                if not ss.can_reach(bi, min(inloop)) :
                    ok, why = False, "returns Some(..) at the first match (line %d)" % s["ln"]
    rec = [c for c in ss.calls if c.local and c.cname.endswith("Reader::search_substring")]
    if rec and not rev:
        # the recursive continuation must start after the match and be preferred over the match itself
        c = rec[0]
        start = ss.sname(c.args[2], 6)
        d0 = [x for x in ss.calls if x.dest["l"] == 0 and not x.dest["p"]]
        pref = any(re.search(r"option::Option::<.*>::or$", x.fn or "") and lib.switch_on_operand(ss, x.args[0], c.dest["l"]) for x in d0)
        if not re.match(r"^Add\(Sub\(.+\),1\)$", start) or not pref:
            ok, why = False, "the continuation from match+1 is not preferred over the first match (start %s)" % start
    if not rec and not rev and ok:
        # no recursion, no reverse scan: accept only a scan that never leaves the loop on a match (it records and goes on)
        pass
    ctx.ob(R, "last-marker-wins|scan", ok, "search_substring yields the last occurrence at or after start_pos", ss.where(),
           what="Reader::search_substring %s: with two markers in the scanned tail (a short last revision, or marker text inside a "
                "string/stream near the end) the older cross-reference data is used" % (why or "does not yield the last occurrence"))
