"""readerrules.py — ordering obligations of Reader::read shared by C02 (files from any producer load), C03 (Size),
C07 (revisions) and C11 (identifier allocation):

 R1 size-from-merged-table: `document.max_id = xref.size - 1` is the base of every later allocation and of the saved /Size.
    xref.size must be *made equal* to max_id()+1 of the MERGED table: the correction is two-sided (a branch on size != count
    whose taken side assigns size = count, count = checked_add(xref.max_id(), 1)), and no Xref::merge can run after the
    max_id() call that feeds it.
 R2 deferred-lengths-last: streams whose /Length could not be resolved while parsing are completed by read_stream_content,
    which looks the length up in document.objects; every insertion into document.objects (initial collect, object-stream
    members) must precede it.
 R3 last-marker-wins: the file's cross-reference data is located from the LAST `%%EOF` / `startxref` of the tail (an earlier
    one belongs to an older revision or to embedded data).  The scan may leave its loop with a match only through a value
    that prefers a later match (the self-recursive continuation from match+1 combined with `or`, or a reverse scan)."""
import re
import lib
from mir import op_place, op_const, const_int, AnchorLost


def run(ctx, F, which=("R1", "R2")):
    rd = F.fn("Reader::read")
    R = "R-ORDER"
    if "R1" in which:
        merges = [c for c in rd.calls if c.local and c.cname.endswith("Xref::merge")]
        mx = [c for c in rd.calls if c.local and c.cname.endswith("Xref::max_id")]
        ok_after = len(mx) == 1 and bool(merges) and all(not rd.can_reach(mx[0].bb, m.bb) for m in merges)
        ctx.ob(R, "size-from-merged-table|max_id-after-merges", ok_after, "xref.max_id() is taken after every Xref::merge (%d merges)" % len(merges), rd.where(),
               what="Reader::read computes the highest object number (xref.max_id()) before all previous cross-reference sections are merged: "
                    "Document.max_id / the saved Size can be smaller than an object number of an earlier revision")
        # the correction: switch on Ne/Eq(size, count), the differing side stores size = count
        two_sided = False
        if len(mx) == 1:
            stores = [(bi, si, s) for bi, si, s in lib.stores_to_field(rd, "size", "Xref") if si != "T"]
            for bi in range(rd.n):
                t = rd.term(bi)
                if t["k"] != "switch" or t["dty"] != "bool":
                    continue
                p = op_place(t["d"])
                d = rd.single_def(p["l"]) if p is not None and not p["p"] else None
                if not (d and d[2] == "rv" and d[3]["k"] == "bin" and d[3]["op"] in ("Ne", "Eq")):
                    continue
                r = rd.sname(d[3]["a"], 8) + " | " + rd.sname(d[3]["b"], 8)
                if ".size" not in r or "max_id(" not in r:
                    continue
                differ = t["else"] if d[3]["op"] == "Ne" else [x for v, x in t["tg"] if v == "0"][0]
                for sb, si, s in stores:
                    if (sb == differ or rd.dominates(differ, sb)) and "max_id(" in rd.sname(s["rv"]["o"], 8) if s["rv"]["k"] == "use" else False:
                        two_sided = True
        ctx.ob(R, "size-from-merged-table|two-sided-correction", two_sided, "xref.size is set to max_id()+1 whenever it differs (both directions)", rd.where(),
               what="Reader::read no longer forces xref.size to max_id()+1 in both directions: an understated trailer Size survives loading, "
                    "so Document.max_id is below existing object numbers (new objects collide, the saved table omits objects)")
        mid = [(bi, si, s) for bi, si, s in lib.stores_to_field(rd, "max_id", "Document") if si != "T"]
        okm = len(mid) == 1 and len(mx) == 1 and rd.dominates(mx[0].bb, mid[0][0])
        ctx.ob(R, "size-from-merged-table|max_id-after-correction", okm, "document.max_id is assigned after the correction", rd.where(),
               what="Reader::read assigns Document.max_id before xref.size was corrected")
    if "R2" in which:
        rsc = [c for c in rd.calls if c.local and c.cname.endswith("Reader::read_stream_content")]
        adds = []
        for c in rd.calls:
            if re.search(r"BTreeMap::<.*>::(insert|entry|extend|append)$|btree_map::Entry::<.*>::or_insert", c.fn or "") and c.args:
                o = lib.origin_local(F, rd, c.args[0])
                if o is not None and o[2] and isinstance(o[2][-1], dict) and o[2][-1].get("n") == "objects":
                    adds.append(c)
        for bi, si, s in lib.stores_to_field(rd, "objects", "Document"):
            adds.append(type("S", (), {"bb": bi, "ln": s["ln"] if si != "T" else s.ln})())
        ctx.floor(R, "insertions into document.objects in Reader::read", len(adds), 2)
        bad = [a for a in adds for c in rsc if rd.can_reach(c.bb, a.bb)]
        ctx.ob(R, "deferred-lengths-last", len(rsc) >= 1 and not bad, "read_stream_content runs after every insertion into document.objects (%d)" % len(adds), rd.where(),
               what="Reader::read completes streams with deferred /Length (read_stream_content) before all objects are in document.objects "
                    "(insertion at line %s comes later): an indirect /Length stored in an object stream is not found and the stream is left empty"
                    % (bad[0].ln if bad else "?"))


def last_marker(ctx, F):
    R = "R-ORDER"
    ss = F.fn("Reader::search_substring")
    gx = F.fn("Reader::get_xref_start")
    pats = sorted(set(filter(None, (lib._const_bytes_through(b2, c.args[1]) for b2 in F.with_closures(gx) for c in b2.calls
                                    if c.local and c.cname.endswith("Reader::search_substring")))))
    ctx.ob(R, "last-marker-wins|markers", pats == [b"%%EOF", b"startxref"], "get_xref_start looks for %s" % pats, gx.where(),
           what="get_xref_start no longer searches for %%EOF and startxref (searched: %s)" % pats)
    rev = any(re.search(r"rposition$|rfind$|Iterator::rev$|rsplit", c.fn or "") for b2 in F.with_closures(ss) for c in b2.calls)
    # returns of Some(..) from inside the scan loop
    ok = True
    why = ""
    loops = ss.loops()
    inloop = set().union(*loops.values()) if loops else set()
    for bi, si, s in ss.stmts():
        rv = s.get("rv")
        if "lhs" in s and s["lhs"]["l"] == 0 and not s["lhs"]["p"] and rv and rv["k"] == "agg" and rv["kind"].get("var") == "Some":
            if any(bi == x or ss.can_reach(x, bi) for x in inloop) and not rev:
                # a plain `return Some(pos)` at the first match
                if not ss.can_reach(bi, min(inloop)) :
                    ok, why = False, "returns Some(..) at the first match (line %d)" % s["ln"]
    rec = [c for c in ss.calls if c.local and c.cname.endswith("Reader::search_substring")]
    if rec and not rev:
        # the recursive continuation must start after the match and be preferred over the match itself
        c = rec[0]
        start = ss.sname(c.args[2], 6)
        d0 = [x for x in ss.calls if x.dest["l"] == 0 and not x.dest["p"]]
        pref = any(re.search(r"option::Option::<.*>::or$", x.fn or "") and lib.switch_on_operand(ss, x.args[0], c.dest["l"]) for x in d0)
        if not re.match(r"^Add\(Sub\(.+\),1\)$", start) or not pref:
            ok, why = False, "the continuation from match+1 is not preferred over the first match (start %s)" % start
    if not rec and not rev and ok:
        # no recursion, no reverse scan: accept only a scan that never leaves the loop on a match (it records and goes on)
        pass
    ctx.ob(R, "last-marker-wins|scan", ok, "search_substring yields the last occurrence at or after start_pos", ss.where(),
           what="Reader::search_substring %s: with two markers in the scanned tail (a short last revision, or marker text inside a "
                "string/stream near the end) the older cross-reference data is used" % (why or "does not yield the last occurrence"))


def xref_max_id(ctx, F):
    """Xref::max_id is the highest object number of ANY entry of the table (in use, free or compressed): it sizes the table on
    load, and every allocator and the saved /Size derive from it.  Structurally: the maximum (or last key) of the key set
    of `entries`, without looking at the entry values and without using the number of entries."""
    R = "R-TABLE"
    b = F.fn("Xref::max_id")
    scope = F.with_closures(b)
    keymax = any(re.search(r"(Iterator::max|BTreeMap::<.*>::last_key_value|Iterator::last|next_back)$", c.fn or "") for b2 in scope for c in b2.calls)
    keys = any(re.search(r"BTreeMap::<.*>::(keys|last_key_value|iter|into_keys)$", c.fn or "") for b2 in scope for c in b2.calls)
    uses_len = any(re.search(r"BTreeMap::<.*>::len$", c.fn or "") for b2 in scope for c in b2.calls)
    looks_at_entries = any(c.local and re.search(r"XrefEntry::", c.cname) for b2 in scope for c in b2.calls) or \
        any(st.get("rv") and st["rv"]["k"] == "discr" and "XrefEntry" in b2.lty(st["rv"]["p"]["l"]) for b2 in scope for _bi, _si, st in b2.stmts())
    ctx.ob(R, "xref-max-id-is-max-key", keymax and keys and not uses_len and not looks_at_entries, "Xref::max_id is the maximum key of `entries`", b.where(),
           what="Xref::max_id is not the maximum object number over all entries (uses len(): %s, inspects entry kinds: %s): after loading a table with gaps or "
                "compressed/free entries at the top, Document.max_id is below existing object numbers (new objects collide, the saved table omits objects)"
                % (uses_len, looks_at_entries))


def prev_not_carried(ctx, F):
    """the Prev chain is consumed while loading: the trailer that becomes Document.trailer no longer has /Prev (a plain save of the
    loaded document would otherwise point /Prev at an offset of the OLD file)."""
    rd = F.fn("Reader::read")
    rm = [c for c in rd.calls if c.local and c.cname.endswith("Dictionary::remove") and lib._const_bytes_through(rd, c.args[1]) == b"Prev"]
    st = [(bi, si) for bi, si, s_ in lib.stores_to_field(rd, "trailer", "Document") if si != "T" and not rd.blocks[bi].get("cleanup")]
    ok = False
    if len(rm) >= 1 and st:
        tl = lib.origin_local(F, rd, rm[0].args[0])
        src = rd.blocks[st[0][0]]["st"][st[0][1]]["rv"]
        so = lib.origin_local(F, rd, src["o"]) if src["k"] == "use" else None
        ok = tl is not None and so is not None and tl[1] == so[1] and all(rd.dominates(rm[0].bb, bi) for bi, _ in st)
    ctx.ob("R-ORDER", "prev-removed-from-loaded-trailer", ok, "Reader::read removes Prev from the trailer it installs as Document.trailer", rd.where(),
           what="Reader::read keeps /Prev in the trailer of the loaded document: Document::save writes a self-contained file whose trailer points /Prev into the middle of an unrelated object")


def no_early_object_reads(ctx, F):
    """before `document.objects` is assigned, Reader::read must not ask the Document anything that is answered from `objects`
    (e.g. whether the file is encrypted: the Encrypt entry is a reference, and resolving it needs the objects)."""
    rd = F.fn("Reader::read")
    st = [bi for bi, si, s_ in lib.stores_to_field(rd, "objects", "Document") if not rd.blocks[bi].get("cleanup")]
    early = []
    for c in rd.calls:
        if not (c.local and c.name in F.bodies and c.cname.startswith("Document::")):
            continue
        if not st or any(rd.dominates(x, c.bb) for x in st):
            continue
        # does the callee (transitively) read Document.objects?
        reads = False
        for q in F.reach([c.name]):
            qb = F.bodies[q]
            for bi, si, s_ in qb.stmts():
                def has(pl):
                    return any(isinstance(e, dict) and e.get("n") == "objects" and str(e.get("adt", "")).endswith("Document") for e in pl["p"])
                rv = s_.get("rv") or {}
                for key in ("p",):
                    if key in rv and isinstance(rv[key], dict) and "p" in rv[key] and has(rv[key]):
                        reads = True
                o = rv.get("o")
                if isinstance(o, dict):
                    pl = o.get("c") or o.get("m")
                    if pl and has(pl):
                        reads = True
            if reads:
                break
        if reads:
            early.append("%s (line %d)" % (c.cname, c.ln))
    ctx.ob("R-ORDER", "no-object-reads-before-objects-loaded", not early, "no Document query that depends on `objects` runs before the objects are loaded", rd.where(),
           what="Reader::read calls %s before document.objects is filled: the answer is computed from an empty object table "
                "(an encrypted file is taken for unencrypted and its object streams are parsed as ciphertext and dropped)" % early)


def xref_stream_defaults(ctx, F, R="R-TABLE"):
    """ISO 32000-1 Table 17/18: when the first width of /W is zero the type field is absent and every entry is of type 1
    (in use); when the third width is zero the generation of a type 1 entry is 0.  The value that selects the entry kind
    (the scrutinee of the 0/1/2 dispatch) therefore has exactly one constant definition, 1, and the generation that ends up
    in XrefEntry::Normal exactly one constant definition, 0."""
    from mir import op_place, op_const, const_int
    b = F.fn("parser_aux::decode_xref_stream")
    scl = lib.local_scope(F, b)
    found = []
    for bb in scl:
        for bi in range(bb.n):
            t = bb.term(bi)
            if t["k"] != "switch" or t["dty"] in ("bool", "isize") or not t["dty"].startswith(("u", "i")):
                continue
            vals = set(int(v) for v, _ in t["tg"])
            if not {0, 1, 2} <= vals:
                continue
            p = op_place(t["d"])
            if p is None or p["p"]:
                continue
            dd_ = bb.single_def(p["l"])
            if dd_ is not None and dd_[2] == "rv" and dd_[3]["k"] == "discr":
                continue      # a dispatch on an enum value: the number it was made from is what the other dispatch (its conversion) reads
            consts, others = [], 0
            seen, work = set(), [p["l"]]
            while work:
                l = work.pop()
                if l in seen:
                    continue
                seen.add(l)
                for d in bb.defs.get(l, []):
                    if d[2] == "rv" and d[3]["k"] in ("use", "cast"):
                        k = op_const(d[3]["o"])
                        if k is not None:
                            consts.append(const_int(k))
                        else:
                            q = op_place(d[3]["o"])
                            if q is not None and not q["p"]:
                                work.append(q["l"])
                            elif re.match(r"^\d+$", bb.oname(d[3]["o"], 3)):
                                consts.append(int(bb.oname(d[3]["o"], 3)))      # arithmetic on constants (`Variant as u32` is `discr + 0`)
                            else:
                                others += 1
                    elif d[2] == "rv" and d[3]["k"] == "discr" and not d[3]["p"]["p"]:
                        # `Variant as u32` of a fieldless enum written out as a constant: the variant's declared value
                        vd = bb.single_def(d[3]["p"]["l"])
                        a_ = F.adts.get(vd[3]["kind"].get("adt")) if vd is not None and vd[2] == "rv" and vd[3]["k"] == "agg" and vd[3]["kind"].get("a") == "adt" else None
                        dv = [v_.get("discr") for v_ in (a_["variants"] if a_ else []) if v_["name"] == vd[3]["kind"].get("var") and not v_["fields"]]
                        if dv and dv[0] is not None:
                            consts.append(dv[0])
                        else:
                            others += 1
                    else:
                        others += 1
            found.append((bb, bi, consts, others))
    if len(found) != 1:
        raise AnchorLost("decode_xref_stream: expected one dispatch on the entry type (0/1/2), found %d" % len(found))
    bb, bi, consts, others = found[0]
    ctx.ob(R, "xref-stream|absent-type-field-means-in-use", consts == [1] and others >= 1, "the entry type is read from the stream or is the constant %s" % consts, bb.where(bb.term(bi)["ln"]),
           what="decode_xref_stream: when /W[0] is 0 the entry type defaults to %s instead of 1 (ISO 32000-1 Table 17: type 1, in use): every entry of such a cross-reference stream is dropped or misread" % consts)
    # generation default: the operand stored into XrefEntry::Normal.generation
    gens = []
    for bb2 in scl:
        for bi2, si2, st in bb2.stmts():
            rv = st.get("rv")
            if rv and rv["k"] == "agg" and rv["kind"].get("var") == "Normal" and len(rv["ops"]) == 2:
                fields = rv["kind"].get("fields") or ["offset", "generation"]
                go = rv["ops"][fields.index("generation")] if "generation" in fields else rv["ops"][1]
                consts, others = [], 0
                seen, work = set(), []
                q = op_place(go)
                if q is not None and not q["p"]:
                    work.append(q["l"])
                while work:
                    l = work.pop()
                    if l in seen:
                        continue
                    seen.add(l)
                    for d in bb2.defs.get(l, []):
                        if d[2] == "rv" and d[3]["k"] in ("use", "cast"):
                            k = op_const(d[3]["o"])
                            if k is not None:
                                consts.append(const_int(k))
                            else:
                                q2 = op_place(d[3]["o"])
                                if q2 is not None and not q2["p"]:
                                    work.append(q2["l"])
                                else:
                                    others += 1
                        else:
                            others += 1
                gens.append((bb2, st["ln"], consts, others))
    if len(gens) != 1:
        raise AnchorLost("decode_xref_stream: expected one XrefEntry::Normal construction, found %d" % len(gens))
    bb2, ln, consts, others = gens[0]
    ctx.ob(R, "xref-stream|absent-generation-is-zero", consts in ([0], []) and others >= 1, "the generation is read from the stream or is the constant %s" % consts, bb2.where(ln),
           what="decode_xref_stream: when /W[2] is 0 the generation of an in-use entry defaults to %s instead of 0 (ISO 32000-1 Table 18)" % consts)


def stream_body_start(ctx, F, R="R-ORDER"):
    """The body of a stream starts right after the end-of-line that follows the keyword `stream` (ISO 32000-1 7.3.8.1).  The
    position recorded for a stream whose /Length cannot be resolved yet is the remainder of the parse that consumed the
    dictionary AND `stream` AND that end-of-line: the sequence parser holding the `stream` tag ends with `eol`."""
    from mir import op_place, op_const
    b = F.fn("parser::stream")
    ok, how = False, "no sequence parser with the `stream` tag found"
    for x in lib.local_scope(F, b):
        for bi, si, st in x.stmts():
            rv = st.get("rv")
            if not (rv and rv["k"] == "agg" and rv["kind"].get("a") == "tuple" and len(rv["ops"]) >= 2):
                continue
            kinds = []
            for o in rv["ops"]:
                k = op_const(o)
                if k is not None:
                    kinds.append(((k.get("res") or k.get("fn") or "?")).rsplit("::", 1)[-1])
                    continue
                d = x.def_rv(o)
                if d and d[2] == "call" and (d[3]["f"].get("fn") or "").endswith("complete::tag"):
                    kinds.append("tag:" + (lib._const_bytes_through(x, d[3]["args"][0]) or b"?").decode("latin1"))
                else:
                    kinds.append("?")
            if "tag:stream" in kinds:
                i = kinds.index("tag:stream")
                ok = "eol" in kinds[i + 1:]
                how = "sequence %s" % kinds
    wp = [c for x in lib.local_scope(F, b) for c in x.calls if c.local and c.cname.endswith("Stream::with_position")]
    ctx.ob(R, "stream-body-starts-after-eol|parser::stream", ok and len(wp) == 1, "the parser that consumes the keyword `stream` also consumes the end-of-line after it (%s); the deferred position is its remainder" % how, b.where(),
           what="parser::stream records the position of a stream with unresolved /Length before the end-of-line that follows `stream` (%s): the body read later starts with the line end and loses its last bytes" % how)


def prev_chain(ctx, F):
    """Every cross-reference section of the /Prev chain is read: inside the loop that reads an older section, the value the
    loop goes by is assigned anew from the /Prev entry of the trailer *just read*, on every turn that goes round again."""
    import term
    rd = F.fn("Reader::read")
    loops = rd.loops()
    xt = [c for c in rd.calls if c.local and c.cname.endswith("parser::xref_and_trailer") and any(c.bb in bl for bl in loops.values())]
    ok, why = False, "no loop that reads older cross-reference sections"
    if xt:
        # the innermost loop holding the read
        head, blocks = min(((h, bl) for h, bl in loops.items() if xt[0].bb in bl), key=lambda t: len(t[1]))
        gets = [c for c in rd.calls if c.bb in blocks and c.local and re.search(r"Dictionary::(get|remove)$", c.cname)
                and lib._const_bytes_through(rd, c.args[1]) == b"Prev"]
        why = "the loop never reads /Prev of an older trailer: only the first hop of the chain is followed"
        for g in gets:
            recv = rd.sname(g.args[0], 8)
            if "xref_and_trailer(" not in recv:
                why = "/Prev is read from %s, not from the trailer of the section just read" % recv[:60]
                continue
            # where the value goes: a local assigned both here and before the loop
            cur, tgt = g.dest["l"], None
            for _ in range(8):
                if len([d for d in rd.defs.get(cur, []) if d[2] != "proj"]) >= 2:
                    tgt = cur
                    break
                nxt = [c2.dest["l"] for c2 in rd.calls if c2.args and op_place(c2.args[0]) is not None and op_place(c2.args[0])["l"] == cur and not c2.dest["p"]]
                nxt += [st_["lhs"]["l"] for _b, _s, st_ in rd.stmts() if "lhs" in st_ and not st_["lhs"]["p"] and st_["rv"]["k"] == "use"
                        and op_place(st_["rv"]["o"]) is not None and op_place(st_["rv"]["o"])["l"] == cur]
                if len(set(nxt)) != 1:
                    break
                cur = nxt[0]
            if tgt is None:
                why = "the /Prev entry read at line %d is not stored in the variable the loop goes by" % g.ln
                continue
            outside = [d for d in rd.defs.get(tgt, []) if d[0] not in blocks]
            if not outside:
                why = "the loop variable is not initialised from the newest trailer"
                continue
            if not term.every_cycle_passes(rd, head, blocks, [g.bb]):
                why = "a turn of the loop can go round again without taking the next /Prev (line %d is skipped)" % g.ln
                continue
            ok, why = True, "the loop variable is re-assigned from xref_and_trailer(..).trailer[/Prev] (line %d) on every cycle" % g.ln
            break
    # ... and the chain is left early only for a reason the format gives: no /Prev entry, an offset outside the file, or an offset
    # that was visited before (a loop).  A test of the offset against anything else (the previous offset, a running minimum) cuts
    # legitimate chains: /Prev may point forward (a linearized file's first-page section names the main section behind it)
    if xt:
        odd = []
        for x in sorted(blocks):
            t = rd.term(x)
            if t["k"] != "switch" or all(s_ in blocks for s_ in rd.succ[x]):
                continue
            with rd.alpha():
                cnd = rd.oname(t["d"], 3).replace("&", "").replace("*", "")
            if re.match(r"^(discr|contains|insert|Not\(insert|Not\(contains|is_some|is_none|is_ok|is_err)\(", cnd):
                continue
            if re.match(r"^(Lt|Le|Gt|Ge|Eq|Ne)\((\$\d+( as \w+)?,(0|-1)|(0|-1),\$\d+( as \w+)?)\)$", cnd):
                continue
            if re.match(r"^(Lt|Le|Gt|Ge)\(.*\blen\(.*\)\)$|^(Lt|Le|Gt|Ge)\(len\(.*\),.*\)$", cnd):
                continue
            odd.append((cnd, rd.blocks[x]["t"].get("ln", 0)))
        ctx.ob("R-ORDER", "prev-chain-left-only-at-its-end", not odd, "the /Prev loop is left only when /Prev is absent, outside the file, or was visited before", rd.where(),
               what="Reader::read leaves the /Prev loop on the test %s: a chain is cut although it neither ended nor looped (a /Prev entry may point forward, as in a linearized file), and the objects of the older sections are missing after loading" % [c_ for c_, _ in odd])
    ctx.ob("R-ORDER", "prev-chain-followed-to-its-end", ok, why, rd.where(),
           what="Reader::read does not follow the /Prev chain to its end (%s): objects that only the third-newest or an older revision defines are missing after loading" % why)


def number_widths(ctx, F):
    """The numbers of the file format are read into types that hold them: object numbers, entry counts and offsets of a classic
    cross-reference table at least 32 bits (a section may list more than 65535 entries, an object number may exceed it), a
    three-digit octal escape of a literal string at least 9 bits (\\400..\\777 are legal: the high-order overflow is ignored,
    ISO 32000-1 7.3.4.2) before it is cut to a byte."""
    import json
    xb = F.fn("parser::xref")
    tys = set()
    for x in F.with_closures(xb):
        for c in x.calls:
            tys |= set(re.findall(r"parser::unsigned_int::<(\w+)>", c.full or ""))
        for nm_, _l, _b in x.fn_mentions():
            pass
    # fn items mentioned as values carry their instantiation in the constant's full name
    for x in F.with_closures(xb):
        for bi, si, st in x.stmts():
            tys |= set(re.findall(r"parser::unsigned_int::<(\w+)>", json.dumps(st)))
        for bi in range(x.n):
            tys |= set(re.findall(r"parser::unsigned_int::<(\w+)>", json.dumps(x.term(bi))))
    narrow = sorted(t for t in tys if t in ("u8", "u16", "i8", "i16"))
    ctx.ob("R-TABLE", "xref-table-number-widths", bool(tys) and not narrow, "the numbers of a cross-reference table are parsed as %s" % sorted(tys), xb.where(),
           what="parser::xref parses a number of the cross-reference table as %s: a table with more than 65535 entries in a subsection (or an object number above it) is rejected, although the writer produces it" % narrow)
    ob = F.fn("parser::oct_char")
    rad = set()
    for x in F.with_closures(ob):
        for c in x.calls:
            m = re.search(r"num::<impl (\w+)>::from_str_radix$", c.fn or "")
            if m:
                rad.add(m.group(1))
    ctx.ob("R-TABLE", "octal-escape-width", bool(rad) and not (rad & {"u8", "i8"}), "octal escapes are converted through %s" % sorted(rad), ob.where(),
           what="parser::oct_char converts the digits of an octal escape through %s: the legal escapes \\400..\\777 fail to convert and are read as a backslash followed by digits" % sorted(rad))
