"""C02 — well-formed PDFs from any producer load to their content (DESIGN §4 C02): the reader's lexical classes and
escape tables against ISO 32000-1 §7.2-7.3, plus the structural tables of the predictors used on structural streams."""
import re
import lib, lexrules, prop_c09, prop_c01

LEVEL = dict(
    level="other",
    rule_text="reader tables = ISO 32000-1 tables, exhaustively over the 256 byte values: white-space, delimiters, regular characters, "
              "end-of-line markers, literal-string escapes (incl. octal 1-3 digits and line continuation), #xx in names, hex digits, "
              "20-byte xref entry terminators and kinds; the stream body is exactly Length bytes; PNG predictor row formulas and the "
              "Paeth predictor (used on cross-reference and object streams) have the specified shape; filter dispatch table; PNG frame row discipline (every emitted row is `current` after decode_row and becomes `previous`); streams with a deferred /Length are completed only after every insertion into document.objects",
    explanation="Decides only the lexical/tabular part of reading any producer's files. Does not decide the structural freedoms "
                "(multi-section tables, xref-stream field widths and Index ranges, object streams, indirect lengths, leading junk), "
                "which depend on run-time arithmetic over the file's contents.",
    trusted_base=["rustc MIR", "ISO 32000-1 Tables 1-3 and §7.3.5, §7.5.4; PNG specification §6 (embedded in the rules)", "value-set analysis over one byte variable"],
)


def _run(ctx):
    F = ctx.facts("default")
    lexrules.check_iso_tables(ctx, F)
    prop_c01.stream_rule(ctx, F)
    prop_c09.png_rules(ctx, F)
    # hexadecimal strings: white-space skipped between digits, odd final digit padded with 0
    hs = F.fn("parser::hexadecimal_string")
    pre = [c for c in lib.calls_named(hs, r"nom::sequence::preceded$")]
    ws = any("white_space" in hs.oname(a, 3) for c in pre for a in c.args)
    ctx.ob("R-TABLE", "iso|hexstring-whitespace", ws, "white-space is skipped before each hex digit", hs.where(), what="hexadecimal strings no longer allow white-space between digits")
    shl = [x.rvname(s["rv"], 3) for x in lib.local_scope(F, hs) for bi, si, s in x.stmts() if "lhs" in s and s["rv"]["k"] == "bin" and s["rv"]["op"].startswith("Shl")]
    cl = hs
    ctx.ob("R-TABLE", "iso|hexstring-odd-digit", any(re.match(r"^Shl\([^,()]+(\[[^\]]*\])?,4\)$", t) for t in shl), "the first digit of a pair is stored as digit << 4 (an odd final digit is padded with 0)", cl.where(),
           what="the first hex digit of a pair is no longer stored in the high nibble")
    # real numbers: `4.`, `.5`, signs
    rb = F.fn("parser::real")
    tags = [lib._const_bytes_through(rb, c.args[0]) for c in lib.calls_named(rb, r"complete::tag$")]
    one = [lib._const_bytes_through(rb, c.args[0]) for c in lib.calls_named(rb, r"one_of$")]
    d0 = any("digit0" in n for n, _, _ in rb.fn_mentions())
    d1 = any("digit1" in n for n, _, _ in rb.fn_mentions())
    ctx.ob("R-TABLE", "iso|real-grammar", tags.count(b".") == 2 and one == [b"+-"] and d0 and d1, "real = [+-] (digit1 '.' digit0 | '.' digit1)", rb.where(),
           what="the real-number grammar no longer accepts both `4.` and `.5` with an optional sign")
    ib = F.fn("parser::integer")
    one = [lib._const_bytes_through(ib, c.args[0]) for c in lib.calls_named(ib, r"one_of$")]
    ctx.ob("R-TABLE", "iso|integer-grammar", one == [b"+-"] and any("digit1" in n for n, _, _ in ib.fn_mentions()), "integer = [+-] digit1", ib.where(), what="the integer grammar lost its optional sign or digits")
    # comments are white-space
    sp = F.fn("parser::space")
    ctx.ob("R-TABLE", "iso|comments-are-space", any(n.endswith("parser::comment") for n, _, _ in sp.fn_mentions()) and any("is_whitespace" in n for n, _, _ in sp.fn_mentions()),
           "space = (white-space | comment)*", sp.where(), what="comments are no longer skipped as white-space")
    # keywords
    for fn, kws in (("parser::boolean", [b"true", b"false"]), ("parser::null", [b"null"]), ("parser::reference", [b"R"]), ("parser::array", [b"[", b"]"]),
                    ("parser::dictionary", [b"<<", b">>"]), ("parser::_indirect_object", [b"obj", b"endobj"]), ("parser::trailer", [b"trailer"]), ("parser::xref_start", [b"startxref", b"%%EOF"])):
        b = F.fn(fn)
        # the function itself or a private helper of the same file it hands the work to (one hop)
        near = list(F.with_closures(b))
        for body in list(near):
            for c in body.calls:
                if c.local and c.name in F.bodies:
                    cb = F.bodies[c.name]
                    if cb.vis.startswith("Restricted") and cb.file == b.file:
                        near += [x for x in F.with_closures(cb) if x not in near]
        tags = [lib._const_bytes_through(x, c.args[0]) for x in near for c in lib.calls_named(x, r"complete::tag$")]
        ctx.ob("R-TABLE", "iso|keywords|%s" % fn, all(k in tags for k in kws), "%s recognises %s" % (fn, [k.decode() for k in kws]), b.where(),
               what="%s no longer recognises the keyword(s) %s" % (fn, [k.decode() for k in kws if k not in tags]))
    ctx.extra["exhaustive_over"] = "256 byte values for every byte-class obligation"


def run(ctx):
    _run(ctx)
    import readerrules
    readerrules.run(ctx, ctx.facts("default"), ("R2",))
    import corerules
    corerules.recursion_arg_order(ctx, ctx.facts("default"), ["Reader::search_substring"])
