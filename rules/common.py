"""common.py — check context: fact extraction/caching, obligations, findings, evidence, exit protocol."""
import fcntl, hashlib, json, os, subprocess, sys, time

V = os.path.dirname(os.path.dirname(os.path.abspath(__file__)))
REPO = os.environ.get("VERIF_REPO", "/repo")
CACHE = os.path.join(V, ".cache")

CONFIGS = {
    "default": [],
    "nodefault": ["--no-default-features"],
    "async": ["--features", "async"],
    "serde": ["--features", "serde"],
    "embed_image": ["--features", "embed_image"],
    "chrono_only": ["--no-default-features", "--features", "chrono"],
    "jiff_only": ["--no-default-features", "--features", "jiff"],
    "time_only": ["--no-default-features", "--features", "time"],
}


THOROUGH_CONFIGS = ["nodefault", "async", "serde", "embed_image", "time_only"]


def tree_key():
    """SHA-256 over everything the build of the lopdf library reads."""
    h = hashlib.sha256()
    files = []
    for root, dirs, fs in os.walk(os.path.join(REPO, "src")):
        dirs.sort()
        for f in sorted(fs):
            files.append(os.path.join(root, f))
    for f in ("Cargo.toml", "Cargo.lock", "README.md", "build.rs"):
        p = os.path.join(REPO, f)
        if os.path.exists(p):
            files.append(p)
    for p in files:
        h.update(p.encode())
        h.update(b"\0")
        with open(p, "rb") as fh:
            h.update(fh.read())
        h.update(b"\0")
    # the extractor itself is part of the key
    drv = os.path.join(V, "engines", "mirfacts", "src", "main.rs")
    with open(drv, "rb") as fh:
        h.update(fh.read())
    return h.hexdigest()


class BuildBroken(Exception):
    pass


def ensure_driver():
    drv = os.path.join(V, "engines", "mirfacts", "target", "debug", "mirfacts")
    src = os.path.join(V, "engines", "mirfacts", "src", "main.rs")
    if not os.path.exists(drv) or os.path.getmtime(drv) < os.path.getmtime(src):
        env = dict(os.environ, CARGO_NET_OFFLINE="true")
        r = subprocess.run(["cargo", "build", "--offline"], cwd=os.path.join(V, "engines", "mirfacts"), env=env,
                           stdout=subprocess.PIPE, stderr=subprocess.STDOUT, text=True)
        if r.returncode != 0:
            raise BuildBroken("mirfacts driver does not build:\n" + r.stdout[-3000:])
    return drv


def ensure_facts(cfg="default"):
    """(re-)extract MIR facts of /repo's working tree for `cfg` unless the cached file belongs to the same tree."""
    os.makedirs(CACHE, exist_ok=True)
    lock = open(os.path.join(CACHE, "lock-%s" % cfg), "w")
    fcntl.flock(lock, fcntl.LOCK_EX)
    try:
        key = tree_key()
        kf = os.path.join(CACHE, "facts-%s.key" % cfg)
        ff = os.path.join(CACHE, "facts-%s.json" % cfg)
        if os.path.exists(kf) and os.path.exists(ff) and open(kf).read().strip() == key:
            return ff, False
        ensure_driver()
        if os.path.exists(kf):
            os.remove(kf)
        r = subprocess.run([os.path.join(V, "engines", "extract.sh"), cfg] + CONFIGS[cfg],
                           stdout=subprocess.PIPE, stderr=subprocess.STDOUT, text=True)
        if r.returncode != 0 or not os.path.exists(ff):
            raise BuildBroken("fact extraction failed for configuration %s:\n%s" % (cfg, r.stdout[-4000:]))
        # the tree must not have changed while we were extracting
        if tree_key() != key:
            raise BuildBroken("/repo changed during extraction")
        with open(kf, "w") as fh:
            fh.write(key)
        return ff, True
    finally:
        fcntl.flock(lock, fcntl.LOCK_UN)
        lock.close()


class Finding:
    def __init__(self, rule, key, what, where="", detail=None):
        self.rule = rule
        self.key = key
        self.what = what
        self.where = where
        self.detail = detail or {}
        self.cfg = "default"

    def to_json(self):
        return {"rule": self.rule, "key": self.key, "what": self.what, "where": self.where, "detail": self.detail, "configuration": self.cfg}


class Ctx:
    def __init__(self, prop, tier, seed):
        self.prop = prop
        self.tier = tier
        self.seed = seed
        self.t0 = time.time()
        self.findings = []
        self.obligations = []     # dicts: rule, key, status, how, where
        self.notes = []
        self.extra = {}
        self.samples = []
        self.assumptions = []
        self.extracted = {}
        self._facts = {}
        self.cur_cfg = "default"
        self.cfg_override = os.environ.get("VERIF_CFG") or None

    # ---- facts
    def facts(self, cfg="default"):
        import mir
        if cfg == "default" and getattr(self, "cfg_override", None):
            cfg = self.cfg_override      # thorough tier: the same rules over another feature configuration
        if cfg not in self._facts:
            ff, fresh = ensure_facts(cfg)
            self.extracted[cfg] = fresh
            self._facts[cfg] = mir.Facts(ff)
        self.cur_cfg = cfg        # findings recorded from now on belong to this build configuration
        return self._facts[cfg]

    # ---- obligations
    def ob(self, rule, key, ok, how, where="", what=None, nontrivial=True, detail=None):
        """record one obligation; a failed obligation becomes a finding keyed `rule|key`."""
        self.obligations.append({"rule": rule, "key": key, "status": "discharged" if ok else "FAILED", "how": how, "where": where,
                                 "nontrivial": nontrivial})
        if not ok:
            f = Finding(rule, "%s|%s" % (rule, key), what or how, where, detail)
            f.cfg = self.cur_cfg
            self.findings.append(f)
        return ok

    def finding(self, rule, key, what, where="", detail=None):
        self.obligations.append({"rule": rule, "key": key, "status": "FAILED", "how": what, "where": where, "nontrivial": True})
        f = Finding(rule, "%s|%s" % (rule, key), what, where, detail)
        f.cfg = self.cur_cfg
        self.findings.append(f)

    def floor(self, rule, name, got, at_least):
        """fail closed when a rule matched fewer instances than were confirmed by hand."""
        ok = got >= at_least
        self.ob(rule, "floor:%s" % name, ok, "%s: matched %d instance(s), floor %d" % (name, got, at_least),
                what="anchor lost: %s matched %d instance(s), fewer than the %d confirmed by hand" % (name, got, at_least),
                nontrivial=False)
        return ok

    def sample(self, s):
        if len(self.samples) < 40:
            self.samples.append(s)


def load_known():
    p = os.path.join(V, "known_findings.json")
    if not os.path.exists(p):
        return {"findings": [], "fixed": []}
    with open(p) as f:
        return json.load(f)


def finish(ctx, level, rule_text, explanation=None, trusted_base=None, exhaustive=False, checker_cmd=None):
    """write evidence, print KNOWN-FINDING / VIOLATION lines, return exit code."""
    known = load_known()
    known_keys = {(k["property"], k["key"]): k for k in known.get("findings", [])}
    new = []
    seen_known = []
    per_key = {}
    for f in ctx.findings:
        k = known_keys.get((ctx.prop, f.key))
        # sites are counted per build configuration: the same site seen again under another feature set is the same finding
        ck = (f.cfg, f.key)
        per_key[ck] = per_key.get(ck, 0) + 1
        # a known finding suppresses exactly the recorded number of sites with that signature
        if k is not None and per_key[ck] <= int(k.get("n", 1)):
            if per_key[ck] == 1 and not any(f2.key == f.key for f2, _ in seen_known):
                seen_known.append((f, k))
        else:
            new.append(f)
    n_ob = len(ctx.obligations)
    n_dis = sum(1 for o in ctx.obligations if o["status"] == "discharged")
    distinct_nt = len({(o["rule"], o["key"]) for o in ctx.obligations if o.get("nontrivial")})
    by_rule = {}
    for o in ctx.obligations:
        r = by_rule.setdefault(o["rule"], {"obligations": 0, "discharged": 0})
        r["obligations"] += 1
        r["discharged"] += 1 if o["status"] == "discharged" else 0
    samples = list(ctx.samples)
    if not samples:
        samples = [{"rule": o["rule"], "obligation": o["key"], "how": o["how"], "where": o["where"]} for o in ctx.obligations[:12]]
    cov = {
        "evaluations": n_ob,
        "distinct_nontrivial": distinct_nt,
        "rule": rule_text,
        "samples": samples,
        "obligations": n_ob,
        "discharged": n_dis + len(seen_known) if level != "proof" else n_dis,
        "checker_cmd": checker_cmd or "./check %s --tier %s" % (ctx.prop, ctx.tier),
        "trusted_base": trusted_base or [],
        "explanation": explanation or "",
        "exhaustive": bool(exhaustive),
        "by_rule": by_rule,
        "known_findings_reported": [k["key"] for _, k in seen_known],
        "configurations": sorted(ctx._facts.keys()),
        "fresh_extraction": ctx.extracted,
    }
    cov.update(ctx.extra)
    ev = {
        "property_id": ctx.prop,
        "tier": ctx.tier,
        "seed": ctx.seed,
        "level": level,
        "coverage": cov,
        "assumptions": ctx.assumptions,
        "wall_s": round(time.time() - ctx.t0, 3),
        "violations": len(new),
    }
    # maintenance runs against a deliberately modified /repo (tools/regress.sh, try_mutant.sh, try_refactor.sh) must not
    # overwrite the evidence of the real tree
    evdir = os.path.join(V, ".cache", "scratch-evidence") if os.environ.get("VERIF_SCRATCH") else os.path.join(V, "evidence")
    os.makedirs(evdir, exist_ok=True)
    with open(os.path.join(evdir, "%s.json" % ctx.prop), "w") as f:
        json.dump(ev, f, indent=1, sort_keys=True)
    for f, k in seen_known:
        print("KNOWN-FINDING: property=%s %s [%s] %s" % (ctx.prop, k.get("what", f.what), f.key, f.where))
    for n in ctx.notes:
        print("note: " + n)
    print("%s: %d obligations, %d discharged, %d known finding(s), %d new violation(s) [%s, %.1fs]" %
          (ctx.prop, n_ob, n_dis, len(seen_known), len(new), ctx.tier, time.time() - ctx.t0))
    if new:
        rd = os.path.join(evdir, "replay")
        os.makedirs(rd, exist_ok=True)
        for i, f in enumerate(new):
            rp = os.path.join(rd, "%s-%d.json" % (ctx.prop, i))
            with open(rp, "w") as fh:
                json.dump(dict(f.to_json(), property=ctx.prop), fh, indent=1)
            print("  %s: %s (%s)" % (f.rule, f.what, f.where))
            print("VIOLATION property=%s replay=%s" % (ctx.prop, rp))
        return 1
    return 0
