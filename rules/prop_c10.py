"""C10 — renumbering objects preserves the document graph (DESIGN §4 C10): the old->new map is applied to all four places."""
import re
import lib
from mir import op_place, AnchorLost

LEVEL = dict(
    level="other",
    rule_text="in renumber_objects_with: objects are moved in two phases (a loop that removes from `objects` never inserts into it), an "
              "object is stored under exactly the id that references to it are rewritten to, references are rewritten by one traversal "
              "after each move using the same map (guarded lookup), bookmarks are renamed for every moved pair, and max_id is the last "
              "assigned number; traverse_objects visits each reachable object once; the rename map is cleared between a traversal and the next pass that fills it; update_bookmark_pages recurses into children on both outcomes of the page test; the visited test of traverse_objects is keyed by the whole object id",
    explanation="Decides the structural conditions for an isomorphic renaming. Does not decide that the result is an isomorphism for "
                "every graph (collisions between old and new numbers in the bookmark table, generations, dangling references).",
    trusted_base=["rustc MIR and callee resolution"],
)
LEVEL["rule_text"] += '; the page list of the ordering pass is never turned into a set of ids (a page listed twice stays listed twice)'


def run(ctx, dangling_clause=True):
    F = ctx.facts("default")
    R = "R-ORDER"
    b = F.fn("Document::renumber_objects_with")
    loops = b.loops()
    rem = [c for c in b.calls if re.search(r"BTreeMap::<.*>::remove$", c.fn or "") and "self.objects" in b.oname(c.args[0], 4)]
    # a removal written as an iterator chain: `replace.iter().filter_map(|(old, new)| self.objects.remove(old).map(|o| (*new, o))).collect()`
    crem = [(x, c) for x in F.with_closures(b) if x is not b for c in x.calls if re.search(r"BTreeMap::<.*>::remove$", c.fn or "") and re.search(r"self(\.|$)|objects", x.oname(c.args[0], 4))]
    chain_ok = []
    for x, c in crem:
        # the closure (or a closure inside it) hands on (new, object): a pair whose first component is the second component of
        # the (old, new) pair the chain iterates over — and it inserts nothing into `objects` itself
        pairs = []
        for y in F.with_closures(x):
            for bi_, si_, st_ in y.stmts():
                rv_ = st_.get("rv")
                if rv_ and rv_["k"] == "agg" and rv_["kind"].get("a") == "tuple" and len(rv_["ops"]) == 2:
                    o_ = lib.origin_local(F, y, rv_["ops"][0])
                    fl_ = [e["f"] for e in (o_[2] if o_ else []) if isinstance(e, dict) and "f" in e]
                    pairs.append(bool(o_) and o_[0] is x and o_[1] == x.argc and fl_[-1:] == [1])
        noins = not any(re.search(r"BTreeMap::<.*>::(insert|extend|append)$", c2.fn or "") for y in F.with_closures(x) for c2 in y.calls)
        chain_ok.append(bool(pairs) and all(pairs) and noins)
    # stores into self.objects: single insertions, or the whole temporary map at once (extend / append)
    ins = [c for c in b.calls if re.search(r"BTreeMap::<.*>::(insert|append)$|BTreeMap<.*> as std::iter::Extend<.*>>::extend$|iter::Extend::extend$", c.fn or "") and "self.objects" in b.oname(c.args[0], 4)]
    ctx.floor(R, "remove calls on self.objects", len(rem) + len(crem), 2)
    for i_, ok_ in enumerate(chain_ok):
        ctx.ob(R, "two-phase-move|chain-%d" % i_, ok_, "the removing iterator chain hands on (new id, object) and inserts nothing", b.where(crem[i_][1].ln),
               what="renumber_objects_with: the chain that removes the old keys does not hand on (new id, object) pairs, or inserts into `objects` while removing")
    ctx.floor(R, "insert calls on self.objects", len(ins), 2)
    for c in rem:
        inner = [bl for h, bl in loops.items() if c.bb in bl]
        bad = [i for i in ins if any(i.bb in bl for bl in inner)]
        ctx.ob(R, "two-phase-move|line-order-%d" % rem.index(c), bool(inner) and not bad, "the loop that removes old keys from `objects` does not insert new keys into it", b.where(c.ln),
               what="renumber_objects_with inserts renumbered objects into `objects` inside the loop that is still removing old keys: an object moved onto a number that is still in use overwrites it")
    # stored key == reference replacement
    tmp_ins = [c for c in b.calls if re.search(r"BTreeMap::<.*>::insert$", c.fn or "") and re.match(r"^&objects", b.oname(c.args[0], 3))]
    rep_ins = [c for c in b.calls if re.search(r"BTreeMap::<.*>::insert$", c.fn or "") and re.match(r"^&replace", b.oname(c.args[0], 3))]
    ctx.floor(R, "insertions into the temporary object map", len(tmp_ins) + len(crem), 2)
    ctx.floor(R, "insertions into the replace map", len(rep_ins), 2)
    # page pass: both in the same block region with identical value terms
    paired = 0
    for t in tmp_ins:
        for r in rep_ins:
            if b.dominates(t.bb, r.bb) and any(t.bb in bl and r.bb in bl for bl in loops.values()):
                kt = b.oname(t.args[1], 6)
                vr = b.oname(r.args[2], 6)
                paired += 1
                ctx.ob(R, "stored-key-equals-replacement|page-pass", kt == vr, "object stored under %s; references rewritten to %s" % (kt, vr), b.where(r.ln),
                       what="in the page-ordering pass an object is stored under `%s` but references to it are rewritten to `%s`: references to moved pages dangle when generations differ" % (kt, vr))
    ctx.floor(R, "store/replace pairs in the page pass", paired, 1)
    # main pass: temporary map keyed by the replace map's values
    main = [t for t in tmp_ins if "new" in b.oname(t.args[1], 4) and not any(b.dominates(t.bb, r.bb) and any(t.bb in bl and r.bb in bl for bl in loops.values()) for r in rep_ins)]
    ctx.ob(R, "stored-key-equals-replacement|main-pass", (len(main) == 1 and re.match(r"^\*?new$", b.oname(main[0].args[1], 3)) is not None) or (not main and len(chain_ok) == 1 and chain_ok[0]), "objects are stored under the `new` of the (old, new) pair being iterated", b.where(),
           what="the main pass does not store the object under the new id taken from the replace map")
    # the replace map assigns consecutive numbers: (new_id, id.1) with new_id += 1 each turn
    mainrep = [r for r in rep_ins if "new_id" in b.oname(r.args[2], 5)]
    ctx.ob(R, "consecutive-numbers", len(mainrep) == 1 and re.search(r"tuple\(new_id,\*?id\.1\)|tuple\(new_id,id\.1\)", b.oname(mainrep[0].args[2], 5)) is not None,
           "new ids are (new_id, old generation): %s" % (b.oname(mainrep[0].args[2], 5) if mainrep else "?"), b.where(), what="the main pass does not assign (running number, same generation)")
    import term
    ups = [(h, bl) for h, bl in loops.items() if term.counter_updates(b, bl, "new_id")]
    ctx.ob(R, "new_id-incremented-per-object", bool(ups) and any(term.every_cycle_passes(b, h, bl, [u[0] for u in term.counter_updates(b, bl, "new_id")]) for h, bl in ups), "new_id += 1 on every turn of the id loop", b.where(),
           what="new_id is not advanced for every object: numbers are not consecutive")
    srt = [c for c in b.calls if re.search(r"sort_unstable$|::sort$", c.fn or "") and "ids" in b.oname(c.args[0], 4)]
    ctx.ob(R, "ids-sorted", len(srt) == 1, "old ids are processed in ascending order", b.where(), what="old ids are no longer sorted before numbers are assigned (order of objects would change)")
    # the snapshot of the keys that the numbering pass works from is taken after the page-ordering pass (which changes keys: a
    # page moved onto another page's number keeps its own generation)
    kc = [c for c in b.calls if re.search(r"BTreeMap::<.*>::(keys|into_keys)$", c.fn or "") and "self.objects" in b.oname(c.args[0], 4)]
    tr0 = sorted(lib.local_calls(F, b, "Document::traverse_objects"), key=lambda c: c.ln)
    oks = bool(kc) and (len(tr0) < 2 or all(not b.can_reach(k.bb, tr0[0].bb) for k in kc))
    ctx.ob(R, "keys-snapshot-after-page-pass", oks, "the sorted key snapshot is taken after the page-ordering pass", b.where(kc[0].ln if kc else None),
           what="renumber_objects_with takes the snapshot of object keys before the page-ordering pass has run: that pass changes keys, so the numbering pass works from stale ones and leaves objects under their old numbers")
    # the page-ordering pass pairs the page list in document order with the same list in id order: position by position, so both
    # are lists of the same length.  A set of the ids (or a dedup) drops a page that the tree lists twice, the pairing shifts and
    # two pages end up under one number
    sets = [(x, c) for x in F.with_closures(b) for c in x.calls
            if re.search(r"(BTreeSet|HashSet|IndexSet)<(\(i32, )?\(u32, u16\)\)?>", c.full or "") or re.search(r"::dedup(_by|_by_key)?$", c.fn or "")]
    ctx.ob(R, "page-list-keeps-duplicates", not sets, "the page list is never turned into a set of ids", b.where(sets[0][1].ln if sets else None),
           what="renumber_objects_with puts the page ids into a set (%s): a page the tree lists twice is dropped from one side of the old/new pairing, "
                "so the renaming is no longer one-to-one (a later page is overwritten)" % ((sets[0][1].fn or sets[0][1].name).rsplit("::", 2)[-2:] if sets else ""))
    # traversal after each move, with the same map
    tr = lib.local_calls(F, b, "Document::traverse_objects")
    ctx.floor(R, "traverse_objects calls", len(tr), 2)
    for t in tr:
        ok = any(b.dominates(i.bb, t.bb) or not b.can_reach(t.bb, i.bb) for i in ins)
        after = [i for i in ins if b.can_reach(i.bb, t.bb) and not b.can_reach(t.bb, i.bb)]
        ctx.ob(R, "references-rewritten-after-move|%d" % tr.index(t), bool(after), "traverse_objects(action) runs after the objects were re-inserted", b.where(t.ln),
               what="references are rewritten before the objects were moved (or not at all)")
    acts = [c for c in F.closures_of(b.path)]

    def lookup_edges(a):
        """the closure's one lookup in the rename map, as (kind, present-edge block, absent-edge block): either
        `contains_key(id)` followed by `map[id]`, or `get(id)` matched against Some / None."""
        ck = [c for c in a.calls if re.search(r"BTreeMap::<.*>::contains_key$", c.fn or "")]
        gt = [c for c in a.calls if re.search(r"BTreeMap::<.*>::get$", c.fn or "")]
        if len(ck) == 1 and not gt:
            sw = [bi for bi in range(a.n) if a.term(bi)["k"] == "switch" and lib.switch_on(a, bi, ck[0].dest["l"])]
            if len(sw) == 1:
                t = a.term(sw[0])
                return "contains_key", t["else"], t["tg"][0][1]
            return "contains_key", None, None
        if len(gt) == 1 and not ck:
            for bi in range(a.n):
                t = a.term(bi)
                if t["k"] != "switch":
                    continue
                pl = op_place(t["d"])
                d = a.single_def(pl["l"]) if pl is not None and not pl["p"] else None
                if d and d[2] == "rv" and d[3]["k"] == "discr" and a.root_place(d[3]["p"], through_names=True)["l"] == gt[0].dest["l"]:
                    some = [x for v, x in t["tg"] if str(v) == "1"]
                    none = [x for v, x in t["tg"] if str(v) == "0"]
                    if some:
                        return "get", some[0], (none[0] if none else t["else"])
                    if none:
                        return "get", t["else"], none[0]
            return "get", None, None
        return None, None, None

    rew = 0
    for a in acts:
        kind, pres, absn = lookup_edges(a)
        if kind == "contains_key":
            idx = [c for c in a.calls if (c.fn or "").endswith("ops::Index::index") and "BTreeMap" in (c.full or "")]
            ck = [c for c in a.calls if re.search(r"BTreeMap::<.*>::contains_key$", c.fn or "")]
            if idx:
                rew += 1
                ok = all(a.dominates(k.bb, i.bb) for k in ck for i in idx)
                ctx.ob(R, "rewrite-guarded-lookup|%s" % F.canon_of(a).rsplit("::", 1)[-1], ok, "replace[id] is read only under replace.contains_key(id)", a.where(),
                       what="the reference rewrite indexes the replace map without the contains_key guard (dangling references would panic or be rewritten)")
        elif kind == "get":
            # `get` hands the new id out only when there is one: the write of the reference stands on the Some edge
            wr = [bi for bi, si, st_ in a.stmts() if "lhs" in st_ and st_["lhs"]["p"] and "*" in st_["lhs"]["p"]]
            rew += 1
            ok = pres is not None and bool(wr) and all(x == pres or a.dominates(pres, x) for x in wr)
            ctx.ob(R, "rewrite-guarded-lookup|%s" % F.canon_of(a).rsplit("::", 1)[-1], ok, "the reference is overwritten only with what replace.get(id) found", a.where(),
                   what="the reference rewrite writes the reference outside the Some edge of its lookup in the replace map")
    ctx.floor(R, "reference-rewriting closures", rew, 2)
    # "a reference that resolved to nothing still resolves to nothing": a reference whose id is not a key of the rename map
    # (a dangling one) is left as it is — but the numbers handed out afresh may well include its number.  Some handling has to
    # stand on the not-in-the-map edge (or the fresh numbers have to avoid the dangling ones); nothing there = finding.
    npass = 0
    for a in (sorted(acts, key=lambda x: x.lo) if dangling_clause else []):
        kind, tr, fa = lookup_edges(a)
        if kind is None:
            continue
        npass += 1
        if tr is None or fa is None:
            continue
        only_false = a.reach_set(fa) | {fa}
        only_false -= (a.reach_set(tr) | {tr})
        handled = any(a.term(x)["k"] == "call" or any("lhs" in st_ and st_["lhs"]["p"] for st_ in a.blocks[x]["st"]) for x in only_false)
        ctx.ob("R-GUARD", "dangling-references-kept-apart|pass%d" % npass, handled, "a reference that is not in the rename map is dealt with explicitly", a.where(),
               what="renumber_objects_with leaves a reference whose target does not exist unchanged while handing out fresh numbers from the start value: when its number is among them the dangling reference resolves to an object afterwards (e.g. objects 1 and 5, a reference to 2: 5 becomes 2)")
    # bookmark targets are renamed like references: once per pass, by the completed rename map of that pass (a lookup per
    # bookmark), not pair by pair while the map is being filled — renames applied one after the other chain (a -> b, then b -> c)
    rb = [c for c in b.calls if c.local and re.search(r"Document::(renumber_bookmarks(_with)?|update_bookmark_pages)$", c.cname)]
    okb, whyb = len(rb) == 2, "%d call(s) that rename bookmark targets" % len(rb)
    rep_ins_b = [c for c in b.calls if re.search(r"BTreeMap::<.*>::insert$", c.fn or "") and "replace" in b.oname(c.args[0], 4)]
    for c in rb:
        mo = None
        for a in c.args[1:]:
            o = lib.origin_local(F, b, a)
            if o is not None and o[0] is b and not o[2] and b.lty(o[1]).startswith("std::collections::BTreeMap"):
                mo = o[1]
        if mo is None:
            okb, whyb = False, "the call at line %d renames one (old, new) pair at a time instead of looking every bookmark up in the rename map" % c.ln
            continue
        ins_m = [i for i in rep_ins_b if (lib.origin_local(F, b, i.args[0]) or (None, None, 1))[1] == mo]
        clears = {k.bb for k in b.calls if k.args and re.search(r"BTreeMap::<.*>::clear$", k.fn or "") and (lib.origin_local(F, b, k.args[0]) or (0, None, 1))[1] == mo}
        before = [i for i in ins_m if b.can_reach(i.bb, c.bb, avoid=clears)]
        inside = [i for i in ins_m if any(i.bb in bl and c.bb in bl for bl in loops.values())]
        if not before:
            okb, whyb = False, "the rename map handed over at line %d has not been filled (or was cleared) at that point" % c.ln
        elif inside:
            okb, whyb = False, "bookmarks are renamed at line %d inside the loop that still fills the rename map" % c.ln
    ctx.ob(R, "bookmarks-renamed", okb, "both passes rename the bookmark targets by a lookup in their completed rename map", b.where(),
           what="bookmark targets are not renamed like the references (%s)" % whyb)
    # the rename map is per pass: between one traversal that applies it and the next insertion into it, it is emptied
    # (an entry left over from the page-ordering pass would be applied again by the compaction pass)
    maps = {}
    for c in rep_ins:
        o = lib.origin_local(F, b, c.args[0])
        if o is not None and o[0] is b and not o[2]:
            maps.setdefault(o[1], []).append(c)
    trav = lib.local_calls(F, b, "Document::traverse_objects")
    okc, whyc = bool(maps) and len(trav) >= 2, "rename map or traversals not found"
    for M, inserts in maps.items():
        clears = {c.bb for c in b.calls if c.args and re.search(r"BTreeMap::<.*>::clear$", c.fn or "") and (lib.origin_local(F, b, c.args[0]) or (0, None, 1))[1] == M}
        for t in trav:
            seen, st_ = set(), [t.bb]
            while st_:
                x = st_.pop()
                if x in seen or (x in clears and x != t.bb):
                    continue
                seen.add(x)
                st_.extend(b.succ[x])
            late = [i for i in inserts if i.bb in seen and i.bb != t.bb and not b.dominates(i.bb, t.bb)]
            if late:
                okc, whyc = False, "after the traversal at line %d the map is filled again (line %d) without being cleared" % (t.ln, late[0].ln)
    ctx.ob(R, "rename-map-cleared-between-passes", okc, "the rename map is cleared between a traversal and the next pass that fills it", b.where(),
           what="renumber_objects_with: %s — renames of the page-ordering pass leak into the compaction pass (two objects end up under one number)" % whyc)
    # bookmark targets: every bookmark of the tree is visited whether or not its parent matched
    ub = F.fn("Document::update_bookmark_pages")
    rec = [c for c in ub.calls if c.local and c.cname.endswith("Document::update_bookmark_pages")]
    okb = False
    if len(rec) == 1:
        okb = True
        for bi in range(ub.n):
            t = ub.term(bi)
            if t["k"] != "switch":
                continue
            d = ub.def_rv(t["d"])
            if d and d[2] == "rv" and d[3]["k"] == "discr":
                # `if let Some(new) = replace.get(&page)`: the test is the discriminant of the lookup's result
                q = d[3]["p"]
                d = ub.single_def(q["l"]) if not [e for e in q["p"] if e != "*"] else None
            rnd = ub.sname(t["d"], 6)
            in_loop = any(bi in bl and rec[0].bb in bl for h, bl in ub.loops().items())
            # every test inside the loop counts, except the three that belong to the walk itself: "is there a next id", "is the id
            # in the table" (the function gives up otherwise) and "has it children"
            walk_test = re.match(r"^discr\(<[^()]*Iterator>::next\(|^(?:\w+::)*is_empty\(|^Eq\(len\(|^Ne\(len\(|^Gt\(len\(", rnd) is not None or \
                (re.match(r"^discr\((?:\w+::)*get(?:_mut)?\([^,]*bookmark_table", rnd) is not None and re.search(r"replace|arg3", rnd) is None)
            if in_loop and not walk_test:
                # within one turn of the loop: do not go round through the loop header
                heads = [h for h, bl in ub.loops().items() if bi in bl and rec[0].bb in bl]

                def reach_same_turn(x):
                    seen, st_ = set(), [x]
                    while st_:
                        y = st_.pop()
                        if y in seen or y in heads:
                            continue
                        seen.add(y)
                        st_.extend(ub.succ[y])
                    return rec[0].bb in seen
                def leaves_loop(x):
                    # the edge gives the whole walk up (a `return`): it reaches neither the recursion nor the next turn
                    return not any(x == h or ub.can_reach(x, h) for h in heads)
                if any(reach_same_turn(x) for x in ub.succ[bi]) and not all(reach_same_turn(x) or leaves_loop(x) for x in ub.succ[bi]):
                    okb = False
    ctx.ob(R, "bookmark-children-always-visited", okb, "the recursion into the children does not depend on whether the parent bookmark matched", ub.where(),
           what="update_bookmark_pages visits the children of a bookmark only on one outcome of the `page == old` test: a nested bookmark that targets the same page as an ancestor keeps the old id")
    import corerules
    corerules.recursion_arg_order(ctx, F, ["Document::update_bookmark_pages"])
    # the new target of a bookmark is what the rename map holds for its page — the direct result of the lookup, not a lookup
    # filtered by a further condition (every entry of the map is a rename that was applied to the objects)
    for x in lib.stores_to_field(ub, "page", "Bookmark"):
        if x[1] == "T":
            continue
        o = x[2]["rv"].get("o") if x[2]["rv"]["k"] == "use" else None
        src = None
        cur = o
        for _ in range(6):
            q = op_place(cur) if cur is not None else None
            if q is None:
                break
            d = ub.single_def(q["l"])
            if d is None:
                break
            if d[2] == "rv" and d[3]["k"] in ("use", "cast"):
                cur = d[3]["o"]
                continue
            if d[2] == "rv" and d[3]["k"] == "ref":
                cur = {"c": d[3]["p"]}
                continue
            if d[2] == "call":
                src = d[3]["f"].get("fn") or ""
            break
        okl = src is not None and re.search(r"BTreeMap::<.*>::get$|HashMap::<.*>::get$", src) is not None
        ctx.ob(R, "bookmark-target-is-the-map-entry", okl, "Bookmark.page = *replace.get(&page) (value comes straight from %s)" % (src or "?").rsplit("::", 2)[-2:], ub.where(x[2]["ln"]),
               what="update_bookmark_pages does not store the rename map's entry for the bookmark's page as it is (the stored value comes from %s): a rename that was applied to the objects is not applied to the bookmark" % (src or "a value that is not a lookup in the rename map"))
    # max_id
    st = lib.stores_to_field(b, "max_id")
    t = [b.rvname(s[2]["rv"], 4) for s in st if s[1] != "T"]
    ctx.ob(R, "max_id-is-last-number", t == ["Sub(new_id,1)"], "max_id = new_id - 1 (%s)" % t, b.where(),
           what="renumber_objects_with leaves max_id = %s instead of the last assigned number (new_id - 1): later allocations collide with live objects or Size is too small" % t)
    ro = F.fn("Document::renumber_objects")
    c = lib.local_calls(F, ro, "Document::renumber_objects_with")
    ctx.ob(R, "renumber-from-1", len(c) == 1 and ro.oname(c[0].args[1], 2) == "1", "renumber_objects() starts at 1", ro.where(), what="renumber_objects no longer starts at 1")
    # traverse_objects visits each once
    # the function (nested helper, method of a helper struct, or traverse_objects itself) that queues referenced ids
    tro = F.fn("Document::traverse_objects")
    tobj = [F.bodies[q] for q in sorted(F.reach([tro.path])) if any(re.search(r"Vec::<.*>::push$", c.fn or "") and "(u32, u16)" in (c.full or "") for c in F.bodies[q].calls)]
    if len(tobj) != 1:
        raise AnchorLost("the function that queues referenced object ids in traverse_objects was not found (%d candidates)" % len(tobj))
    t0 = tobj[0]
    push = [c for c in t0.calls if re.search(r"Vec::<.*>::push$", c.fn or "")]
    # the membership test that guards the push: `list.contains(id)` (false edge) or `set.insert(id)` (true edge) / `set.contains`;
    # its key must be the whole object id that is pushed (number AND generation), not a part of it
    ok, why = False, "no membership test guards the push"
    if len(push) == 1:
        pv = lib.origin_local(F, t0, push[0].args[1])
        for g, s2 in lib.taken_edges(t0, push[0].bb):
            t = t0.term(g)
            if t["dty"] != "bool":
                continue
            d = t0.def_rv(t["d"])
            if not (d and d[2] == "call"):
                continue
            nm = d[3]["f"].get("fn") or ""
            truth = (t["else"] == s2)
            is_cont = re.search(r"(slice::<impl \[T\]>|Vec::<.*>|HashSet::<.*>|BTreeSet::<.*>)::contains$", nm) and not truth
            is_ins = re.search(r"(HashSet|BTreeSet)::<.*>::insert$", nm) and truth
            if not (is_cont or is_ins):
                continue
            kv = lib.origin_local(F, t0, d[3]["args"][1])
            whole = kv is not None and pv is not None and kv[0] is pv[0] and kv[1] == pv[1] and kv[2] == pv[2]
            full_ty = "(u32, u16)" in (d[3]["f"].get("full") or "")
            if whole and full_ty:
                ok, why = True, ""
            else:
                why = "the membership test is keyed by a part of the object id (%s)" % t0.oname(d[3]["args"][1], 3)
    ctx.ob(R, "each-object-once|traverse_object", ok, "a reference is queued only if its whole id was not seen yet", t0.where(),
           what="traverse_objects: %s — an object can be queued twice or, worse, skipped: a reference with the same number and another generation is renamed but the object it names is never visited" % why)
