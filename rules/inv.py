"""inv.py — R-INV: inventory of panic-capable / unbounded-allocation sites in a scope, with sound local
discharge rules (R-GUARD) and a frozen table for the rest."""
import json, os, re
from collections import Counter, defaultdict
from mir import op_place, op_const, const_int, V
import guard
from guard import Env, Term, knowledge, ty_range, strip_ref, INF

PANIC_CALLS = [
    (re.compile(r"ops::Index(Mut)?::index(_mut)?$"), "index"),
    (re.compile(r"option::Option::<.*>::(unwrap|expect)$"), "unwrap"),
    (re.compile(r"result::Result::<.*>::(unwrap|expect|unwrap_err|expect_err)$"), "unwrap"),
    (re.compile(r"panicking::|begin_panic|rt::panic|assert_failed|unreachable_display|option::unwrap_failed|result::unwrap_failed|::unwrap_unchecked$"), "panic"),
    (re.compile(r"slice::<impl \[T\]>::(copy_from_slice|clone_from_slice|split_at|split_at_mut|swap|rotate_left|rotate_right|copy_within|select_nth_unstable)$"), "slice-op"),
    (re.compile(r"slice::<impl \[T\]>::(chunks|chunks_mut|chunks_exact|chunks_exact_mut|rchunks|rchunks_exact|windows|array_chunks|as_chunks)$"), "chunk-size"),
    (re.compile(r"vec::Vec::<.*>::(remove|insert|swap_remove|drain|split_off|splice|extend_from_within)$"), "vec-op"),
    (re.compile(r"VecDeque::<.*>::(remove|insert|swap|drain|split_off)$"), "vec-op"),
    (re.compile(r"string::String::(remove|insert|insert_str|drain|split_off|replace_range|truncate)$"), "string-op"),
    (re.compile(r"str::<impl str>::(split_at|split_at_mut)$"), "string-op"),
    (re.compile(r"iter::Iterator::(sum|product|step_by)$"), "iter-arith"),
    (re.compile(r"num::<impl \w+>::(pow|abs|div_euclid|rem_euclid|next_power_of_two|ilog|ilog2|ilog10|isqrt|div_ceil|next_multiple_of|abs_diff)$"), "num-op"),
    (re.compile(r"num::<impl \w+>::from_str_radix$"), "radix"),
    (re.compile(r"char::(from_digit|methods::<impl char>::to_digit|methods::<impl char>::is_digit)$"), "radix"),
    (re.compile(r"rangemap::.*::insert$"), "rangemap-insert"),
    (re.compile(r"ops::(Div|Rem|Add|Sub|Mul|Shl|Shr|Neg)::\w+$"), "op-trait"),
    (re.compile(r"cell::RefCell::<.*>::(borrow|borrow_mut)$"), "refcell"),
    (re.compile(r"generic_array::|GenericArray"), "generic-array"),
    (re.compile(r"time::Duration|Instant::(duration_since|elapsed)|SystemTime"), "time"),
    (re.compile(r"array::<impl \[T; N\]>::(each_ref)$"), "never"),
    (re.compile(r"process::(exit|abort)$|intrinsics::abort$"), "abort"),
    (re.compile(r"mem::(transmute|zeroed|uninitialized)$"), "abort"),
    (re.compile(r"thread::(spawn|sleep)|sync::mpsc|Condvar"), "thread"),
]

RELEVANT_ARGS = {"rangemap-insert": (1,)}     # RangeInclusiveMap::insert panics iff start > end

ALLOC_CALLS = [
    (re.compile(r"vec::Vec::<T>::with_capacity$|vec::Vec::<.*>::with_capacity_in$"), "with_capacity", 0),
    (re.compile(r"vec::from_elem$"), "from_elem", 1),
    (re.compile(r"vec::Vec::<.*>::resize$"), "resize", 1),
    (re.compile(r"vec::Vec::<.*>::(reserve|reserve_exact)$"), "reserve", 1),
    (re.compile(r"string::String::(with_capacity)$"), "with_capacity", 0),
    (re.compile(r"string::String::(reserve|reserve_exact)$"), "reserve", 1),
    # (a map sized by a constant or by the length of something that is in memory already is bounded like a Vec is)
    (re.compile(r"(IndexMap|IndexSet|HashMap|HashSet)::<.*>::with_capacity$"), "reserve", 0),
    (re.compile(r"(IndexMap|IndexSet|HashMap|HashSet)::<.*>::(reserve|reserve_exact)$"), "reserve", 1),
    (re.compile(r"slice::<impl \[T\]>::repeat$|str::<impl str>::repeat$"), "repeat", 1),
    (re.compile(r"iter::repeat_n$|iter::Iterator::cycle$|iter::repeat$"), "repeat", -1),
]


_DEREF_RX = re.compile(r"<[^()]*? as std::ops::Deref(?:Mut)?>::deref(?:_mut)?\(|(?<![\w:])(?:as_slice|as_mut_slice|as_bytes)\(")
_INDEX_RX = re.compile(r"<[^()]*? as std::ops::Index(?:Mut)?<I>>::index(?:_mut)?\(")


def strip_views(t):
    """`deref(x)`, `as_slice(x)`, `as_bytes(x)` denote the bytes of x: drop the wrapper (balanced) so that indexing a Vec
    directly and indexing the slice it derefs to give the same key."""
    for _ in range(8):
        m = _DEREF_RX.search(t)
        if not m:
            return t
        i = m.end()
        depth = 1
        j = i
        while j < len(t) and depth:
            if t[j] == "(":
                depth += 1
            elif t[j] == ")":
                depth -= 1
            j += 1
        if depth:
            return t
        t = t[:m.start()] + t[i:j - 1] + t[j:]
    return t


class Site:
    __slots__ = ("body", "fn", "kind", "term", "nterm", "bb", "idx", "ln", "status", "how", "detail", "_why")

    def __init__(self, body, fn, kind, term, bb, idx, ln, nterm=None):
        self.body = body
        self.fn = fn
        self.kind = kind
        self.term = term
        # borrow and deref markers are dropped from the key: `x.len()` inside a closure (captured by reference) and in
        # the enclosing function must give the same key
        self.nterm = _INDEX_RX.sub("index(", strip_views((nterm if nterm is not None else term).replace("&", "").replace("*", "")))
        self.bb = bb
        self.idx = idx
        self.ln = ln
        self.status = None
        self.how = ""
        self.detail = None

    @property
    def file(self):
        return self.body.file

    @property
    def key(self):
        """rename- and move-stable key: source file, construct kind, operand shape with variable names abstracted."""
        return "%s|%s|%s" % (self.body.file, self.kind, self.nterm)

    def where(self):
        return "%s:%d" % (self.body.file, self.ln)


def _index_type(full):
    m = re.search(r"ops::Index(?:Mut)?<(.*)>>::index(?:_mut)?$", full)
    if not m:
        return None
    t = m.group(1)
    t = re.sub(r"\b(std|core)::ops::", "", t)
    return t


def _recv_type(full):
    m = re.match(r"^<(.*) as (std|core)::ops::Index", full)
    return m.group(1) if m else ""


def scan_body(F, b):
    """all candidate sites of one body (RangeFull indexing and debug pointer checks are not sites)."""
    fn = F.canon_of(b)
    sites = []
    for bi in range(b.n):
        t = b.term(bi)
        if t["k"] == "assert":
            ak = t["ak"]
            if ak in ("misaligned", "nullptr"):
                continue
            if ak == "resumed":
                continue      # polling a completed future again is a contract violation of the caller, independent of the input
            term = ",".join(b.oname(o, 3) for o in t["ops"])
            with b.alpha():
                nterm = ",".join(b.oname(o, 3) for o in t["ops"])
            sites.append(Site(b, fn, "assert:" + ak, term, bi, 10**6, t["ln"], nterm))
        elif t["k"] == "call":
            f = t["f"]
            if "ind" in f:
                continue
            nm = f.get("fn") or ""
            res = f.get("res") or ""
            full = f.get("full") or ""
            if f.get("loc") and (res or nm) in F.bodies:
                continue
            kind = None
            for rx, k in PANIC_CALLS:
                if rx.search(nm) or (res and rx.search(res)) or (k == "generic-array" and rx.search(full)):
                    kind = k
                    break
            if kind == "never":
                kind = None
            if kind == "index":
                it = _index_type(full)
                if it is None:
                    it = "?"
                if it == "RangeFull":
                    continue
                kind = "index:%s" % it
                term = ",".join(b.oname(a, 3) for a in t["args"])
                with b.alpha():
                    nterm = ",".join(b.oname(a, 3) for a in t["args"])
                sites.append(Site(b, fn, kind, term, bi, 10**6, t["ln"], nterm))
                continue
            if kind == "op-trait":
                # operator traits on primitive-like foreign types (e.g. Wrapping) — only when not resolved to a local impl
                recv = full
                if re.search(r"^<(u|i)(8|16|32|64|128|size) as", recv) or "&'" in recv[:4]:
                    pass
            if kind == "generic-array":
                if not (nm.endswith("Into::into") or nm.endswith("From::from") or "from_slice" in nm or "clone_from_slice" in nm):
                    kind = None
                elif "GenericArray" not in full.split(" as ")[-1] and "from_slice" not in nm:
                    kind = None
            if kind:
                # operands the panic condition does not depend on are left out of the key (rangemap insert: only the range)
                rel = RELEVANT_ARGS.get(kind)
                term = "%s(%s)" % (short_callee(nm, full), ",".join(b.oname(a, 3) for a in t["args"]))
                with b.alpha():
                    nterm = "%s(%s)" % (short_callee(nm, full), ",".join(b.oname(a, 3) if (rel is None or i in rel) else "_" for i, a in enumerate(t["args"])))
                sites.append(Site(b, fn, "call:" + kind, term, bi, 10**6, t["ln"], nterm))
                continue
            for rx, k, argi in ALLOC_CALLS:
                if rx.search(nm):
                    term = "%s(%s)" % (short_callee(nm, full), ",".join(b.oname(a, 3) for a in t["args"]))
                    with b.alpha():
                        nterm = "%s(%s)" % (short_callee(nm, full), ",".join(b.oname(a, 3) for a in t["args"]))
                    s = Site(b, fn, "alloc:" + k, term, bi, 10**6, t["ln"], nterm)
                    s.detail = argi
                    sites.append(s)
                    break
    return sites


def short_callee(nm, full):
    s = nm.rsplit("::", 1)[-1]
    if nm.endswith("Into::into") or nm.endswith("From::from") or nm.endswith("TryInto::try_into"):
        m = re.match(r"^<(.*?) as .*?(Into|From)<(.*)>>::", full)
        if m:
            return "%s<%s>" % (s, short(m.group(3)))
    m = re.search(r"(\w+)::<[^:]*>::" + re.escape(s) + "$", nm)
    if m:
        return "%s::%s" % (m.group(1), s)
    m = re.search(r"<impl ([^>]+)>::" + re.escape(s) + "$", nm)
    if m:
        return "%s::%s" % (m.group(1), s)
    return s


def short(t):
    return re.sub(r"\b[a-z_]+::", "", t)


# ----------------------------------------------------------------------------- automatic discharge

def array_len(ty):
    m = re.search(r"\[[^;\]]+; (\d+)\]$", ty.strip("&").replace("mut ", ""))
    return int(m.group(1)) if m else None


def discharge(F, s):
    """try to prove the site safe by a sound local rule; sets s.status='auto' and s.how."""
    b = s.body
    env = Env(b)
    t = b.term(s.bb)
    site_pos = (s.bb, s.idx)
    kind = s.kind

    def solver(terms):
        return knowledge(env, s.bb, s.idx, terms)

    try:
        if kind == "assert:bounds":
            ln = env.op_term(t["ops"][0], site_pos)
            ix = env.op_term(t["ops"][1], site_pos)
            S, used, ok = solver([ln, ix])
            if ok(ln) and ok(ix) and S.implies(ix, ln, -1):
                return _auto(s, "index < len implied: " + "; ".join(used[-4:]))
            # constant array length with a typed index range
            if ln.base is None and ok(ix) and S.upper(ix) < ln.off:
                return _auto(s, "index bounded by %s < constant length %d" % (S.upper(ix), ln.off))
            return False
        if kind.startswith("assert:overflow:"):
            op = kind.split(":")[2]
            ops = t["ops"]
            a = env.op_term(ops[0], site_pos)
            aty = env.op_ty(ops[0])
            rng = ty_range(aty or "")
            if rng is None:
                return False
            if op == "Neg":
                S, used, ok = solver([a])
                if ok(a) and S.lower(a) > rng[0]:
                    return _auto(s, "operand > MIN")
                return False
            c = env.op_term(ops[1], site_pos)
            S, used, ok = solver([a, c])
            if not (ok(a) and ok(c)):
                return False
            if op == "Sub":
                if rng[0] == 0:
                    if S.implies(c, a, 0):
                        return _auto(s, "b <= a implied: " + "; ".join(used[-4:]))
                    return False
                lo = S.lower(a) - S.upper(c)
                hi = S.upper(a) - S.lower(c)
                if lo >= rng[0] and hi <= rng[1]:
                    return _auto(s, "difference within [%s, %s]" % (lo, hi))
                return False
            if op == "Add":
                hi = S.upper(a) + S.upper(c)
                lo = S.lower(a) + S.lower(c)
                if hi <= rng[1] and lo >= rng[0]:
                    return _auto(s, "sum bounded by %s <= %s::MAX" % (hi, aty))
                return False
            if op == "Mul":
                ua, uc, la, lc = S.upper(a), S.upper(c), S.lower(a), S.lower(c)
                if la >= 0 and lc >= 0 and ua != INF and uc != INF and ua * uc <= rng[1]:
                    return _auto(s, "product bounded by %s <= %s::MAX" % (ua * uc, aty))
                return False
            if op in ("Div", "Rem"):
                # signed MIN / -1 only
                if rng[0] == 0 or S.lower(c) > -1 or S.upper(c) < -1 or S.lower(a) > rng[0]:
                    return _auto(s, "divisor is not -1 (or dividend > MIN)")
                return False
            if op in ("Shl", "Shr"):
                bits = {"u8": 8, "i8": 8, "u16": 16, "i16": 16, "u32": 32, "i32": 32, "u64": 64, "i64": 64, "usize": 64, "isize": 64, "u128": 128, "i128": 128}.get(aty)
                if bits and S.lower(c) >= 0 and S.upper(c) < bits:
                    return _auto(s, "shift amount < %d" % bits)
                return False
            return False
        if kind in ("assert:div0", "assert:rem0"):
            d = env.op_term(t["ops"][0], site_pos)
            # the assert's operand is the dividend in rustc's AssertKind; the divisor is checked by `cond`: find Eq(divisor, 0)
            cd = b.def_rv(t["cond"])
            if cd and cd[2] == "rv" and cd[3]["k"] == "bin" and cd[3]["op"] == "Eq":
                dv = env.op_term(cd[3]["a"], site_pos)
                S, used, ok = solver([dv])
                if ok(dv) and (S.lower(dv) > 0 or S.upper(dv) < 0):
                    return _auto(s, "divisor non-zero: in [%s, %s]" % (S.lower(dv), S.upper(dv)))
            return False
        if kind == "call:vec-op" and re.search(r"vec::Vec::<.*>::(remove|swap_remove)$", t["f"].get("fn") or "") and len(t["args"]) == 2:
            # `v.remove(i)` panics iff i >= v.len(): the same obligation as `v[i]`
            base = env.op_term(t["args"][0], site_pos)
            ln = Term("len(%s)" % strip_ref(repr(base)), 0, base.reads, "usize")
            ix = env.op_term(t["args"][1], site_pos)
            S, used, ok = solver([ln, ix])
            if ok(ln) and ok(ix) and S.implies(ix, ln, -1):
                return _auto(s, "index < len implied: " + "; ".join(used[-4:]))
            return False
        if kind.startswith("index:"):
            it = kind[6:]
            full = t["f"].get("full") or ""
            recv = _recv_type(full)
            base = env.op_term(t["args"][0], site_pos)
            # maps never auto
            if re.search(r"Map<|HashMap|BTreeMap|IndexMap|str\b|String", short(recv)) and not re.search(r"^\[|Vec<", short(recv)):
                return False
            n = array_len(recv)
            if n is None:
                n = env.array_len(t["args"][0])      # a slice view of an array / GenericArray of known length
            if n is not None:
                ln = Term(None, n)
            else:
                ln = Term("len(%s)" % strip_ref(repr(base)), 0, base.reads, "usize")
            idx = t["args"][1]
            if it == "usize":
                ix = env.op_term(idx, site_pos)
                S, used, ok = solver([ln, ix])
                if ok(ln) and ok(ix) and S.implies(ix, ln, -1):
                    return _auto(s, "index < len implied: " + "; ".join(used[-4:]))
                return False
            ops = range_operands(b, idx)
            if ops is None:
                return False
            need = []
            if it.startswith("RangeFrom<"):
                st = env.op_term(ops[0], site_pos)
                need = [(st, ln, 0)]
            elif it.startswith("RangeTo<"):
                en = env.op_term(ops[0], site_pos)
                need = [(en, ln, 0)]
            elif it.startswith("RangeToInclusive<"):
                en = env.op_term(ops[0], site_pos)
                need = [(en, ln, -1)]
            elif it.startswith("Range<"):
                st = env.op_term(ops[0], site_pos)
                en = env.op_term(ops[1], site_pos)
                need = [(st, en, 0), (en, ln, 0)]
            else:
                return False
            terms = [x for n3 in need for x in n3[:2]]
            S, used, ok = solver(terms)
            if all(ok(x) and ok(y) and S.implies(x, y, c) for x, y, c in need):
                return _auto(s, "range within len implied: " + "; ".join(used[-4:]))
            return False
        if kind == "call:chunk-size":
            sz = env.op_term(t["args"][1], site_pos)
            S, used, ok = solver([sz])
            if ok(sz) and S.lower(sz) >= 1:
                return _auto(s, "chunk size >= 1")
            return False
        if kind == "call:num-op":
            nm = t["f"].get("fn") or ""
            if nm.endswith("::abs"):
                m = re.search(r"<impl (\w+)>::abs$", nm)
                a = env.op_term(t["args"][0], site_pos)
                rng = ty_range(m.group(1)) if m else None
                S, used, ok = solver([a])
                if rng and ok(a) and S.lower(a) > rng[0]:
                    return _auto(s, "abs of a value > MIN (>= %s)" % S.lower(a))
            m = re.search(r"<impl (\w+)>::(div_ceil|div_euclid|rem_euclid)$", nm)
            if m and len(t["args"]) == 2:
                k = env.op_term(t["args"][1], site_pos)
                # a constant divisor >= 1: no division by zero, no MIN / -1 (div_ceil of an unsigned value cannot overflow)
                if k.base is None and k.off >= 1 and (m.group(2) != "div_ceil" or m.group(1).startswith("u")):
                    return _auto(s, "%s by the constant %d" % (m.group(2), k.off))
            return False
        if kind == "call:radix":
            r = env.op_term(t["args"][-1], site_pos)
            if r.base is None and 2 <= r.off <= 36:
                return _auto(s, "constant radix %d" % r.off)
            return False
        if kind == "call:unwrap":
            import lib
            recv = b.oname(t["args"][0], 3)
            nm0 = t["f"].get("fn") or ""
            for c, tr in rendered_guards(b, s.bb):
                m = re.match(r"^(is_none|is_some|is_ok|is_err)\(&?(.*)\)$", c)
                if m and m.group(2) == recv:
                    good = {("is_none", False), ("is_some", True)} if "Option" in nm0 else {("is_ok", True), ("is_err", False)}
                    if nm0.endswith("unwrap_err") or nm0.endswith("expect_err"):
                        good = {("is_err", True), ("is_ok", False)}
                    if (m.group(1), tr) in good:
                        return _auto(s, "dominated by %s(%s) == %s" % (m.group(1), recv, tr))
            # Mutex poisoning: lock()/into_inner() only fail after another thread panicked while holding the lock
            d = b.def_rv(t["args"][0])
            if d and d[2] == "call":
                nm = d[3]["f"].get("fn") or ""
                if nm.endswith("sync::Mutex::<T>::lock") or nm.endswith("sync::Mutex::<T>::into_inner") or "RwLock" in nm:
                    return _auto(s, "lock poisoning presupposes an earlier panic")
            return False
        if kind == "alloc:repeat" and (t["f"].get("fn") or "").endswith("Iterator::cycle"):
            # an endless iterator is harmless when the only thing done with it is take(n) (then bounded adaptors)
            d = t["dest"]
            if not d["p"]:
                us = [u for u in b.uses(d["l"]) if u["kind"] != "drop"]
                if len(us) == 1 and us[0]["kind"] == "arg" and us[0].get("argi", 0) == 0:
                    cs = b.callsite_at(us[0]["bb"])
                    if (cs.fn or "").endswith("Iterator::take"):
                        return _auto(s, "cycle() is consumed by take(n) only")
            return False
        if kind.startswith("alloc:"):
            argi = s.detail
            if argi is None or argi < 0 or argi >= len(t["args"]):
                return False
            szo = t["args"][argi]
            # a quotient is at most its dividend: `with_capacity(n.div_ceil(2))`, `n / 3`, `n >> 1` are bounded by what bounds n
            for _ in range(3):
                q = op_place(szo)
                dq = b.single_def(q["l"]) if q is not None and not q["p"] and q["l"] not in b.names else None
                if dq is None:
                    break
                if dq[2] == "call" and re.search(r"<impl u\w+>::div_ceil$", dq[3]["f"].get("fn") or "") and len(dq[3]["args"]) == 2:
                    kk = env.op_term(dq[3]["args"][1], site_pos)
                    if kk.base is None and kk.off >= 1:
                        szo = dq[3]["args"][0]
                        continue
                if dq[2] == "rv" and dq[3]["k"] == "bin" and dq[3]["op"] in ("Div", "Shr") and b.lty(q["l"]).startswith("u"):
                    kk = env.op_term(dq[3]["b"], site_pos)
                    if kk.base is None and kk.off >= 1:
                        szo = dq[3]["a"]
                        continue
                break
            sz = env.op_term(szo, site_pos)
            S, used, ok = solver([sz])
            if not ok(sz):
                return False
            if sz.base is None and sz.off <= (1 << 20):
                return _auto(s, "constant size %d" % sz.off)
            if sz.base is not None and sz.base.startswith("len(") and sz.off <= 64:
                return _auto(s, "sized by the length of an existing buffer")
            m_ = re.match(r"^_(\d+):len$", sz.base or "")
            if m_ and sz.off <= 64:
                dl = b.single_def(int(m_.group(1)))
                if dl is not None and dl[2] == "call" and re.search(r"(BTreeMap|BTreeSet|HashMap|HashSet|IndexMap|IndexSet|VecDeque|BinaryHeap)::<.*>::len$", dl[3]["f"].get("fn") or ""):
                    return _auto(s, "sized by the number of elements of a collection that is in memory")
            ub = S.upper(sz)
            if ub <= (1 << 20):
                return _auto(s, "size bounded by %s" % ub)
            for n in list(S.nodes):
                if n and re.match(r"^\(?len\(", n) and S.implies(sz, Term(n, 0), 64):
                    return _auto(s, "size bounded by the length of an existing buffer (%s)" % n)
            return False
    except Exception as e:   # a matcher bug must never discharge anything
        s.how = "matcher error: %r" % e
        return False
    return False


def coarse(nterm):
    """outer shape of a term: parenthesised groups from nesting depth 2 on become `(_)`, variable numbers are dropped."""
    out, depth = [], 0
    for ch in nterm:
        if ch == "(":
            depth += 1
            if depth == 2:
                out.append("(_)")
            if depth >= 2:
                continue
        elif ch == ")":
            depth -= 1
            if depth >= 1:
                continue
        if depth >= 2:
            continue
        out.append(ch)
    return re.sub(r"\$\d+", "$", "".join(out))


_CAST_RX = re.compile(r" as ([ui])(8|16|32|64|128|size)\b")
_W = {"8": 8, "16": 16, "32": 32, "64": 64, "128": 128, "size": 64}


def widened_from(site_term, row_term):
    """the site's term is the row's with integer casts to a wider type of the same signedness (and nothing else changed)."""
    va = lambda t_: re.sub(r"\$\d+(\.\w+)*", "$", t_)      # (which variable is which is not compared: a pattern binding and a tuple field are the same operand)
    if _CAST_RX.sub(" as #", va(site_term)) != _CAST_RX.sub(" as #", va(row_term)) or site_term == row_term:
        return None
    cs, cr = _CAST_RX.findall(site_term), _CAST_RX.findall(row_term)
    if len(cs) != len(cr) or not cs:
        return None
    for (ss, ws), (sr, wr) in zip(cs, cr):
        if ss != sr or _W[ws] < _W[wr]:
            return None
    return [sr + wr for sr, wr in cr]


def casts_lossless_into(s, row_tys):
    """every integer cast behind the operands of the site's assert converts from a type whose whole range fits the type the
    reviewed code cast to: both casts keep the value, so the site computes on the same numbers as the reviewed one (in a
    wider type)."""
    b = s.body
    t = b.term(s.bb)
    if t["k"] != "assert":
        return False
    env = Env(b)
    found = []

    def walk(o, depth):
        p = op_place(o)
        if p is None or depth <= 0:
            return
        q = {"l": p["l"], "p": []} if p["p"] and isinstance(p["p"][0], dict) and p["p"][0].get("f") == 0 else (p if not p["p"] else None)
        if q is None or q["l"] in b.names or q["l"] <= b.argc:
            return
        d = b.single_def(q["l"])
        if d is None:
            return
        if d[2] == "rv":
            rv = d[3]
            if rv["k"] == "cast" and rv["kind"].startswith("IntToInt"):
                found.append(env.op_ty(rv["o"]))
                walk(rv["o"], depth - 1)
            elif rv["k"] == "use":
                walk(rv["o"], depth - 1)
            elif rv["k"] == "bin":
                walk(rv["a"], depth - 1)
                walk(rv["b"], depth - 1)
        elif d[2] == "call":
            if re.search(r"^<[ui](8|16|32|64|128|size) as (std|core)::convert::From<[ui](8|16|32|64|128|size)>>::from$", d[3]["f"].get("full") or "") and len(d[3]["args"]) == 1:
                found.append(env.op_ty(d[3]["args"][0]))      # `u64::from(x)` is the lossless cast it stands for
            for a in d[3]["args"]:
                walk(a, depth - 1)
    for o in t["ops"]:
        walk(o, 5)
    if len(found) != len(row_tys):
        return False
    for src, rt in zip(found, row_tys):
        rs, rr = ty_range(src or ""), ty_range(rt)
        if not (rs and rr and rs[0] >= rr[0] and rs[1] <= rr[1]):
            return False
    return True


def _auto(s, how):
    s.status = "auto"
    s.how = how
    return True


def range_operands(b, o):
    """operands of the Range*/RangeFrom aggregate behind operand o."""
    p = op_place(b.resolve_copy(o))
    if p is None or p["p"]:
        return None
    d = b.single_def(p["l"])
    if d is None or d[2] != "rv" or d[3]["k"] != "agg":
        return None
    return d[3]["ops"]


# ----------------------------------------------------------------------------- table

def closure_creation_blocks(F, closure_body):
    """(parent body, block) pairs where the closure value is constructed."""
    out = []
    par = closure_body.path.rsplit("::{closure", 1)[0]
    pb = F.bodies.get(par)
    # the syntactic parent, or (when that was a helper inlined into its callers) every body that creates the closure
    cands = [pb] if pb is not None else [b for b in F.bodies.values() if b.file == closure_body.file]
    for pb in cands:
        for bi, si, st in pb.stmts():
            rv = st.get("rv")
            if rv and rv["k"] == "agg" and rv["kind"].get("a") == "closure" and rv["kind"]["def"] == closure_body.path:
                out.append((pb, bi))
    return out


def rendered_guards(b, bb, norm=False):
    """[(rendered condition, truth)] for every two-way branch whose taken edge dominates bb."""
    import lib
    out = []
    for g, s2 in lib.taken_edges(b, bb):
        t = b.term(g)
        if norm:
            with b.alpha():
                r = b.oname(t["d"], 5)
        else:
            r = b.oname(t["d"], 5)
        if t["dty"] == "bool":
            truth = (t["else"] == s2)
            out.append((r, truth))
        else:
            for v, x in t["tg"]:
                if x == s2:
                    out.append(("%s==%s" % (r, v), True))
            if t["else"] == s2:
                out.append(("%s==other" % r, True))
    return out


def verify_guards(F, s, guards):
    """re-verify the machine-checkable part of a tabled argument; returns (ok, why)."""
    b = s.body
    for g in guards:
        kind = g["kind"]
        if kind == "dominating":
            where = g.get("where", "self")
            places = [(b, s.bb)] if where == "self" else closure_creation_blocks(F, b)
            if not places:
                return False, "closure creation site not found for %s" % b.path
            rx = re.compile(g["cond"])
            for pb, bb in places:
                if not any(rx.search(c) and (("truth" not in g) or tr == g["truth"]) for c, tr in rendered_guards(pb, bb, norm=True)):
                    return False, "no dominating branch on /%s/ (%s) in %s" % (g["cond"], g.get("truth", "any"), F.canon_of(pb))
        elif kind == "exists":
            fb = F.fn(g["fn"])
            rx = re.compile(g["cond"])
            found = False
            for body in F.with_closures(fb):
                for bi in range(body.n):
                    t = body.term(bi)
                    if t["k"] == "switch":
                        with body.alpha():
                            r = body.oname(t["d"], 5)
                        if rx.search(r):
                            found = True
            if not found:
                return False, "%s no longer branches on /%s/" % (g["fn"], g["cond"])
        elif kind == "call-arg":
            fb = None
            if g.get("fn") == "parent":
                cc = closure_creation_blocks(F, b)
                fb = cc[0][0] if cc else None
            else:
                fb = F.fn(g["fn"]) if g.get("fn") else b
            if fb is None:
                return False, "parent not found"
            rx = re.compile(g["callee"])
            mx = re.compile(g["matches"])
            hit = False
            for c in fb.calls:
                if rx.search(c.fn or "") or rx.search(c.name or ""):
                    if g["arg"] < len(c.args):
                        with fb.alpha():
                            r = fb.oname(c.args[g["arg"]], 6)
                        if mx.search(r):
                            hit = True
            if not hit:
                return False, "no call /%s/ with argument %d matching /%s/ in %s" % (g["callee"], g["arg"], g["matches"], F.canon_of(fb))
        elif kind == "reset-at-limit":
            # "the counter starts over when it reaches `limit`": the local of the `== limit` test is assigned 0 on the edge on
            # which the test holds (in a block that the true edge dominates), not merely compared
            fb = F.fn(g["fn"])
            okr = False
            for bi in range(fb.n):
                t_ = fb.term(bi)
                if t_["k"] != "switch":
                    continue
                d_ = fb.def_rv(t_["d"])
                if not (d_ and d_[2] == "rv" and d_[3]["k"] == "bin" and d_[3]["op"] == "Eq" and const_int(op_const(d_[3]["b"])) == g["limit"]):
                    continue
                q_ = op_place(fb.resolve_copy(d_[3]["a"]))
                if q_ is None or q_["p"]:
                    continue
                tb = t_["else"]            # `switch cond -> [0: false-edge] else true-edge`
                for bj, sj, st_ in fb.stmts():
                    if "lhs" in st_ and st_["lhs"]["l"] == q_["l"] and not st_["lhs"]["p"] and st_["rv"]["k"] == "use" and const_int(op_const(st_["rv"]["o"])) == 0 \
                            and (bj == tb or fb.dominates(tb, bj)):
                        okr = True
            if not okr:
                return False, "%s no longer sets the counter back to 0 where it has reached %d: it grows past the bound the argument relies on" % (g["fn"], g["limit"])
        elif kind == "reset-together":
            # a counter compared with `limit` bounds an accumulator only if the two start over together: wherever the counter
            # (the local of the `== limit` test) is set to 0, the accumulator (the local that is multiplied by `factor`) is set
            # to 0 in the same block — or both are set by one whole assignment that was split (same line)
            fb = F.fn(g["fn"])
            cnts, accs = set(), set()
            for bi in range(fb.n):
                t_ = fb.term(bi)
                if t_["k"] == "switch":
                    d_ = fb.def_rv(t_["d"])
                    if d_ and d_[2] == "rv" and d_[3]["k"] == "bin" and d_[3]["op"] == "Eq" and const_int(op_const(d_[3]["b"])) == g["limit"]:
                        q_ = op_place(fb.resolve_copy(d_[3]["a"]))
                        if q_ is not None and not q_["p"]:
                            cnts.add(q_["l"])
                if t_["k"] == "assert" and t_["ak"] == "overflow:Mul" and const_int(op_const(t_["ops"][1])) == g["factor"]:
                    q_ = op_place(fb.resolve_copy(t_["ops"][0]))
                    if q_ is not None and not q_["p"]:
                        accs.add(q_["l"])
            if len(cnts) != 1 or len(accs) != 1:
                return False, "counter / accumulator of %s not found (%d / %d)" % (g["fn"], len(cnts), len(accs))
            cnt, acc = next(iter(cnts)), next(iter(accs))
            zero = lambda st_, l_: "lhs" in st_ and st_["lhs"]["l"] == l_ and not st_["lhs"]["p"] and st_["rv"]["k"] == "use" and const_int(op_const(st_["rv"]["o"])) == 0
            for bi in range(fb.n):
                sts = fb.blocks[bi]["st"]
                if any(zero(st_, cnt) for st_ in sts) and not any(zero(st_, acc) for st_ in sts):
                    ln_ = [st_["ln"] for st_ in sts if zero(st_, cnt)][0]
                    return False, "%s starts the counter %s over at line %d without starting the accumulator %s over with it: the next %d bytes are added on top of the old value" % (
                        g["fn"], fb.lname(cnt), ln_, fb.lname(acc), g["limit"])
        elif kind == "no-surrogates":
            # every [Option<u16>; 256] encoding table of the crate is free of surrogate values (evaluated from the constants)
            n = 0
            for name, c in F.consts.items():
                if c.get("ty") == "[std::option::Option<u16>; 256]" and "raw" in c and c.get("size") == 1024:
                    raw = bytes.fromhex(c["raw"])
                    n += 1
                    for i in range(256):
                        tag = int.from_bytes(raw[4 * i:4 * i + 2], "little")
                        val = int.from_bytes(raw[4 * i + 2:4 * i + 4], "little")
                        if tag == 1 and 0xD800 <= val <= 0xDFFF:
                            return False, "%s maps byte %02X to the surrogate %04X" % (name, i, val)
            if n < g.get("min_tables", 1):
                return False, "found %d encoding tables, expected at least %d" % (n, g.get("min_tables", 1))
        else:
            return False, "unknown guard kind %s" % kind
    return True, "guards re-verified"


def load_table(name):
    p = os.path.join(V, "tables", name)
    if not os.path.exists(p):
        return {}
    with open(p) as f:
        return json.load(f)


def inventory(ctx, F, scope, table, rule="R-INV", kinds=None):
    """scan the scope, discharge automatically, match the rest against the table.
    table: {fn: [{kind, term, n, reason}]}.  Returns (sites, stats)."""
    sites = []
    for p in sorted(scope):
        b = F.bodies[p]
        sites.extend(scan_body(F, b))
    if kinds:
        sites = [s for s in sites if kinds(s)]
    stats = Counter()
    remaining = defaultdict(list)
    for s in sites:
        if discharge(F, s):
            stats["auto"] += 1
            ctx.obligations.append({"rule": rule, "key": s.key, "status": "discharged", "how": "AUTO: " + s.how, "where": s.where(), "nontrivial": True})
        else:
            remaining[(s.body.file, s.kind, s.nterm)].append(s)
    # table lookup is by multiset over (file, kind, name-abstracted term): n sites with this signature were confirmed
    # by hand.  A row may carry machine-checkable guards; a site is matched to a row whose guards verify.
    tab = defaultdict(list)
    for fkey, rows in table.items():
        for r in rows:
            tab[(r.get("file", fkey), r["kind"], r["nterm"] if "nterm" in r else r.get("term"))].append(dict(r, _left=r["n"]))
    # two passes: exact key first; then, for what is left, a reviewed row of the SAME function with the same kind and the
    # same outer shape (inner operands abstracted).  The second pass keeps a site matched to its reviewed argument when
    # only the spelling of an operand changed (`x.unwrap_or(id)` -> a `match` bound to a local); the number of sites per
    # function and shape stays exact.
    order = [(key, s_, False) for key, ss in sorted(remaining.items()) for s_ in ss]
    second = []
    all_rows = [r for rows_ in tab.values() for r in rows_]
    qi = 0
    while qi < len(order):
        key, s, fallback = order[qi]
        qi += 1
        if not fallback:
            # rows reviewed for this very function first: two functions of one file may share a key, and a row consumed by
            # the wrong one would be missing when its own function has moved to another file
            root0 = s.fn.split("::{closure")[0]
            rows = sorted(tab.get(key, []), key=lambda r: 0 if any(x.split("::{closure")[0] == root0 for x in r.get("in", [])) else 1)
        else:
            # (a) the same function, kind and term in another file (the function was moved); (b) same function, kind, outer shape
            root = s.fn.split("::{closure")[0]
            same_fn = [r for r in all_rows if r["kind"] == s.kind and any(x.split("::{closure")[0] == root for x in r.get("in", []))]
            rows = [r for r in same_fn if (r["nterm"] if "nterm" in r else r.get("term", "")) == s.nterm] + \
                   [r for r in same_fn if coarse(r["nterm"] if "nterm" in r else r.get("term", "")) == coarse(s.nterm)]
            # (c) the same term computed in a wider integer type: every cast goes to a wider type than the reviewed one and
            # both keep the value of what they convert — the reviewed bound on the operands holds with room to spare
            if not rows:
                cands_ = [s.nterm]
                t_ = s.body.term(s.bb)
                if t_["k"] == "assert":
                    # ... also when a factor got a name of its own (`let weight = 256u64.pow(i)`): the structural rendering looks through it
                    with s.body.alpha():
                        alt_ = ",".join(s.body.sname(o, 4) for o in t_["ops"])
                    cands_.append(_INDEX_RX.sub("index(", strip_views(alt_.replace("&", "").replace("*", ""))))
                for r in same_fn:
                    for ct_ in cands_:
                        wt = widened_from(ct_, r["nterm"] if "nterm" in r else r.get("term", ""))
                        if wt and casts_lossless_into(s, wt) and r not in rows:
                            rows.append(r)
        if True:
            done = False
            why = []
            for r in rows:
                if r["_left"] <= 0:
                    continue
                gok, gwhy = (True, "")
                # a reviewed "this cannot overflow" argument about a counter holds for the width it was reviewed at: a counter
                # of fewer than 32 bits needs a machine-checked bound of its own (guards), or the row does not apply
                if s.kind.startswith("assert:overflow:") and not r.get("narrow_ok"):
                    try:
                        aty_ = Env(s.body).op_ty(s.body.term(s.bb)["ops"][0])
                    except Exception:
                        aty_ = None
                    bounded_ = False
                    if aty_ in ("u8", "i8", "u16", "i16"):
                        # ... unless the function compares this very counter with a constant the type has room above
                        tmax_ = {"u8": 255, "i8": 127, "u16": 65535, "i16": 32767}[aty_]
                        nm_ = s.body.oname(s.body.term(s.bb)["ops"][0], 2).strip("&*")
                        for bi_ in range(s.body.n):
                            t_ = s.body.term(bi_)
                            if t_["k"] != "switch":
                                continue
                            m_ = re.match(r"^(?:Gt|Ge|Eq|Lt|Le|Ne)\(\*?%s,(\d+)\)$" % re.escape(nm_), s.body.oname(t_["d"], 3).replace("&", ""))
                            if m_ and int(m_.group(1)) < tmax_:
                                bounded_ = True
                    if aty_ in ("u8", "i8", "u16", "i16") and not bounded_:
                        why.append(("the operand is of type %s and the function compares it with no constant the type has room above: the reviewed argument was about a counter that cannot reach the end of its type" % aty_, r["reason"]))
                        continue
                if r.get("guards"):
                    try:
                        gok, gwhy = verify_guards(F, s, r["guards"])
                    except Exception as e:
                        gok, gwhy = False, "guard spec could not be evaluated: %r" % e
                if not gok:
                    why.append((gwhy, r["reason"]))
                    continue
                r["_left"] -= 1
                s.status = "tabled"
                s.how = r["reason"] + (" [guards re-verified]" if r.get("guards") else "")
                stats["tabled"] += 1
                stats["tabled_guarded"] += 1 if r.get("guards") else 0
                ctx.obligations.append({"rule": rule, "key": s.key, "status": "discharged", "how": "TABLED: " + s.how, "where": s.where(), "nontrivial": True})
                done = True
                break
            if done:
                continue
            if not fallback:
                order.append((key, s, True))
                s._why = why
                continue
            why = getattr(s, "_why", None) or why
            s.status = "open"
            stats["open"] += 1
            if why:
                ctx.finding(rule, s.key, "the reviewed argument for %s site `%s` in %s no longer holds: %s (argument: %s)" % (s.kind, s.term, s.fn, why[0][0], why[0][1]), s.where(),
                            detail={"kind": s.kind, "term": s.term, "function": s.fn, "guard": why[0][0]})
            else:
                ctx.finding(rule, s.key, "unreviewed %s site in %s: %s" % (s.kind, s.fn, s.term), s.where(),
                            detail={"kind": s.kind, "term": s.term, "nterm": s.nterm, "function": s.fn, "hint": s.how})
    stats["sites"] = len(sites)
    return sites, stats
