"""lib.py — reusable rule families over mir facts: R-ERR, R-WHO, R-ORDER helpers, R-DEAD, format decoding."""
import re
from mir import op_place, op_const, const_int, const_bytes, match_name, AnchorLost

# ----------------------------------------------------------------------------- R-ERR

PROPAGATING = ("::map_err", "::map", "::and_then", "::or_else", "::or", "::inspect_err", "::inspect", "::with_context", "::context")
SWALLOWING = ("::ok", "::unwrap_or_default", "::unwrap_or", "::unwrap_or_else", "::is_ok", "::is_err", "::err", "::is_ok_and",
              "::is_err_and", "::map_or", "::map_or_else", "::iter", "::unwrap_unchecked")
PANICKING = ("::unwrap", "::expect", "::unwrap_err", "::expect_err")


def is_result_ty(t):
    return t.startswith("std::result::Result<") or t.startswith("core::result::Result<") or t.startswith("Result<")


def result_err_ty(t):
    """error type argument of a printed Result type (best effort: text after the top-level comma)."""
    m = re.match(r"^(?:std|core)::result::Result<(.*)>$", t)
    if not m:
        return ""
    inner = m.group(1)
    d = 0
    for i, ch in enumerate(inner):
        if ch in "<([":
            d += 1
        elif ch in ">)]":
            d -= 1
        elif ch == "," and d == 0:
            return inner[i + 1:].strip()
    return ""


def callee_tail(c):
    n = c.fn or c.name
    return n


def result_disposition(body, local, depth=0, seen=None):
    """what happens to the Result held in `local`:
    returns (verdict, why) with verdict in {'propagated','returned','err-extracted','swallowed','panics','dropped','escapes'}."""
    seen = seen or set()
    if local in seen or depth > 8:
        return ("escapes", "cycle")
    seen = seen | {local}
    uses = body.uses(local)
    verdicts = []
    for u in uses:
        k = u["kind"]
        if k == "drop" or k == "discr" or k == "switch":
            continue
        if k == "store-proj":
            continue
        if k == "arg" and u["whole"]:
            c = body.callsite_at(u["bb"])
            n = c.fn or c.name
            full = c.full or n
            if "ops::Try>::branch" in full or n.endswith("Try::branch"):
                verdicts.append(("propagated", "? operator"))
            elif "FromResidual" in full or n.endswith("from_residual"):
                verdicts.append(("propagated", "from_residual"))
            elif "result::Result" in n or "result::Result" in full or n.startswith("std::result") or "Result::<" in full:
                tail = "::" + n.rsplit("::", 1)[-1]
                if tail in PANICKING:
                    verdicts.append(("panics", n))
                elif tail in SWALLOWING:
                    verdicts.append(("swallowed", n))
                elif tail in PROPAGATING:
                    d = c.dest
                    if not d["p"]:
                        verdicts.append(result_disposition(body, d["l"], depth + 1, seen))
                    else:
                        verdicts.append(("escapes", "stored"))
                else:
                    verdicts.append(("escapes", n))
            else:
                # passed by value to some other function (e.g. convert_result, Ok-wrapping): treat the callee's result as the carrier
                d = c.dest
                if not d["p"] and is_result_ty(body.lty(d["l"])):
                    verdicts.append(result_disposition(body, d["l"], depth + 1, seen))
                else:
                    verdicts.append(("escapes", n))
        elif k == "rv":
            s = u["stmt"]
            lhs = s["lhs"]
            if u["whole"]:
                if lhs["l"] == 0:
                    verdicts.append(("returned", "assigned to the return place"))
                elif not lhs["p"]:
                    verdicts.append(result_disposition(body, lhs["l"], depth + 1, seen))
                else:
                    verdicts.append(("escapes", "stored into " + body.pname(lhs)))
            else:
                # projection read: (local as Err).0 extracted => handled by hand
                pr = u["place"]["p"]
                if pr and isinstance(pr[0], dict) and pr[0].get("down") == "Err":
                    verdicts.append(("err-extracted", "Err payload read"))
        elif k == "ref":
            # borrowed (e.g. `if let Err(ref e) = r`): look at how the borrow is used? conservatively neutral
            if not u["whole"]:
                pr = u["place"]["p"]
                if pr and isinstance(pr[0], dict) and pr[0].get("down") == "Err":
                    verdicts.append(("err-extracted", "Err payload borrowed"))
            else:
                verdicts.append(("escapes", "borrowed"))
    if local == 0:
        return ("returned", "is the return place")
    if not verdicts:
        return ("dropped", "the value is never used")
    order = ["panics", "swallowed", "dropped", "escapes", "err-extracted", "returned", "propagated"]
    # every consuming use must be fine; pick the worst
    verdicts.sort(key=lambda v: order.index(v[0]))
    return verdicts[0]


def result_calls(body, err_pred):
    """call sites in `body` producing a Result whose error type satisfies err_pred, excluding ?-plumbing."""
    out = []
    for c in body.calls:
        d = c.dest
        ty = body.lty(d["l"]) if not d["p"] else None
        if ty is None:
            # destination is a projection (rare): look at the callee's printed name only
            continue
        if not is_result_ty(ty):
            continue
        n = c.fn or c.name
        full = c.full or ""
        if "ops::Try>::branch" in full or "FromResidual" in full:
            continue
        if not err_pred(result_err_ty(ty), ty):
            continue
        out.append(c)
    return out


# ----------------------------------------------------------------------------- field access (R-WHO)

def field_accesses(body, adt_suffix, field):
    """yield (bb, kind, where-line) for every access to `<adt>.field`; kind in read/write/borrow/borrow_mut."""
    def has(p):
        for i, e in enumerate(p["p"]):
            if isinstance(e, dict) and "f" in e and e["n"] == field and adt_matches(e["adt"], adt_suffix):
                return i
        return None

    for bi, si, s in body.stmts():
        if "lhs" not in s:
            continue
        lhs = s["lhs"]
        i = has(lhs)
        if i is not None:
            # a store *through* the field (deeper projection) still mutates it
            yield (bi, "write", s["ln"], s)
        rv = s["rv"]
        k = rv["k"]
        ops = []
        if k in ("use", "cast", "un", "repeat"):
            ops = [rv["o"]]
        elif k == "bin":
            ops = [rv["a"], rv["b"]]
        elif k == "agg":
            ops = rv["ops"]
        for o in ops:
            p = op_place(o)
            if p is not None and has(p) is not None:
                yield (bi, "move" if "m" in o else "read", s["ln"], s)
        if k in ("ref", "rawptr") and has(rv["p"]) is not None:
            yield (bi, "borrow_mut" if rv.get("mut") or k == "rawptr" else "borrow", s["ln"], s)
        if k == "discr" and has(rv["p"]) is not None:
            yield (bi, "read", s["ln"], s)
    for bi in range(body.n):
        t = body.blocks[bi]["t"]
        if t["k"] == "call":
            for o in t["args"]:
                p = op_place(o)
                if p is not None and has(p) is not None:
                    yield (bi, "move" if "m" in o else "read", t["ln"], t)
            if has(t["dest"]) is not None:
                yield (bi, "write", t["ln"], t)
        elif t["k"] == "drop" and has(t["p"]) is not None:
            yield (bi, "drop", t["ln"], t)


def adt_matches(adt, suffix):
    adt = adt.split("::")
    # ignore a trailing variant name for enums
    return suffix in adt


def struct_literals(body, adt_suffix):
    """aggregate constructions of a local ADT: yields (bb, stmt, {field: operand})."""
    for bi, si, s in body.stmts():
        rv = s.get("rv")
        if rv and rv["k"] == "agg" and rv["kind"].get("a") == "adt" and adt_matches(rv["kind"]["adt"], adt_suffix):
            yield bi, s, dict(zip(rv["kind"]["fields"], rv["ops"]))


# ----------------------------------------------------------------------------- format_args! decoding

FLAG_PLUS, FLAG_MINUS, FLAG_ALT, FLAG_ZERO = 1 << 21, 1 << 22, 1 << 23, 1 << 24
FLAG_WIDTH, FLAG_PREC = 1 << 27, 1 << 28


def decode_template(tpl):
    """decode core::fmt's packed template (documented in library/core/src/fmt/mod.rs of the pinned toolchain)
    into a list of pieces: ('lit', bytes) | ('arg', {index, fill, align, zero, plus, alt, width, precision})."""
    out = []
    i = 0
    argi = 0
    while i < len(tpl):
        n = tpl[i]
        i += 1
        if n == 0:
            break
        if n < 0x80:
            out.append(("lit", bytes(tpl[i:i + n])))
            i += n
        elif n == 0x80:
            ln = tpl[i] | (tpl[i + 1] << 8)
            i += 2
            out.append(("lit", bytes(tpl[i:i + ln])))
            i += ln
        else:
            spec = {"index": None, "fill": " ", "align": None, "zero": False, "plus": False, "alt": False, "width": None, "precision": None,
                    "dyn_width": False, "dyn_precision": False}
            if n & 1:
                fl = int.from_bytes(tpl[i:i + 4], "little")
                i += 4
                spec["fill"] = chr(fl & 0x1FFFFF)
                spec["plus"] = bool(fl & FLAG_PLUS)
                spec["alt"] = bool(fl & FLAG_ALT)
                spec["zero"] = bool(fl & FLAG_ZERO)
                spec["align"] = {0: "<", 1: ">", 2: "^", 3: None}[(fl >> 29) & 3]
            if n & 2:
                spec["width"] = int.from_bytes(tpl[i:i + 2], "little")
                i += 2
            if n & 4:
                spec["precision"] = int.from_bytes(tpl[i:i + 2], "little")
                i += 2
            if n & 8:
                argi = int.from_bytes(tpl[i:i + 2], "little")
                i += 2
            spec["dyn_width"] = bool(n & 16)
            spec["dyn_precision"] = bool(n & 32)
            spec["index"] = argi
            argi += 1
            out.append(("arg", spec))
    return out


def format_sites(body):
    """every format_args! in `body`: dict(bb, ln, pieces, args=[(trait, type)], consumer=callsite or None).
    args come from the `Argument::new_<trait>::<T>` constructor calls feeding the argument array."""
    sites = []
    for c in body.calls:
        n = c.fn or c.name
        if n.endswith("fmt::Arguments::<'a>::new") or re.search(r"fmt::Arguments::<'.*>::new$", n) or n.endswith("Arguments::new"):
            tpl = None
            for a in c.args[:1]:
                o = body.resolve_copy(a)
                k = op_const(o)
                if k is None:
                    d = body.def_rv(a)
                    if d and d[2] == "rv" and d[3]["k"] == "ref":
                        # &*const
                        pass
                tpl = _const_bytes_through(body, a)
            if tpl is None:
                raise AnchorLost("format template not constant in %s" % body.path)
            args = _format_args_array(body, c.args[1])
            sites.append(dict(bb=c.bb, ln=c.ln, pieces=decode_template(tpl), args=args, dest=c.dest, call=c))
        elif n.endswith("Arguments::<'a>::from_str") or n.endswith("Arguments::from_str") or re.search(r"fmt::Arguments::<'.*>::from_str$", n):
            lit = _const_bytes_through(body, c.args[0])
            if lit is None:
                raise AnchorLost("format literal not constant in %s" % body.path)
            sites.append(dict(bb=c.bb, ln=c.ln, pieces=[("lit", lit)] if lit else [], args=[], dest=c.dest, call=c))
    return sites


def _const_bytes_through(body, o, depth=8):
    """constant byte string behind an operand, through copies, unsizing casts, re-borrows, `&LIT[..]` and as_slice/as_bytes."""
    for _ in range(depth):
        k = op_const(o)
        if k is not None:
            r = const_bytes(k)
            if r is None and k.get("def"):
                v = named_const_value(body.facts, k)
                r = v if isinstance(v, bytes) else None
            return r
        p = op_place(o)
        if p is None:
            return None
        d = body.single_def(p["l"])
        if d is None:
            return None
        if d[2] == "call":
            t = d[3]
            nm = t["f"].get("fn") or ""
            full = t["f"].get("full") or ""
            if (nm.endswith("ops::Index::index") and "RangeFull" in full) or nm.rsplit("::", 1)[-1] in ("as_slice", "as_bytes", "as_ref", "deref"):
                o = t["args"][0]
                continue
            mb_ = re.search(r"num::<impl (u8|u16|u32|u64)>::to_(be|le)_bytes$", nm)
            if mb_ and len(t["args"]) == 1:
                kv = op_const(body.resolve_copy(t["args"][0]))
                iv = const_int(kv) if kv is not None else None
                if iv is not None and iv >= 0:
                    return iv.to_bytes(int(mb_.group(1)[1:]) // 8, "big" if mb_.group(2) == "be" else "little")
            return None
        rv = d[3]
        if rv["k"] == "use" or rv["k"] == "cast":
            o = rv["o"]
        elif rv["k"] == "ref":
            inner = rv["p"]
            if any(e != "*" for e in inner["p"]):
                return None
            # &(*_x) where _x = const
            o = {"c": {"l": inner["l"], "p": []}}
        elif rv["k"] == "agg" and rv["kind"].get("a") == "array" and rv["ops"] and re.match(r"^\[u8; \d+\]$", body.lty(p["l"]) or ""):
            # a byte array written out element by element
            vs = [const_int(op_const(body.resolve_copy(x))) if op_const(body.resolve_copy(x)) is not None else None for x in rv["ops"]]
            if any(v is None or not (0 <= v < 256) for v in vs):
                return None
            return bytes(vs)
        else:
            return None
    return None


class FmtArg(tuple):
    """(trait, type) with the constant value of the argument when it is a literal (`.value`) and its operand (`.operand`)."""
    def __new__(cls, t, value=None, operand=None):
        o = super().__new__(cls, t)
        o.value = value
        o.operand = operand
        return o


def _const_int_through(body, o, depth=8):
    for _ in range(depth):
        k = op_const(o)
        if k is not None:
            if "refint" in k:
                return int(k["refint"])
            if const_int(k) is None and k.get("def"):
                v = named_const_value(body.facts, k)
                return v if isinstance(v, int) else None
            return const_int(k)
        p = op_place(o)
        if p is None:
            return None
        d = body.single_def(p["l"])
        if d is None or d[2] != "rv":
            return None
        rv = d[3]
        flds = [e for e in p["p"] if e != "*"]
        if flds:
            e = flds[0]
            if len(flds) == 1 and rv["k"] == "agg" and isinstance(e, dict) and "f" in e and e["f"] < len(rv["ops"]):
                o = rv["ops"][e["f"]]
                continue
            return None
        if rv["k"] in ("use", "cast"):
            o = rv["o"]
        elif rv["k"] == "ref":
            o = {"c": {"l": rv["p"]["l"], "p": [e for e in rv["p"]["p"] if e != "*"]}}
            if o["c"]["p"]:
                # &(tuple.N): follow the aggregate
                dd = body.single_def(o["c"]["l"])
                e = o["c"]["p"][0]
                if dd and dd[2] == "rv" and dd[3]["k"] == "agg" and isinstance(e, dict) and "f" in e and e["f"] < len(dd[3]["ops"]) and len(o["c"]["p"]) == 1:
                    o = dd[3]["ops"][e["f"]]
                    continue
                return None
        else:
            return None
    return None


def _format_args_array(body, o):
    """[(trait, ty)] for the array of fmt::rt::Argument behind operand `o` (a &[Argument; N])."""
    # o -> &_arr ; _arr = [a0, a1, ..] ; ai = Argument::new_xxx::<T>(..)
    p = op_place(body.resolve_copy(o))
    for _ in range(4):
        d = body.single_def(p["l"]) if p is not None else None
        if d is None:
            return None
        if d[2] == "rv" and d[3]["k"] == "ref":
            p = d[3]["p"]
            continue
        if d[2] == "rv" and d[3]["k"] in ("use", "cast"):
            p = op_place(d[3]["o"])
            continue
        if d[2] == "rv" and d[3]["k"] == "agg":
            res = []
            for el in d[3]["ops"]:
                ed = body.def_rv(el)
                if ed and ed[2] == "call":
                    f = ed[3]["f"]
                    full = f.get("full", "")
                    m = re.search(r"Argument::<'.*?>::new_(\w+)::<(.+)>$", full)
                    if m:
                        res.append(FmtArg((m.group(1), m.group(2)), _const_int_through(body, ed[3]["args"][0]), ed[3]["args"][0]))
                        continue
                res.append(("?", "?"))
            return res
        return None
    return None


INT_MAX_DIGITS = {"u8": 3, "u16": 5, "u32": 10, "u64": 20, "usize": 20, "i8": 4, "i16": 6, "i32": 11, "i64": 20, "isize": 20}


def render_width(spec, trait, ty):
    """(min_len, max_len) in bytes of one formatted integer/str argument, None if unknown."""
    if trait == "display" and ty in INT_MAX_DIGITS:
        lo, hi = 1, INT_MAX_DIGITS[ty]
        if spec["plus"]:
            lo, hi = lo + 1, hi + 1
        w = spec["width"] or 0
        return (max(lo, w), max(hi, w))
    if trait in ("upper_hex", "lower_hex") and ty in ("u8", "u16", "u32", "u64"):
        hi = {"u8": 2, "u16": 4, "u32": 8, "u64": 16}[ty]
        w = spec["width"] or 0
        return (max(1, w), max(hi, w))
    return None


# ----------------------------------------------------------------------------- byte-string matches known at a block

def taken_edges(b, site_bb):
    """(guard block, successor) pairs such that the edge dominates site_bb."""
    out = []
    for g in sorted(b.dom.get(site_bb, ())):
        t = b.term(g)
        if t["k"] != "switch":
            continue
        succs = [x for _, x in t["tg"]] + [t["else"]]
        for s in set(succs):
            if succs.count(s) == 1 and (s == site_bb or b.dominates(s, site_bb)) and len(b.pred[s]) == 1:
                out.append((g, s))
    return out


def _slice_key(b, p):
    """canonical rendering of the slice a place denotes (through copies of temporaries), ignoring a trailing deref."""
    rp = b.root_place(p, through_names=False)
    pr = list(rp["p"])
    while pr and pr[-1] == "*":
        pr.pop()
    return b.pname({"l": rp["l"], "p": pr}, 3)


def slice_matches(b, site_bb, via=None):
    """byte strings a slice-typed value is known to equal at site_bb, from lowered slice patterns (a test of the length
    followed by per-index switches) and from `==`/has_type style calls: {description: bytes}.
    With via=p the facts are those of entering site_bb through its predecessor p (the edge p->site_bb plus whatever
    dominates p) — used for arms of or-patterns, which have several predecessors."""
    lens = {}
    elems = {}
    out = {}
    edges = taken_edges(b, site_bb) if via is None else taken_edges(b, via) + ([(via, site_bb)] if b.term(via)["k"] == "switch" else [])
    for g, s in edges:
        t = b.term(g)
        d = t["d"]
        p = op_place(d)
        val = None
        for v, x in t["tg"]:
            if x == s:
                val = int(v)
        if p is not None and p["p"] and isinstance(p["p"][-1], dict) and "cidx" in p["p"][-1] and not p["p"][-1]["end"] and val is not None:
            key = _slice_key(b, {"l": p["l"], "p": p["p"][:-1]})
            elems.setdefault(key, {})[p["p"][-1]["cidx"]] = val
            continue
        if t["dty"] != "bool" and val is not None:
            # multi-way switch on the length of a slice
            dl = b.def_rv(d)
            if dl and dl[2] == "rv" and dl[3]["k"] == "un" and dl[3]["op"] == "PtrMetadata":
                lp = op_place(dl[3]["o"])
                if lp is not None:
                    lens[_slice_key(b, lp)] = val
            continue
        # bool conditions
        if t["dty"] == "bool":
            truth = (t["else"] == s)
            dd = b.def_rv(d)
            if dd and dd[2] == "rv" and dd[3]["k"] == "bin" and dd[3]["op"] == "Eq" and truth:
                a, c = dd[3]["a"], dd[3]["b"]
                kc = op_const(b.resolve_copy(c))
                ka = const_int(kc) if kc else None
                da = b.def_rv(a)
                if ka is not None and da and da[2] == "rv" and da[3]["k"] == "un" and da[3]["op"] == "PtrMetadata":
                    lp = op_place(da[3]["o"])
                    if lp is not None:
                        lens[_slice_key(b, lp)] = ka
            elif dd and dd[2] == "call" and truth:
                nm = dd[3]["f"].get("fn") or ""
                short = nm.rsplit("::", 1)[-1]
                if short in ("eq", "has_type", "starts_with", "ends_with") and len(dd[3]["args"]) == 2:
                    kb = _const_bytes_through(b, dd[3]["args"][1])
                    ka = _const_bytes_through(b, dd[3]["args"][0])
                    other = dd[3]["args"][0] if kb is not None else dd[3]["args"][1]
                    kk = kb if kb is not None else ka
                    if kk is not None:
                        out["%s:%s" % (short, b.oname(other, 3))] = kk
            elif dd and dd[2] == "call" and not truth:
                nm = dd[3]["f"].get("fn") or ""
                short = nm.rsplit("::", 1)[-1]
                if short == "ne" and len(dd[3]["args"]) == 2:
                    kb = _const_bytes_through(b, dd[3]["args"][1])
                    if kb is not None:
                        out["eq:%s" % b.oname(dd[3]["args"][0], 3)] = kb
    for key, n in lens.items():
        e = elems.get(key, {})
        if len(e) == n and set(e) == set(range(n)):
            out["match:%s" % key] = bytes(e[i] for i in range(n))
    return out


def blocks_assigning_ret_variant(b, variant):
    """blocks in which `_0 = Adt::variant(..)` is assigned."""
    out = []
    for bi, si, s in b.stmts():
        rv = s.get("rv")
        if rv and "lhs" in s and s["lhs"]["l"] == 0 and not s["lhs"]["p"] and rv["k"] == "agg" and rv["kind"].get("var") == variant:
            out.append((bi, s))
    return out


def stores_to_field(b, field, adt_suffix=None):
    """(bb, idx, stmt) of every assignment whose destination place ends in `.field`."""
    out = []
    for bi, si, s in b.stmts():
        if "lhs" not in s:
            continue
        pr = s["lhs"]["p"]
        if pr and isinstance(pr[-1], dict) and pr[-1].get("n") == field and (adt_suffix is None or adt_matches(pr[-1]["adt"], adt_suffix)):
            out.append((bi, si, s))
    for c in b.calls:
        pr = c.dest["p"]
        if pr and isinstance(pr[-1], dict) and pr[-1].get("n") == field and (adt_suffix is None or adt_matches(pr[-1]["adt"], adt_suffix)):
            out.append((c.bb, "T", c))
    return out


def calls_named(b, rx):
    rx = re.compile(rx) if isinstance(rx, str) else rx
    return [c for c in b.calls if rx.search(c.fn or "") or rx.search(c.name or "") or rx.search(c.full or "")]


def before(b, x, y):
    """does program point x = (bb, idx) always precede y on every path to y (block-level dominance + order)?"""
    (xb, xi), (yb, yi) = x, y
    xi = 10**6 if xi == "T" else xi
    yi = 10**6 if yi == "T" else yi
    if xb == yb:
        return xi < yi
    return b.dominates(xb, yb)


# ----------------------------------------------------------------------------- path feasibility under one boolean flag

def bool_flags(b):
    """bool locals that are only ever assigned constants (loop 'first' flags and the like): {local: [(bb, idx, value)]}."""
    out = {}
    for l in range(len(b.locals)):
        if b.lty(l) != "bool" or l == 0 or l <= b.argc:
            continue
        ds = b.defs.get(l, [])
        if not ds or l not in b.names:
            continue
        vals = []
        ok = True
        for d in ds:
            if d[2] != "rv" or d[3]["k"] != "use":
                ok = False
                break
            k = op_const(d[3]["o"])
            if k is None or const_int(k) is None:
                ok = False
                break
            vals.append((d[0], d[1], bool(const_int(k))))
        if ok:
            out[l] = vals
    return out


def _switch_on_flag(b, bb, flag):
    t = b.term(bb)
    if t["k"] != "switch" or t["dty"] != "bool":
        return None
    o = b.resolve_copy(t["d"])
    p = op_place(o)
    if p is not None and not p["p"] and p["l"] == flag:
        f = [x for v, x in t["tg"] if v == "0"]
        return (f[0] if f else None, t["else"])
    return None


def flag_reach(b, flag, assigns, start_bb, avoid=()):
    """blocks reachable from the END of start_bb when the value of `flag` is tracked (edges contradicted by the flag are
    not followed).  The value at start is computed by a forward pass from the entry."""
    amap = {}
    for bb, idx, v in assigns:
        amap.setdefault(bb, []).append((idx, v))
    def out_val(bb, vin):
        v = vin
        for idx, val in sorted(amap.get(bb, [])):
            v = val
        return v
    # forward dataflow: value at block entry (None = unknown/top, "bot" = unreached)
    vin = {0: None}
    work = [0]
    def join(a, c):
        return a if a == c else None
    while work:
        x = work.pop()
        vo = out_val(x, vin[x])
        sw = _switch_on_flag(b, x, flag)
        for s in b.succ[x]:
            v = vo
            if sw is not None:
                if s == sw[0] and s != sw[1]:
                    v = False if vo is None else vo
                    if vo is True:
                        continue
                elif s == sw[1] and s != sw[0]:
                    v = True if vo is None else vo
                    if vo is False:
                        continue
            if s not in vin:
                vin[s] = v
                work.append(s)
            else:
                nv = join(vin[s], v)
                if nv != vin[s]:
                    vin[s] = nv
                    work.append(s)
    if start_bb not in vin:
        return set()
    avoid = set(avoid)
    seen = set()
    res = set()
    st = [(start_bb, out_val(start_bb, vin[start_bb]), True)]
    while st:
        x, v, first = st.pop()
        if not first:
            if (x, v) in seen or x in avoid:
                continue
            seen.add((x, v))
            res.add(x)
            v = out_val(x, v)
        sw = _switch_on_flag(b, x, flag)
        for s in b.succ[x]:
            nv = v
            if sw is not None and v is not None:
                if s == sw[0] and s != sw[1] and v is True:
                    continue
                if s == sw[1] and s != sw[0] and v is False:
                    continue
            st.append((s, nv, False))
    return res


def enumerate_first_edges(b, start_bb):
    """edges that are only taken in the first turn of an `enumerate()` loop (index == 0), for a start point inside that loop:
    any path from the start back to the test has passed `next()` again, so the index is >= 1 there."""
    out = set()
    loops = b.loops()
    for bi in range(b.n):
        t = b.term(bi)
        if t["k"] != "switch" or t["dty"] != "bool":
            continue
        d = b.def_rv(t["d"])
        if not (d and d[2] == "rv" and d[3]["k"] == "bin" and d[3]["op"] in ("Eq", "Ne")):
            continue
        a, c = d[3]["a"], d[3]["b"]
        k = op_const(b.resolve_copy(c))
        if k is None or const_int(k) != 0:
            continue
        p = op_place(a)
        if p is None:
            continue
        rp = b.root_place(p, through_names=True)
        # (next(enumerate) as Some).0.0
        src = b.single_def(rp["l"]) if rp["p"] else None
        ok = False
        if rp["p"] and len([e for e in rp["p"] if isinstance(e, dict) and "f" in e]) == 2 and isinstance(rp["p"][0], dict) and rp["p"][0].get("down") == "Some":
            dd = [x for x in b.defs.get(rp["l"], []) if x[2] == "call"]
            if len(dd) == 1 and "Enumerate" in (dd[0][3]["f"].get("full") or "") and (dd[0][3]["f"].get("fn") or "").endswith("Iterator::next"):
                nb = dd[0][0]
                # start must be inside a loop that contains the next() call
                if any(nb in bl and start_bb in bl for bl in loops.values()):
                    ok = True
        if not ok:
            continue
        f = [x for v, x in t["tg"] if v == "0"]
        first_edge = (bi, t["else"]) if d[3]["op"] == "Eq" else ((bi, f[0]) if f else None)
        if first_edge:
            out.add(first_edge)
    return out


def feasible_reach(b, start_bb, target_bb, avoid=()):
    """can target be reached from the end of start_bb avoiding `avoid`, on a path that no constant-only bool flag (and no
    first-turn-of-enumerate test) contradicts?"""
    if not b.can_reach(start_bb, target_bb, avoid=avoid):
        return False
    dead = enumerate_first_edges(b, start_bb)
    if dead:
        seen = set()
        st = [start_bb]
        hit = False
        avoid_s = set(avoid)
        first = True
        while st:
            x = st.pop()
            for s2 in b.succ[x]:
                if (x, s2) in dead or s2 in avoid_s:
                    continue
                if s2 == target_bb:
                    hit = True
                if s2 not in seen:
                    seen.add(s2)
                    st.append(s2)
        if not hit:
            return False
    for flag, assigns in bool_flags(b).items():
        if target_bb not in flag_reach(b, flag, assigns, start_bb, avoid):
            return False
    return True


# ----------------------------------------------------------------------------- small tracing helpers

def trace_operand(body, o, depth=10):
    """follow copies, re-borrows and tuple-field selections back to the operand that carries the value."""
    for _ in range(depth):
        if op_const(o) is not None:
            return o
        p = op_place(o)
        if p is None:
            return o
        flds = [e for e in p["p"] if e != "*"]
        if (p["l"] in body.names and not flds) or 1 <= p["l"] <= body.argc:
            return o
        d = body.single_def(p["l"])
        if d is None or d[2] != "rv":
            return o
        rv = d[3]
        if flds:
            e = flds[0]
            if len(flds) == 1 and rv["k"] == "agg" and isinstance(e, dict) and "f" in e and e["f"] < len(rv["ops"]):
                o = rv["ops"][e["f"]]
                continue
            return o
        if rv["k"] in ("use", "cast"):
            o = rv["o"]
        elif rv["k"] == "ref":
            o = {"c": rv["p"]}
            if rv["p"]["p"] and rv["p"]["p"] != ["*"]:
                return o
            if rv["p"]["p"] == ["*"]:
                o = {"c": {"l": rv["p"]["l"], "p": []}}
        else:
            return o
    return o


def traced(body, o, depth=4):
    return body.oname(trace_operand(body, o), depth)


def vec_literal(body, o):
    """operands of a `vec![a, b, c]` literal behind operand o (lowered to Box::new_uninit + array store), else None."""
    d = body.def_rv(o)
    if not (d and d[2] == "call" and (d[3]["f"].get("fn") or "").endswith("box_assume_init_into_vec_unsafe")):
        return None
    bp = op_place(body.resolve_copy(d[3]["args"][0]))
    if bp is None:
        return None
    box_local = body.root_place(bp, through_names=True)["l"]
    for bi, si, s in body.stmts():
        rv = s.get("rv")
        if rv and rv["k"] == "agg" and rv["kind"].get("a") == "array" and s["lhs"]["p"]:
            base = s["lhs"]["l"]
            dds = [x for x in body.defs.get(base, []) if x[2] == "rv"]
            dd = dds[0] if len(dds) == 1 else None
            if dd and dd[2] == "rv" and dd[3]["k"] == "cast":
                sp = op_place(dd[3]["o"])
                if sp is not None and body.root_place({"l": sp["l"], "p": []}, through_names=True)["l"] == box_local:
                    return rv["ops"]
    return None


def dict_sets(body):
    """[(key bytes or None, value operand, call)] for every Dictionary::set in the body (keys given as &str, &[u8] or Vec<u8>)."""
    out = []
    for c in body.calls:
        if c.local and c.name.endswith("Dictionary::set") and len(c.args) == 3:
            k = _const_bytes_through(body, c.args[1])
            if k is None:
                dk = body.def_rv(c.args[1])
                if dk and dk[2] == "call" and dk[3]["args"]:
                    k = _const_bytes_through(body, dk[3]["args"][0])
            out.append((k, c.args[2], c))
    return out


def canon_callee(F, c):
    """canonical (module-independent) name of a crate-local callee, else the trait-level foreign name."""
    if c.local and c.name in F.bodies:
        return F.canon_of(F.bodies[c.name])
    return c.fn or c.name


def local_calls(F, b, suffix):
    """crate-local call sites whose canonical callee name ends with `suffix`."""
    return [c for c in b.calls if c.local and canon_callee(F, c).endswith(suffix)]


# ----------------------------------------------------------------------------- named constants

_INT_SIZES = {"u8": 1, "i8": 1, "u16": 2, "i16": 2, "u32": 4, "i32": 4, "u64": 8, "i64": 8, "usize": 8, "isize": 8, "u128": 16, "i128": 16}


def named_const_value(F, k):
    """python value of a constant operand that refers to a named `const` item: int, bytes or list of ints."""
    name = k.get("def")
    if not name:
        return None
    c = F.consts.get(name)
    if c is None:
        return None
    if "int" in c:
        return int(c["int"])
    if "bytes" in c:
        return bytes.fromhex(c["bytes"])
    ty = c.get("ty", "")
    if "raw" in c:
        raw = bytes.fromhex(c["raw"])
        m = re.match(r"^\[(\w+); (\d+)\]$", ty)
        if m and m.group(1) in _INT_SIZES:
            sz = _INT_SIZES[m.group(1)]
            n = int(m.group(2))
            signed = m.group(1).startswith("i")
            vals = [int.from_bytes(raw[i * sz:(i + 1) * sz], "little", signed=signed) for i in range(n)]
            if m.group(1) == "u8":
                return bytes(vals)
            return vals
    return None


def const_value(F, body, o, depth=10):
    """constant value behind an operand: through copies, borrows, tuple fields, constant indexing of constant arrays and
    references to named constants."""
    for _ in range(depth):
        k = op_const(o)
        if k is not None:
            if "int" in k:
                return int(k["int"])
            if "refint" in k:
                return int(k["refint"])
            if "bytes" in k:
                return bytes.fromhex(k["bytes"])
            return named_const_value(F, k)
        p = op_place(o)
        if p is None:
            return None
        proj = [e for e in p["p"] if e != "*"]
        d = body.single_def(p["l"])
        if d is None:
            ds = [x for x in body.defs.get(p["l"], []) if x[2] == "rv"]
            d = ds[0] if len(ds) == 1 else None
        if d is None or d[2] != "rv":
            return None
        rv = d[3]
        if proj:
            e = proj[0]
            if len(proj) == 1 and isinstance(e, dict) and "cidx" in e and not e["end"]:
                base = const_value(F, body, {"c": {"l": p["l"], "p": []}}, depth - 1)
                if isinstance(base, (list, bytes)) and e["cidx"] < len(base):
                    return base[e["cidx"]]
                return None
            if len(proj) == 1 and isinstance(e, dict) and "f" in e and rv["k"] == "agg" and e["f"] < len(rv["ops"]):
                o = rv["ops"][e["f"]]
                continue
            return None
        if rv["k"] in ("use", "cast"):
            o = rv["o"]
        elif rv["k"] == "ref":
            o = {"c": rv["p"]}
        else:
            return None
    return None


def result_origins(b, l, depth=0):
    """the call destinations (locals) whose Result the whole local `l` carries: through moves, `?` (Try::branch) and
    Result::or / or_else-free combinations (`a.or(b)` carries both)."""
    if depth > 8:
        return set()
    alld = b.defs.get(l, [])
    if len(alld) != 1 or alld[0][2] == "proj":
        return {l}
    d = alld[0]
    if d[2] == "call":
        t = d[3]
        nm = t["f"].get("fn") or ""
        if nm.endswith("Try::branch") or re.search(r"result::Result::<.*>::(or|map_err)$", nm):
            out = set()
            for a in t["args"]:
                p = op_place(a)
                if p is not None and not p["p"]:
                    out |= result_origins(b, p["l"], depth + 1)
            return out
        return {l}
    rv = d[3]
    if rv["k"] == "use":
        p = op_place(rv["o"])
        if p is not None and not p["p"]:
            return result_origins(b, p["l"], depth + 1)
    return {l}


def success_edges(b):
    """[(origins, block)]: blocks entered only when the Result(s) `origins` (see result_origins) were Ok: the 0-edge of a
    switch on discriminant(x) where x is a Result (Ok = 0) or the ControlFlow of x? (Continue = 0)."""
    out = []
    shared = {}
    for g in range(b.n):
        t = b.term(g)
        if t["k"] != "switch" or t["dty"] == "bool":
            continue
        p = op_place(t["d"])
        if p is None or p["p"]:
            continue
        d = b.single_def(p["l"])
        if not (d and d[2] == "rv" and d[3]["k"] == "discr"):
            continue
        src = d[3]["p"]
        if src["p"]:
            # a component of a tuple built once from two results: `match (a, b) { (Ok(..), _) | (Err(_), Ok(..)) => .. }`
            fl = [e for e in src["p"] if e != "*"]
            ops_ = b._frozen_agg(src["l"]) if len(fl) == 1 and isinstance(fl[0], dict) and "f" in fl[0] else None
            q_ = op_place(ops_[fl[0]["f"]]) if ops_ is not None and fl[0]["f"] < len(ops_) else None
            if q_ is None or q_["p"]:
                continue
            src = q_
        ty = b.lty(src["l"])
        if not (re.match(r"^(std|core)::result::Result<", ty) or re.match(r"^(std|core)::ops::ControlFlow<(std|core)::result::Result<", ty)):
            continue
        org = result_origins(b, src["l"])
        tgt = [x for v, x in t["tg"] if v == "0"]
        other = [x for v, x in t["tg"] if v != "0"] + [t["else"]]
        for x in tgt:
            if x not in other and len(b.pred[x]) == 1:
                out.append((org, x))
            elif x not in other:
                shared.setdefault(x, {})[g] = org
    # an arm entered from several tests (an or-pattern): all of its ways in are such edges — it carries all their origins
    for x, by in shared.items():
        if set(b.pred[x]) == set(by):
            out.append((set().union(*by.values()), x))
    return out


def origin_local(F, b, o, depth=0):
    """(body, local, projection) the operand's value comes from: through copies, borrows, named single-assignment aliases
    and closure captures (resolved into the function that creates the closure).  None if o is a constant."""
    p = op_place(o)
    if p is None or depth > 6:
        return None
    rp = b.root_place(p, through_names=True)
    pr = [e for e in rp["p"] if e != "*"]
    if b.kind == "Closure" and rp["l"] == 1 and pr and isinstance(pr[0], dict) and "f" in pr[0]:
        idx = pr[0]["f"]
        par = b.path.rsplit("::{closure", 1)[0]
        pb = F.bodies.get(par)
        if pb is not None:
            for bi, si, st in pb.stmts():
                rv = st.get("rv")
                if rv and rv["k"] == "agg" and rv["kind"].get("a") == "closure" and rv["kind"]["def"] == b.path and idx < len(rv["ops"]):
                    r = origin_local(F, pb, rv["ops"][idx], depth + 1)
                    if r is not None:
                        return (r[0], r[1], r[2] + pr[1:])
    # transparent views: deref / as_slice / as_ref / borrow of x denote x
    d = b.single_def(rp["l"]) if rp["l"] not in b.names and rp["l"] > b.argc else None
    if d is not None and d[2] == "call" and not pr:
        short = (d[3]["f"].get("fn") or "").rsplit("::", 1)[-1]
        if short in ("deref", "deref_mut", "as_slice", "as_mut_slice", "as_ref", "as_mut", "borrow", "borrow_mut", "as_bytes", "as_str") and len(d[3]["args"]) == 1:
            return origin_local(F, b, d[3]["args"][0], depth + 1)
    return (b, rp["l"], pr)


def same_origin(F, b, o, body2, local2):
    r = origin_local(F, b, o)
    return r is not None and r[0] is body2 and r[1] == local2 and not r[2]


def switch_on(b, g, local):
    """does block g branch on (a copy of) local?"""
    t = b.term(g)
    if t["k"] != "switch":
        return False
    p = op_place(t["d"])
    for _ in range(4):
        if p is None or p["p"]:
            return False
        if p["l"] == local:
            return True
        d = b.single_def(p["l"])
        if not (d and d[2] == "rv" and d[3]["k"] == "use"):
            return False
        p = op_place(d[3]["o"])
    return False


def switch_on_operand(b, o, local):
    """is operand o (a copy of) local?"""
    p = op_place(o)
    for _ in range(4):
        if p is None or p["p"]:
            return False
        if p["l"] == local:
            return True
        d = b.single_def(p["l"])
        if not (d and d[2] == "rv" and d[3]["k"] == "use"):
            return False
        p = op_place(d[3]["o"])
    return False


def local_scope(F, b, limit=12):
    """b, its closures, and (recursively) the private helpers of the same file it calls — the code a reader would call
    "this function": extracting part of it into a private helper does not change the scope."""
    out, seen, work = [], set(), [b]
    while work and len(out) < limit:
        x = work.pop(0)
        if x.path in seen:
            continue
        seen.add(x.path)
        for body in F.with_closures(x):
            if body not in out:
                out.append(body)
            for c in body.calls:
                if c.local and c.name in F.bodies:
                    cb = F.bodies[c.name]
                    if cb.vis.startswith("Restricted") and cb.file == b.file and cb.path not in seen:
                        work.append(cb)
                    elif cb.impl_of and cb.file == b.file and cb.path not in seen and getattr(F, "reviewed_adts", None) is not None \
                            and cb.self_ty in F.adts and cb.self_ty not in F.reviewed_adts:
                        work.append(cb)      # a trait method of a type introduced after the review (`impl From<&Object> for NewEnum`) is such a helper too
    return out


def ok_variants(b):
    """for an accessor `fn(&self) -> Result<..>` / Option that matches on an enum: the names of the variants from whose arm an
    `Ok(..)` / `Some(..)` return is reachable; None if the body does not switch on a discriminant with known variant names."""
    sw = None
    for bi in range(b.n):
        t = b.term(bi)
        if t["k"] == "switch":
            d = b.def_rv(t["d"])
            if d and d[2] == "rv" and d[3]["k"] == "discr" and d[3].get("vars"):
                sw = (bi, t, {str(v): n for v, n in d[3]["vars"]})
                break
    if sw is None:
        return None
    bi, t, names = sw
    oks = [x for x, _s in blocks_assigning_ret_variant(b, "Ok")] + [x for x, _s in blocks_assigning_ret_variant(b, "Some")]
    out = set()
    listed = set()
    for v, x in t["tg"]:
        listed.add(str(v))
        if any(x == o or b.can_reach(x, o) for o in oks):
            out.add(names.get(str(v), str(v)))
    if any(t["else"] == o or b.can_reach(t["else"], o) for o in oks):
        out |= {n for v, n in names.items() if v not in listed}
    return out


def call_component(F, b, o, depth=8):
    """The operand, inside a crate-local callee, that a component of the callee's result stands for.

    `o` (in body b) is traced back through copies, integer casts, named single-assignment locals, `?`/unwrap plumbing and
    tuple / struct field projections to a call of a crate-local function g; the same projections are then applied to the
    aggregate g returns (`Ok((a, b, c))`, `Ok(Parts { content: a, length: b, .. })`, ...).  Returns (g_body, operand) or
    None.  A tuple and a struct with the same components in the same roles give the same answer."""
    from mir import op_place
    path = []          # field indices applied to the call's value, outermost last
    cur = o
    for _ in range(depth * 3):
        p = op_place(cur)
        if p is None:
            return None
        proj = [e for e in p["p"] if e != "*"]
        fields = []
        for e in proj:
            if isinstance(e, dict) and "f" in e:
                fields.append(e["f"])
            elif isinstance(e, dict) and ("down" in e or "v" in e):
                continue          # variant downcast (Ok / Some / Continue): the payload follows as field 0
            else:
                return None
        l = p["l"]
        d = b.single_def(l)
        if d is None:
            return None
        path = fields + path
        if d[2] == "rv":
            rv = d[3]
            if rv["k"] in ("use", "cast"):
                cur = rv["o"]
                continue
            if rv["k"] == "ref":
                cur = {"c": rv["p"]}
                continue
            if rv["k"] == "agg" and path:
                k = path.pop(0)
                if k < len(rv["ops"]):
                    cur = rv["ops"][k]
                    continue
            return None
        t = d[3]
        short = (t["f"].get("fn") or "").rsplit("::", 1)[-1]
        tgt = t["f"].get("res") or t["f"].get("fn") or ""
        if t["f"].get("loc") and tgt in F.bodies:
            g = F.bodies[tgt]
            return _component_in(F, g, {"c": {"l": 0, "p": []}}, path)
        if short in ("branch", "unwrap", "expect", "unwrap_or_default", "into", "from", "clone") and t["args"]:
            # Try::branch wraps the payload as Continue(x): the projection `.0` after the downcast is the payload itself
            if short == "branch" and path and path[0] == 0:
                path.pop(0)
            cur = t["args"][0]
            continue
        return None
    return None


def _component_in(F, g, o, path, depth=12):
    """apply the field path to what operand o of body g was built from (through Ok/Some wrappers)."""
    from mir import op_place
    cur = o
    for _ in range(depth * 3):
        p = op_place(cur)
        if p is None:
            return (g, cur) if not path else None
        if p["p"]:
            return None
        ds = g.defs.get(p["l"], [])
        # the return place is assigned once per successful exit: take the Ok/Some aggregate (several: all must agree — not needed here)
        aggs = [d for d in ds if d[2] == "rv" and d[3]["k"] == "agg"]
        if len(ds) == 1 and ds[0][2] == "rv" and ds[0][3]["k"] in ("use", "cast"):
            cur = ds[0][3]["o"]
            continue
        if aggs:
            oks = [d for d in aggs if d[3]["kind"].get("var") in ("Ok", "Some")]
            if oks:
                if len(oks) != 1:
                    return None
                cur = oks[0][3]["ops"][0]
                continue
            if len(aggs) != 1 or len(ds) != 1:
                return None
            if not path:
                return (g, cur)
            k = path.pop(0)
            if k >= len(aggs[0][3]["ops"]):
                return None
            cur = aggs[0][3]["ops"][k]
            continue
        return (g, cur) if not path else None
    return None


def out_tokens(b):
    """The bytes a function writes, as a sequence of tokens in program order (reverse postorder of the blocks, position in the
    block): ('lit', bytes, bb) for constant text — a piece of a format template, or write_all of a constant —,
    ('val', operand, bb) for a formatted argument or a non-constant buffer handed to write_all (look through `as_bytes`,
    `itoa::Buffer::format`, `to_string`), ('call', canonical name, bb) for a call of a crate-local function that takes the
    sink.  `write!(f, "a{}b", x)` and `f.write_all(b"a")?; f.write_all(x.as_bytes())?; f.write_all(b"b")?` give the same
    tokens; adjacent literals of one block are merged."""
    order = {}
    seen, stack, post = set(), [(0, iter(b.succ[0]))], []
    seen.add(0)
    while stack:
        x, it = stack[-1]
        adv = False
        for y in it:
            if y not in seen:
                seen.add(y)
                stack.append((y, iter(b.succ[y])))
                adv = True
                break
        if not adv:
            post.append(x)
            stack.pop()
    for i, x in enumerate(reversed(post)):
        order[x] = i
    raw = []
    fsites = {s["call"].bb: s for s in format_sites(b)}
    for c in b.calls:
        n = c.fn or c.name
        if c.bb in fsites and fsites[c.bb]["call"] is c:
            s = fsites[c.bb]
            for k, v in s["pieces"]:
                if k == "lit":
                    raw.append((order.get(c.bb, 10**6), "lit", v, c.bb))
                else:
                    idx = v.get("index")
                    a = s["args"][idx] if idx is not None and idx < len(s["args"]) else None
                    raw.append((order.get(c.bb, 10**6), "val", getattr(a, "operand", None), c.bb))
        elif re.search(r"io::Write::write_all$|Vec::<.*>::extend_from_slice$", n) and len(c.args) >= 2:
            kb = _const_bytes_through(b, c.args[1])
            if kb is not None:
                raw.append((order.get(c.bb, 10**6), "lit", kb, c.bb))
            else:
                raw.append((order.get(c.bb, 10**6), "val", c.args[1], c.bb))
        elif re.search(r"Vec::<u8(, .*)?>::push$|Vec::<T, A>::push$", n) and len(c.args) == 2 and "u8" in (c.full or n) + b.lty(op_place(c.args[1])["l"] if op_place(c.args[1]) else 0):
            k1 = op_const(b.resolve_copy(c.args[1]))
            v1 = const_int(k1) if k1 is not None else None
            if v1 is not None and 0 <= v1 < 256:
                raw.append((order.get(c.bb, 10**6), "lit", bytes([v1]), c.bb))
            else:
                raw.append((order.get(c.bb, 10**6), "val", c.args[1], c.bb))
        elif c.local and re.search(r"(Writer::write_\w+|write_cross_reference_stream|write_trailer)$", c.cname or ""):
            raw.append((order.get(c.bb, 10**6), "call", c.cname, c.bb))
    raw.sort(key=lambda t: t[0])
    out = []
    for _o, k, v, bb in raw:
        if k == "lit" and out and out[-1][0] == "lit" and out[-1][2] == bb:
            out[-1] = ("lit", out[-1][1] + v, out[-1][2])
        else:
            out.append((k, v, bb))
    return out


def val_source(b, o, depth=8):
    """rendering of what a 'val' token prints: through as_bytes / as_str / to_string / itoa::Buffer::format / deref."""
    if o is None:
        return "?"
    cur = o
    for _ in range(depth):
        p = op_place(cur)
        if p is None:
            break
        d = b.single_def(p["l"]) if not [e for e in p["p"] if e != "*"] and p["l"] not in b.names else None
        if d is None:
            break
        if d[2] == "rv" and d[3]["k"] in ("use", "cast"):
            cur = d[3]["o"]
            continue
        if d[2] == "rv" and d[3]["k"] == "ref":
            cur = {"c": d[3]["p"]}
            continue
        if d[2] == "call":
            short = (d[3]["f"].get("fn") or "").rsplit("::", 1)[-1]
            if short in ("as_bytes", "as_str", "to_string", "deref", "as_ref", "borrow") and d[3]["args"]:
                cur = d[3]["args"][0]
                continue
            if short == "format" and "itoa" in (d[3]["f"].get("fn") or "") and len(d[3]["args"]) == 2:
                cur = d[3]["args"][1]
                continue
        break
    return traced(b, cur, 4)


def nom_language(b, o, depth=10, limit=64):
    """The finite set of byte strings a small nom parser expression accepts, or None when it is not one of the understood
    combinators: tag(k) -> {k}; one_of(s) -> the bytes of s; alt((a, b, ..)) -> union; pair / preceded / terminated / delimited /
    a tuple -> concatenation; opt(a) -> a plus the empty string; map(a, _) / value / recognize / cut -> a.  (What the parser
    *returns* is not modelled, only what it consumes.)"""
    if depth <= 0:
        return None
    k = op_const(o)
    if k is not None:
        return None            # a function item (content_space, space, ..): an unbounded or unknown language
    p = op_place(o)
    if p is None or p["p"]:
        return None
    d = b.single_def(p["l"])
    if d is None:
        return None
    if d[2] == "rv":
        rv = d[3]
        if rv["k"] in ("use", "cast"):
            return nom_language(b, rv["o"], depth - 1, limit)
        if rv["k"] == "agg" and rv["kind"].get("a") == "tuple":
            out = {b""}
            for x in rv["ops"]:
                lx = nom_language(b, x, depth - 1, limit)
                if lx is None:
                    return None
                out = {a + c for a in out for c in lx}
                if len(out) > limit:
                    return None
            return out
        return None
    t = d[3]
    fn = t["f"].get("fn") or ""
    short = fn.rsplit("::", 1)[-1]
    args = t["args"]
    if not fn.startswith("nom::"):
        return None
    if short == "tag" and len(args) == 1:
        kb = _const_bytes_through(b, args[0])
        return {kb} if kb is not None else None
    if short == "one_of" and len(args) == 1:
        kb = _const_bytes_through(b, args[0])
        return {bytes([x]) for x in kb} if kb is not None else None
    if short == "alt" and len(args) == 1:
        q = op_place(args[0])
        dd = b.single_def(q["l"]) if q is not None and not q["p"] else None
        if not (dd and dd[2] == "rv" and dd[3]["k"] == "agg" and dd[3]["kind"].get("a") == "tuple"):
            return None
        out = set()
        for x in dd[3]["ops"]:
            lx = nom_language(b, x, depth - 1, limit)
            if lx is None:
                return None
            out |= lx
        return out
    if short in ("pair", "preceded", "terminated", "delimited", "separated_pair"):
        out = {b""}
        for x in args:
            lx = nom_language(b, x, depth - 1, limit)
            if lx is None:
                return None
            out = {a + c for a in out for c in lx}
            if len(out) > limit:
                return None
        return out
    if short == "opt" and len(args) == 1:
        lx = nom_language(b, args[0], depth - 1, limit)
        return None if lx is None else lx | {b""}
    if short in ("map", "value", "recognize", "cut", "map_res", "map_opt", "verify") and args:
        return nom_language(b, args[-1] if short == "value" else args[0], depth - 1, limit)
    return None


def sel_consts(b, l):
    """A local that is assigned integer constants only, one in each arm of one two-way branch, renders as the conditional
    expression it is: `sel(<then-value> if <cond> else <else-value>)`.  None when the local is anything else."""
    import inv
    ds = b.defs.get(l, [])
    if len(ds) != 2 or any(d[2] != "rv" or d[3]["k"] != "use" or op_const(d[3]["o"]) is None for d in ds):
        return None
    vals = []
    for d in ds:
        v = const_int(op_const(d[3]["o"]))
        if v is None:
            return None
        with b.alpha(args=True):
            gs = [(b.sname(b.term(g)["d"], 6).replace("&", "").replace("*", ""), b.term(g)["else"] == s2, g)
                  for g, s2 in taken_edges(b, d[0]) if b.term(g)["dty"] == "bool"]
        vals.append((v, gs))
    (v1, g1), (v2, g2) = vals
    if not g1 or not g2 or g1[-1][2] != g2[-1][2] or g1[-1][1] == g2[-1][1] or g1[:-1] != g2[:-1]:
        return None
    cond = g1[-1][0]
    t, e = (v1, v2) if g1[-1][1] else (v2, v1)
    return "sel(%d if %s else %d)" % (t, cond, e)


def handled_variants(b, enum_suffix):
    """names of the variants of the enum (type name ending in enum_suffix) that some `match` in b gives an arm of their own
    (a target different from the default one)."""
    out = set()
    for bi in range(b.n):
        t = b.term(bi)
        if t["k"] != "switch":
            continue
        p = op_place(t["d"])
        d = b.single_def(p["l"]) if p is not None and not p["p"] else None
        if not (d and d[2] == "rv" and d[3]["k"] == "discr" and (d[3].get("ety") or "").endswith(enum_suffix)):
            continue
        names = {str(v): n for v, n in d[3].get("vars", [])}
        for v, x in t["tg"]:
            if x != t["else"] and str(v) in names:
                out.add(names[str(v)])
    return out


# ----------------------------------------------------------------------------- tables kept in data

def _cell(x):
    """one decoded cell of a table row: ('bytes', b) | ('int', n) | ('fn', path) | ('static', path) | ('raw', b) | ('?', None)"""
    if not isinstance(x, dict):
        return ("?", None)
    if "bytes" in x:
        return ("bytes", bytes.fromhex(x["bytes"]))
    if "int" in x:
        return ("int", int(x["int"]))
    if "fn" in x:
        return ("fn", x["fn"])
    if "static" in x:
        return ("static", x["static"])
    if "raw" in x:
        return ("raw", bytes.fromhex(x["raw"]))
    return ("?", None)


def table_rows(F, k):
    """rows of the table kept in data that the constant k denotes: [[cell, ..], ..]; None when k is no table of tuples / structs."""
    from mir import table_value
    v = table_value(F, k)
    if not isinstance(v, dict) or "arr" not in v:
        return None
    rows = []
    for r in v["arr"]:
        if not isinstance(r, dict) or "tup" not in r:
            return None
        rows.append([_cell(c) for c in r["tup"]])
    return rows


def _table_const_behind(b, o, depth=10):
    """the table constant an operand denotes, through copies, borrows, unsizing, `iter()` / `as_slice()` / `into_iter()`."""
    for _ in range(depth):
        k = op_const(o)
        if k is not None:
            return k if ("table" in k or "static" in k or k.get("def")) else None
        p = op_place(o)
        if p is None:
            return None
        d = b.single_def(p["l"])
        if d is None:
            return None
        if d[2] == "rv" and d[3]["k"] in ("use", "cast"):
            o = d[3]["o"]
        elif d[2] == "rv" and d[3]["k"] == "ref":
            o = {"c": {"l": d[3]["p"]["l"], "p": []}}
        elif d[2] == "call" and d[3]["args"] and (d[3]["f"].get("fn") or "").rsplit("::", 1)[-1] in ("iter", "as_slice", "into_iter", "deref", "as_ref", "borrow"):
            o = d[3]["args"][0]
        else:
            return None
    return None



def enum_array_behind(F, b, o, depth=10):
    """variant names of the `[Enum; N]` constant of a fieldless crate-local enum an operand denotes (through copies, borrows,
    unsizing): the i-th name is the variant stored at index i.  None when the operand is no such constant, or when the
    facts do not say which byte each variant is stored as."""
    for _ in range(depth):
        k = op_const(o)
        if k is not None:
            raw, ty = None, None
            if "refraw" in k:
                raw, ty = k["refraw"], k.get("ty", "").lstrip("&")
            elif k.get("def") and k["def"] in F.consts and "raw" in F.consts[k["def"]]:
                raw, ty = F.consts[k["def"]]["raw"], F.consts[k["def"]].get("ty", "")
            elif "static" in k and "raw" in (F.statics.get(k["static"]) or {}):
                raw, ty = F.statics[k["static"]]["raw"], F.statics[k["static"]].get("ty", "")
            if raw is None:
                return None
            m = re.match(r"^\[(.+); (\d+)\]$", ty.strip())
            if not m:
                return None
            a = F.adts.get(m.group(1))
            n = int(m.group(2))
            data = bytes.fromhex(raw)
            if a is None or not a.get("enum") or any(v["fields"] for v in a["variants"]) or n == 0 or len(data) != n:
                return None      # one byte per element: a fieldless enum of at most 256 variants
            by = {}
            for v in a["variants"]:
                if "discr" not in v:
                    return None
                by[v["discr"] & 0xFF] = v["name"]
            names = [by.get(x) for x in data]
            return None if any(x is None for x in names) else names
        p_ = op_place(o)
        if p_ is None:
            return None
        d = b.single_def(p_["l"])
        if d is None:
            return None
        if d[2] == "rv" and d[3]["k"] in ("use", "cast"):
            o = d[3]["o"]
        elif d[2] == "rv" and d[3]["k"] == "ref":
            o = {"c": {"l": d[3]["p"]["l"], "p": []}}
        elif d[2] == "call" and d[3]["args"] and (d[3]["f"].get("fn") or "").rsplit("::", 1)[-1] in ("as_slice", "deref", "as_ref", "borrow"):
            o = d[3]["args"][0]
        else:
            return None
    return None

def table_lookups(F, b):
    """`TABLE.iter().find(|row| row.K == key)` over a table kept in data: [{call, rows, key_field, key ('upvar', i) / ('other', None),
    closure}].  The result of the call is Option<&row>; `lookup_field(b, operand, lk)` says which field of the found row an
    operand denotes."""
    out = []
    for c in b.calls:
        if not re.search(r"iter::Iterator::(find|position)$", c.fn or "") or len(c.args) != 2:
            continue
        k = _table_const_behind(b, c.args[0])
        rows = table_rows(F, k) if k is not None else None
        if rows is None:
            continue
        cd = b.def_rv(c.args[1])
        if not (cd and cd[2] == "rv" and cd[3]["k"] == "agg" and cd[3]["kind"].get("a") == "closure"):
            continue
        cb = F.bodies.get(cd[3]["kind"]["def"])
        if cb is None:
            continue
        kf, key = None, ("other", None)
        cmps = []
        for bi, si, st_ in cb.stmts():
            rv = st_.get("rv")
            if rv and rv["k"] == "bin" and rv["op"] == "Eq":
                cmps.append((rv["a"], rv["b"]))
        for cc in cb.calls:
            if re.search(r"cmp::PartialEq::(eq|ne)$", cc.fn or "") and len(cc.args) == 2:
                cmps.append((cc.args[0], cc.args[1]))
        for a_, b_ in cmps:
            sides = []
            for o_ in (a_, b_):
                q = op_place(o_)
                rp = cb.root_place(q, through_names=True) if q is not None else None
                sides.append(rp)
            for i in (0, 1):
                rp, other = sides[i], sides[1 - i]
                if rp is not None and rp["l"] == cb.argc:
                    fl = [e["f"] for e in rp["p"] if isinstance(e, dict) and "f" in e]
                    if len(fl) == 1:
                        kf = fl[0]
                        # the other side: a captured value, possibly behind a deref / an index (`c[0]` of a captured slice)
                        cur = other
                        for _h in range(6):
                            if cur is None or cur["l"] == 1:
                                break
                            d_ = cb.single_def(cur["l"])
                            if d_ and d_[2] == "call" and d_[3]["args"] and (d_[3]["f"].get("fn") or "").rsplit("::", 1)[-1] in ("deref", "as_slice", "as_ref", "index", "borrow"):
                                q_ = op_place(d_[3]["args"][0])
                                cur = cb.root_place(q_, through_names=True) if q_ is not None else None
                            else:
                                break
                        if cur is not None and cur["l"] == 1:
                            ofl = [e["f"] for e in cur["p"] if isinstance(e, dict) and "f" in e]
                            key = ("upvar", ofl[0] if ofl else None)
        if kf is None:
            continue
        keyop = None
        if key[0] == "upvar" and key[1] is not None and key[1] < len(cd[3]["ops"]):
            keyop = cd[3]["ops"][key[1]]
        out.append({"call": c, "rows": rows, "key_field": kf, "key": key, "key_operand": keyop, "closure": cb})
    return out


def lookup_field(b, o, lk):
    """the field index of the found row that operand o denotes (through `Some(&(_, x))` patterns, `?`, ok_or, copies), else None."""
    q = op_place(o)
    if q is None:
        return None
    rp = b.root_place(q, through_names=True)
    dest = lk["call"].dest["l"]
    cur = rp
    for _ in range(8):
        if cur["l"] == dest:
            fl = [e["f"] for e in cur["p"] if isinstance(e, dict) and "f" in e and not e.get("adt", "").endswith(("Some", "Ok", "Continue"))]
            # projections: (as Some).0 -> * -> .j ; the payload field of Some/Ok/Continue is not a row field
            fr = [e for e in cur["p"] if isinstance(e, dict) and "f" in e]
            rowf = [e["f"] for e in fr if not (e.get("adt") or "").split("::")[-1] in ("Some", "Ok", "Continue")]
            return rowf[-1] if rowf else None
        d = b.single_def(cur["l"])
        if d is None or d[2] != "call" or not d[3]["args"]:
            return None
        short = (d[3]["f"].get("fn") or "").rsplit("::", 1)[-1]
        if short not in ("branch", "ok_or", "ok_or_else", "unwrap", "expect", "copied", "cloned", "map"):
            return None
        q2 = op_place(d[3]["args"][0])
        if q2 is None:
            return None
        r2 = b.root_place(q2, through_names=True)
        cur = {"l": r2["l"], "p": list(r2["p"]) + list(cur["p"])}
    return None


def table_dispatch_calls(F, b):
    """calls through a function pointer taken from the found row of a table lookup: [(callsite, lookup, field index)]"""
    out = []
    lks = table_lookups(F, b)
    if not lks:
        return out
    for c in b.calls:
        if not c.ind:
            continue
        for lk in lks:
            j = lookup_field(b, c.f["ind"], lk)
            if j is not None:
                out.append((c, lk, j))
    return out


def fn_behind(F, path, depth=3):
    """the crate-local function a table cell's function stands for: itself, or (a closure / shim that only forwards) the one
    crate-local function it calls."""
    for _ in range(depth):
        b = F.bodies.get(path)
        if b is None:
            return path
        if b.kind != "Closure":
            return path
        loc = [c for c in b.calls if c.local and c.name in F.bodies]
        if len(loc) != 1:
            return path
        path = loc[0].name
    return path
