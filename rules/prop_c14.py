"""C14 — content streams survive encode and decode (DESIGN §4 C14): shares the lexical tables of C01; adds the
operand/operator separators of Content::encode, the operator alphabet and the inline-image sibling rule."""
import re
import lib, lexrules, byteset
from byteset import fmt_set, predicate_set

LEVEL = dict(
    level="other",
    rule_text="the lexical-table obligations of C01 (names, strings, nesting, hex, numbers; exhaustive over 256 byte values) plus: "
              "Content::encode writes an unconditional separator after every operand and between operations; the operator alphabet "
              "of the parser is disjoint from every byte an operand spelling can start with (keywords excepted); every operator the "
              "parser gives special syntax (BI/ID/EI) is treated specially by the encoder; the escape decision of write_string is order-insensitive (or the list is sorted first); i64/f32 are converted from the whole matched span, sign included",
    explanation="Decides: encoded operands and operators cannot fuse or be tokenised differently by lopdf's content parser, for any "
                "byte content; inline images are re-encoded with the syntax the parser requires. Does not decide: operand equality "
                "after the cycle.",
    trusted_base=["rustc MIR", "value-set analysis (byteset.py)", "core::fmt template encoding"],
)

# ISO 32000-1:2008 Annex A, Table A.1 (operator summary)
ISO_OPERATORS = [x.encode() for x in (
    "b B b* B* BDC BI BMC BT BX c cm CS cs d d0 d1 Do DP EI EMC ET EX f F f* G g gs h i ID j J K k l m M MP n q Q re RG rg ri s S SC sc SCN scn sh "
    "T* Tc Td TD Tf Tj TJ TL Tm Tr Ts Tw Tz v w W W* y ' \"").split()]


def _run(ctx):
    F = ctx.facts("default")
    lexrules.check_names(ctx, F)
    lexrules.check_strings(ctx, F, cr_required=False)
    lexrules.check_nesting(ctx, F)
    lexrules.check_hex_and_numbers(ctx, F)
    lexrules.check_separators(ctx, F)
    R = "R-ORDER"
    enc = F.fn("Content::encode")
    bodies = F.with_closures(enc)
    # what the encoder writes, as a token stream (lib.out_tokens): a write into the buffer is Write::write_all, a write! with a
    # template, Vec::extend_from_slice or Vec::push — the same bytes whichever way
    class Tk:
        def __init__(self, b, tk):
            self.b, self.kind, self.v, self.bb = b, tk[0], tk[1], tk[2]
            cs_ = b.callsite_at(tk[2])
            self.ln = cs_.ln if cs_ is not None else None
    toks = [Tk(b, tk) for b in bodies for tk in lib.out_tokens(b)]
    wo = [(t.b, t) for t in toks if t.kind == "call" and t.v.endswith("Writer::write_object")]
    sp = [(t.b, t) for t in toks if t.kind == "lit" and t.v[:1] in (b" ", b"\n")]
    ops = [(t.b, t) for t in toks if t.kind == "val" and re.search(r"(^|\.)operator\)*$", lib.val_source(t.b, t.v))]
    ctx.floor(R, "write_object calls in Content::encode", len(wo), 1)
    ctx.floor(R, "operator writes in Content::encode", len(ops), 1)
    # after every operand an unconditional separator precedes the next token: on every path from write_object to the
    # next write_object / operator write there is a separator write
    for b, c in wo:
        seps = [s.bb for bb2, s in sp if bb2 is b]
        nxt = [x.bb for bb2, x in wo + ops if bb2 is b]
        ok = True
        for n in nxt:
            if lib.feasible_reach(b, c.bb, n, avoid=seps):
                ok = False
        ctx.ob(R, "operand-separator|Content::encode", ok, "every path from an operand to the next token passes a separator write", b.where(c.ln),
               what="Content::encode can write an operand and the next operand/operator back to back without a separator")
    for b, c in ops:
        seps = [s.bb for bb2, s in sp if bb2 is b]
        nxt = [x.bb for bb2, x in wo + ops if bb2 is b]
        ok = all(not lib.feasible_reach(b, c.bb, n, avoid=seps) for n in nxt)
        ctx.ob(R, "operation-separator|Content::encode", ok, "every path from an operator to the next token passes a separator write", b.where(c.ln),
               what="Content::encode can write an operator and the next operation back to back without a separator")
    # operator alphabet
    opb = F.fn("parser::operator")
    # byte classes of the operator parser, in source order: one class for every byte, or one for the first byte and one for the rest
    classes = []
    for cl in sorted(F.closures_of(opb.path), key=lambda c: c.path):
        if cl.argc == 2 and cl.lty(0) == "bool":
            classes.append(predicate_set(F, cl))
    first = classes[0] if classes else None
    rest = classes[-1] if classes else None
    alpha = (first | rest) if first is not None and rest is not None else None
    delim = predicate_set(F, F.fn("parser::is_delimiter"))
    digits = frozenset(b"0123456789+-.")
    ok = alpha is not None and delim is not None and not (alpha & delim) and not (first & digits)
    ctx.ob("R-TABLE", "operator-alphabet", ok, "operator bytes %s are disjoint from delimiters, the first byte %s from number starts" % (fmt_set(alpha), fmt_set(first)), opb.where(),
           what="the operator alphabet %s overlaps the first bytes of operand spellings" % fmt_set(alpha))
    # every operator of ISO 32000-1 Table 51 (and the compatibility / inline-image / marked-content ones) is spelt within the alphabet
    need_first = frozenset(o[0] for o in ISO_OPERATORS)
    need_rest = frozenset(c for o in ISO_OPERATORS for c in o[1:])
    miss = sorted((need_first - first) | (need_rest - rest)) if alpha is not None else None
    ops_lost = sorted(o.decode() for o in ISO_OPERATORS if alpha is not None and (o[0] not in first or any(c not in rest for c in o[1:])))
    ctx.ob("R-TABLE", "operator-alphabet-covers-iso", alpha is not None and not miss, "all %d operators of ISO 32000-1 Table 51 are spelt within the parser's operator alphabet" % len(ISO_OPERATORS), opb.where(),
           what="the content parser's operator alphabet %s cannot spell the operator(s) %s (bytes %s missing): Content::decode stops or splits the token there, although Content::encode writes the operator verbatim"
                % (fmt_set(alpha), ops_lost, fmt_set(frozenset(miss or []))))
    csp = None
    cs = F.fn("parser::content_space")
    for cl in F.closures_of(cs.path):
        if cl.argc == 2 and cl.lty(0) == "bool":
            csp = predicate_set(F, cl)
    ctx.ob("R-TABLE", "content-space", csp is not None and frozenset(b" \n") <= csp, "content_space accepts %s ⊇ the separators the encoder writes" % fmt_set(csp), cs.where(),
           what="the content parser's white-space no longer contains the separators Content::encode writes")
    # sibling rule: operators with special syntax in the parser
    special = set()
    for fn in ("parser::inline_image", "parser::inline_image_impl"):
        b = F.fn(fn)
        for c in lib.calls_named(b, r"complete::tag$"):
            k = lib._const_bytes_through(b, c.args[0])
            if k and re.match(rb"^[A-Za-z]+$", k):      # operator keywords (separators such as CR LF are not syntax the encoder must mention)
                special.add(k)
    ctx.floor("R-SIB", "special operator tags in the parser", len(special), 3)
    enc_consts = set()
    for b in bodies:
        for bi, si, s in b.stmts():
            rv = s.get("rv")
            if rv and rv["k"] == "use":
                from mir import op_const, const_bytes
                k = op_const(rv["o"])
                if k is not None and const_bytes(k) is not None:
                    enc_consts.add(const_bytes(k))
        for c in b.calls:
            for a in c.args:
                k = lib._const_bytes_through(b, a)
                if k is not None:
                    enc_consts.add(k)
    missing = sorted(t for t in special if not any(t in e for e in enc_consts))
    ctx.ob("R-SIB", "inline-image|Content::encode", not missing, "encoder mentions %s" % sorted(special), enc.where(),
           what="the content parser gives %s special syntax (inline image: dictionary entries, ID, raw data, EI) but Content::encode never mentions %s: a decoded inline image is re-encoded as an ordinary operation that does not decode"
                % (sorted(x.decode() for x in special), [x.decode() for x in missing]))
    # what Content::encode writes without going through Writer::write_object: constants, the operator text and the raw image
    # data — nothing else (a dictionary key, a name or a string written raw would lose its escaping)
    rawvals = []
    for x in lib.local_scope(F, enc):
        for tk in lib.out_tokens(x):
            if tk[0] != "val":
                continue
            o_ = lib.origin_local(F, x, tk[1]) if tk[1] is not None else None
            last = [e.get("n") for e in (o_[2] if o_ else []) if isinstance(e, dict) and "f" in e and e.get("loc")]
            if not last:
                # a formatted argument is a reference to the value: read the field off its rendering
                m_ = re.search(r"(?:^|\.)(\w+)\)*$", lib.val_source(x, tk[1]))
                last = [m_.group(1)] if m_ else []
            if not last or last[-1] not in ("operator", "content"):
                rawvals.append(lib.val_source(x, tk[1]))
    ctx.ob("R-SIB", "raw-writes|Content::encode", not rawvals, "only the operator text and the image data are written without Writer::write_object", enc.where(),
           what="Content::encode writes %s straight to the buffer, past Writer::write_object: names and strings written that way lose their escaping (`/A#20B` comes out as `/A B`) and the content no longer decodes to the same operations" % rawvals)
    # inline images: after `ID` exactly one white-space character belongs to the syntax (ISO 32000-1 8.9.7) — the image data may
    # begin with white-space bytes, so the parser after the `ID` tag must not be a take-while over white space
    ii = F.fn("parser::inline_image_impl")
    iscope = lib.local_scope(F, ii)
    nid = 0
    lang = None
    for x in iscope:
        for c in x.calls:
            if not re.search(r"nom::sequence::pair$", c.fn or "") or len(c.args) != 2:
                continue
            d0 = x.def_rv(c.args[0])
            if not (d0 and d0[2] == "call" and (d0[3]["f"].get("fn") or "").endswith("complete::tag") and lib._const_bytes_through(x, d0[3]["args"][0]) == b"ID"):
                continue
            nid += 1
            lang = lib.nom_language(x, c.args[1])
    one = {b" ", b"\t", b"\r", b"\n"}
    oks = nid == 1 and lang is not None and {b" ", b"\n"} <= lang and lang <= one | {b"\r\n"}
    ctx.ob("R-TABLE", "inline-image|one-separator-after-ID", oks, "the `ID` tag is followed by a parser that takes one white-space byte (or CR LF): %s" % (sorted(lang) if lang is not None else "?"), ii.where(),
           what="after `ID` the content parser can take more than the one separator (it accepts %s): image data that begins with a white-space byte loses it, the data is shifted and the content stream changes or no longer decodes"
                % (sorted(lang) if lang is not None else "an unbounded run (or a parser the rule does not know)"))
    # the number of data bytes: every row is padded to a whole byte — height x ceil(width x components x bits / 8) (ISO 32000-1
    # 8.9.3), folded from the expression handed to `take` over a sample of the parameter space
    import symeval
    ids0 = F.fn("parser::image_data_stream")
    takes = [c for c in ids0.calls if (c.fn or "").endswith("complete::take")]
    badlen, npts = [], 0

    def key_of_call(b2, o, depth=8):
        cur = o
        for _ in range(depth):
            q = op_place_(cur)
            if q is None:
                return None
            d = b2.single_def(q["l"])
            if d is None:
                return None
            if d[2] == "rv" and d[3]["k"] in ("use", "cast"):
                cur = d[3]["o"]
                continue
            if d[2] == "rv" and d[3]["k"] == "ref":
                cur = {"c": d[3]["p"]}
                continue
            if d[2] == "call":
                fn_ = d[3]["f"].get("fn") or ""
                if fn_.endswith("ops::Fn::call") and len(d[3]["args"]) == 2:
                    td = b2.def_rv(d[3]["args"][1])
                    if td and td[2] == "rv" and td[3]["k"] == "agg" and td[3]["ops"]:
                        return lib._const_bytes_through(b2, td[3]["ops"][0])
                    return None
                if d[3]["args"]:
                    cur = d[3]["args"][0]
                    continue
            return None
        return None
    tls = lib.table_lookups(F, ids0)
    if len(takes) == 1:
        for w_ in (1, 5, 8, 13):
            for h_ in (1, 3, 4):
                for bpc_ in (1, 4, 8):
                    for ncol in (1, 3, 4):
                        env = {b"W": w_, b"H": h_, b"BPC": bpc_}

                        def leaf(b2, kind, x, env=env, ncol=ncol):
                            if kind == "call" and (x["f"].get("fn") or "").endswith("Object::as_i64") and x["args"]:
                                k = key_of_call(b2, x["args"][0])
                                return env.get(k)
                            if kind == "operand":
                                # the number of components looked up by the colour space name in a table kept in data
                                for lk_ in tls:
                                    j_ = lib.lookup_field(b2, x, lk_) if b2 is ids0 else None
                                    if j_ is not None and any(r_[j_] == ("int", ncol) for r_ in lk_["rows"]):
                                        return ncol
                                q = op_place_(x)
                                if q is not None and not q["p"]:
                                    ds = b2.defs.get(q["l"], [])
                                    ks = [op_const_(d[3]["o"]) for d in ds if d[2] == "rv" and d[3]["k"] == "use"]
                                    if len(ds) >= 3 and len(ks) == len(ds) and all(k is not None and "int" in k for k in ks) and str(ncol) in [str(k["int"]) for k in ks]:
                                        return ncol       # the number of colour components, chosen by the colour space name
                            return None
                        got = symeval.Eval(F, ids0, leaf).val(takes[0].args[0])
                        npts += 1
                        want_ = h_ * ((w_ * ncol * bpc_ + 7) // 8)
                        if got != want_:
                            badlen.append((w_, h_, bpc_, ncol, got, want_))
    ctx.ob("R-TABLE", "inline-image|data-length", len(takes) == 1 and not badlen, "take(height x ceil(width x components x bits / 8)) at %d points of the parameter space" % npts, ids0.where(),
           what="image_data_stream takes the wrong number of data bytes for an inline image: W=%s H=%s BPC=%s components=%s gives %s, the rows padded to whole bytes need %s" % (badlen[0] if badlen else ("?",) * 6))
    # ... and the colour space names of Table 93 (full names and abbreviations) are all accepted
    ids = F.fn("parser::image_data_stream")
    names = set()
    for x in lib.local_scope(F, ids):
        preds = {}
        for bi in range(x.n):
            for y in x.succ[bi]:
                preds.setdefault(y, []).append(bi)
        for bi in range(x.n):
            for via in [None] + preds.get(bi, []):
                for kk, v in lib.slice_matches(x, bi, via=via).items():
                    if isinstance(v, bytes):
                        names.add(v)
    for lk_ in lib.table_lookups(F, ids):
        names |= {r_[lk_["key_field"]][1] for r_ in lk_["rows"] if r_[lk_["key_field"]][0] == "bytes"}
    want = {b"DeviceGray", b"G", b"DeviceRGB", b"RGB", b"DeviceCMYK", b"CMYK"}
    ctx.ob("R-TABLE", "inline-image|colour-space-names", want <= names, "inline images accept %s" % sorted(n.decode("latin1") for n in names & want), ids.where(),
           what="image_data_stream does not accept the colour space name(s) %s of ISO 32000-1 Table 93: a content stream with such an inline image does not decode" % sorted(n.decode() for n in want - names))
    ctx.extra["exhaustive_over"] = "256 byte values for every byte-class obligation"


def op_const_(o):
    from mir import op_const
    return op_const(o)


def op_place_(o):
    from mir import op_place
    return op_place(o)


def run(ctx):
    _run(ctx)
    import prop_c01
    # literal strings (operands / titles) are written by Writer::write_string: its escape decision must not depend on list order
    prop_c01.membership_rule(ctx, ctx.facts("default"))
