"""C01 — save then load returns the same document: agreement of the writer's and reader's lexical tables and the
bookkeeping that the round trip needs (DESIGN §4 C01). Necessary conditions only."""
import re
import lib, lexrules
from mir import op_place, op_const, const_int

LEVEL = dict(
    level="other",
    rule_text="writer/reader table agreement, evaluated exhaustively over the 256 byte values: raw name bytes ⊆ bytes the name parser "
              "reads as themselves; every escaped string byte is spelled so that the reader's escape table decodes it back; raw string "
              "bytes are taken verbatim; raw parenthesis nesting ≤ MAX_BRACKET; separators for every variant whose spelling starts "
              "with a regular character; number/reference/hex spellings the reader's grammar accepts; offsets recorded before the "
              "object is written; stream body = exactly Length bytes on both sides; the cross-reference sections the writer builds start at the id of their first entry (shared with C03); the tail scan that locates the cross-reference data yields the LAST %%EOF/startxref (R-ORDER last-marker-wins); the escape decision of write_string is order-insensitive; numbers are converted from the whole matched span",
    explanation="Decides: the writer cannot emit a name, literal/hex string, token sequence, reference or stream framing that lopdf's own "
                "reader tokenises differently, for any byte content; object offsets in the cross-reference data are the positions where "
                "the objects start. Does not decide: equality of the whole value graph after the cycle, number spelling beyond the "
                "format class (f32 Display of huge/small reals), objects the writer skips by design (Type ObjStm/XRef/Linearized).",
    trusted_base=["rustc MIR", "core::fmt template encoding of the pinned toolchain", "value-set analysis over one byte variable (byteset.py)"],
)


def offsets_rule(ctx, F, R="R-ORDER"):
    b = F.fn("Writer::write_indirect_object")
    reads = [(bi, ln) for bi, kind, ln, s in lib.field_accesses(b, "CountingWrite", "bytes_written") if kind in ("read", "move")]
    writes = [c for c in b.calls if re.search(r"io::Write::(write_fmt|write_all|write)$", c.fn or "") or (c.local and re.search(r"Writer::write_", c.cname))]
    ok = len(reads) == 1 and bool(writes) and all(b.dominates(reads[0][0], w.bb) and reads[0][0] != w.bb or (reads[0][0] == 0 and w.bb != 0) for w in writes)
    ctx.ob(R, "offset-before-writes|write_indirect_object", ok, "bytes_written is read once, before any of the %d write calls" % len(writes), b.where(),
           what="write_indirect_object reads the byte counter after something of the object was already written: the recorded offset does not point at `n g obj`")
    ins = lib.calls_named(b, r"Xref::insert$")
    ok2 = len(ins) == 1 and b.oname(ins[0].args[1], 2) == "id" and re.match(r"^XrefEntry::Normal\{offset,generation\}$", b.oname(ins[0].args[2], 2)) is not None
    off_def = None
    for l, n in b.names.items():
        if n == "offset":
            d = b.single_def(l)
            off_def = b.rvname(d[3], 3) if d and d[2] == "rv" else None
    ok2 = ok2 and off_def is not None and re.match(r"^\*?file\.bytes_written as u32$", off_def) is not None
    ctx.ob(R, "offset-recorded|write_indirect_object", ok2, "xref.insert(id, Normal{offset = bytes_written as u32, generation})", b.where(),
           what="the cross-reference entry of an object is not (its own id -> the byte counter read before writing it, its own generation)")
    # header text "{} {} obj\n{}" of (id, generation)
    fs = lib.format_sites(b)
    hdr = [s for s in fs if any(p[0] == "lit" and b" obj" in p[1] for p in s["pieces"])]
    okh = len(hdr) == 1 and hdr[0]["args"][:2] == [("display", "u32"), ("display", "u16")] and [p[1] for p in hdr[0]["pieces"] if p[0] == "lit"][:2] == [b" ", b" obj\n"]
    ctx.ob("R-TABLE", "object-header", okh, "object header is `{id} {gen} obj\\n`", b.where(), what="the indirect object header is no longer `<num> <gen> obj`")
    end = [s for s in fs if any(p[0] == "lit" and b"endobj" in p[1] for p in s["pieces"])]
    ctx.ob("R-TABLE", "object-trailer", len(end) == 1, "object ends with endobj", b.where(), what="`endobj` is no longer written")


def stream_rule(ctx, F, R="R-ORDER"):
    b = F.fn("Writer::write_stream")
    seq = []
    for c in b.calls:
        if c.local and c.cname.endswith("write_dictionary"):
            seq.append(("dict", c))
        elif re.search(r"io::Write::write_all$", c.fn or ""):
            k = lib._const_bytes_through(b, c.args[1])
            t = b.oname(c.args[1], 3)
            seq.append((k if k is not None else ("content" if "content" in t else t), c))
    order = [x[0] for x in seq]
    ok = order == ["dict", b"stream\n", "content", b"\nendstream"] and all(b.dominates(seq[i][1].bb, seq[i + 1][1].bb) for i in range(len(seq) - 1))
    ctx.ob(R, "stream-framing|write_stream", ok, "dictionary, `stream\\n`, content, `\\nendstream` in this order: %s" % order, b.where(),
           what="write_stream no longer writes dictionary, `stream` LF, the content bytes and LF `endstream` in that order (got %s)" % order)
    # reader: takes exactly Length bytes
    p = F.fn("parser::stream")
    takes = lib.calls_named(p, r"nom::bytes::complete::take$")
    okr = False
    how = "?"
    if len(takes) == 1:
        how = p.sname(takes[0].args[0], 6)
        # by data flow: the argument is (an integer cast of) the Ok payload of a chain of Result combinators that starts at
        # Dictionary::get(dict, "Length")
        cur = takes[0].args[0]
        for _ in range(16):
            q = op_place(cur)
            if q is None:
                break
            if any(not (isinstance(e, dict) and ("f" in e or "v" in e or "down" in e)) for e in q["p"] if e != "*"):
                break
            d = p.single_def(q["l"])
            if d is None:
                break
            if d[2] == "rv" and d[3]["k"] in ("use", "cast") and (d[3]["k"] == "use" or d[3]["kind"].startswith("IntToInt")):
                cur = d[3]["o"]
                continue
            if d[2] == "rv" and d[3]["k"] == "ref":
                cur = {"c": d[3]["p"]}
                continue
            if d[2] == "call":
                fn_ = d[3]["f"].get("fn") or ""
                if re.search(r"Dictionary::get$", d[3]["f"].get("res") or fn_):
                    ks = [lib._const_bytes_through(p, a) for a in d[3]["args"][1:]]
                    okr = ks == [b"Length"]
                    break
                if re.search(r"Result::<.*>::(and_then|map|and|or_else)$|ops::Try::branch$", fn_) and d[3]["args"]:
                    cur = d[3]["args"][0]
                    continue
            break
    ctx.ob(R, "stream-length|parser::stream", okr, "the body is take(%s)" % how, p.where(),
           what="parser::stream does not take exactly /Length bytes as the stream body (argument of take: %s): a body is cut or extended depending on its content" % how)
    keys = [lib._const_bytes_through(p, a) for c in lib.calls_named(p, r"Dictionary::get$") for a in c.args[1:]]
    ctx.ob(R, "stream-length-key|parser::stream", b"Length" in keys, "Length is read from the stream dictionary", p.where(), what="parser::stream no longer reads /Length")
    tags = [lib._const_bytes_through(p, c.args[0]) for c in lib.calls_named(p, r"complete::tag$")]
    ctx.ob("R-TABLE", "stream-keywords|parser::stream", b"stream" in tags and b"endstream" in tags, "keywords stream/endstream", p.where(), what="parser::stream lost a keyword")
    # Stream::new / set_content keep Length == content.len()  (C09 rule 1 decides the setters; here: the reader builds through Stream::new)
    news = [c for c in p.calls if c.local and re.search(r"Stream::new$", c.cname)]
    ctx.ob(R, "stream-built-by-new|parser::stream", len(news) == 1, "the parsed stream is built by Stream::new(dict, data)", p.where(), what="parser::stream no longer builds the stream through Stream::new")


def membership_rule(ctx, F, R="R-TABLE"):
    """write_string decides per index whether to escape by membership in escape_indice, a list built in unsorted order
    (unbalanced '(' positions are appended at the end): the test must be order-insensitive."""
    b = F.fn("Writer::write_string")
    # the index list is identified by data flow: the Vec<usize> that receives `append(&mut other Vec<usize>)`
    # (or the set of positions that is extended by the stack of open parentheses)
    app = [c for c in b.calls if len(c.args) == 2 and re.search(r"(Vec|BTreeSet|HashSet)::<.*>::append$|iter::Extend::extend$", c.fn or "") and "usize" in (c.full or "")
           and (lib.origin_local(F, b, c.args[1]) or (None, None, None))[0] is b and not lib.origin_local(F, b, c.args[1])[2]
           and re.match(r"^(&mut )?std::vec::Vec<usize", b.lty(lib.origin_local(F, b, c.args[1])[1]))]
    V = None
    if len(app) == 1:
        o = lib.origin_local(F, b, app[0].args[0])
        V = o[1] if o is not None and o[0] is b and not o[2] else None

    def onV(c):
        o = lib.origin_local(F, b, c.args[0]) if c.args else None
        return o is not None and o[0] is b and o[1] == V and not o[2]
    tests = [c for c in b.calls if V is not None and onV(c) and re.search(r"(contains|binary_search|binary_search_by|binary_search_by_key|partition_point|iter|into_iter|first|last|get)$", c.fn or "")]
    sorts = [c for c in b.calls if V is not None and onV(c) and re.search(r"::(sort|sort_unstable|sort_by|sort_by_key|sort_unstable_by)$", c.fn or "")]
    bad = [c for c in tests if not re.search(r"(slice::<impl \[T\]>|BTreeSet::<.*>|HashSet::<.*>)::contains$", c.fn or "")]
    ok = bool(tests) and (not bad or all(any(b.dominates(s.bb, c.bb) for s in sorts) for c in bad))
    ctx.ob(R, "strings|escape-membership", ok, "the escape decision is a `contains` test on the index list (order-insensitive), or the list is sorted first", b.where(),
           what="write_string looks an index up in its list of positions to escape with %s, but the list is not sorted (positions of unclosed '(' are appended last): some bytes that must be escaped are written raw"
                % sorted(set((c.fn or "").rsplit("::", 1)[-1] for c in bad)))
    ctx.ob(R, "strings|unclosed-parens-escaped", len(app) == 1 and V is not None, "unclosed '(' positions are appended to the list of positions to escape", b.where(),
           what="write_string no longer escapes '(' that are never closed")


def _run(ctx):
    F = ctx.facts("default")
    lexrules.check_names(ctx, F)
    lexrules.check_strings(ctx, F, cr_required=False)
    lexrules.check_nesting(ctx, F)
    membership_rule(ctx, F)
    lexrules.check_hex_and_numbers(ctx, F)
    lexrules.check_separators(ctx, F)
    offsets_rule(ctx, F)
    stream_rule(ctx, F)
    ctx.floor("R-TABLE", "C01 obligations", len(ctx.obligations), 40)
    ctx.extra["exhaustive_over"] = "256 byte values for every byte-class obligation"


def run(ctx):
    _run(ctx)
    import readerrules
    readerrules.last_marker(ctx, ctx.facts("default"))
    # the cross-reference sections the writer builds must describe the objects they list (C03's rule): a reader that trusts them
    # (a second save/load cycle goes through xref.size and the section keys) otherwise loses or mislabels objects
    import prop_c03
    prop_c03.section_building(ctx, ctx.facts("default"))
