"""C03 — saved files are structurally valid for a strict third-party reader (DESIGN §4 C03): writer-side structure."""
import re
import lib, lexrules, prop_c01, prop_c09
from mir import op_place, op_const, const_int, AnchorLost

LEVEL = dict(
    level="other",
    rule_text="20-byte cross-reference entries for every value (format widths vs argument types); W = [1 4 2] agrees with the bytes "
              "pushed per entry; Index pairs and Length come from the serialised sections; save ordering: header, binary mark, "
              "objects, xref_start read after the last object and written after `startxref`; Size = max_id + 1; subsections start at "
              "the id of their first entry; what a strict reader normalises is escaped (CR in literal strings); every Stream "
              "constructor/setter sets Length from the content; every XrefEntry variant reaches a 20-byte format site; on load xref.size is forced to max_id()+1 in both directions, after every Xref::merge, before Document.max_id is assigned (an understated Size would otherwise be written back)",
    explanation="Decides the writer-side structural facts that do not depend on the document's values. Does not decide: that "
                "offsets are numerically right for a given document beyond their provenance (the byte counter, C19), `as u32` "
                "truncation above 4 GiB, that Size exceeds every object number (needs max_id >= every key, C11).",
    trusted_base=["rustc MIR", "core::fmt template encoding", "ISO 32000-1 §7.5.4 / §7.5.8 constants embedded in the rule"],
)


def entry_width(ctx, F):
    R = "R-TABLE"
    b = F.fn("XrefEntry::write_xref_entry")
    sites = lib.format_sites(b)
    # every variant of XrefEntry must reach a format site (arms may be merged with an or-pattern, so the number of sites is
    # not fixed; the number of variants is)
    adt = F.adts.get("xref::XrefEntry")
    nvar = len(adt["variants"]) if adt else 0
    covered = set()
    for bi in range(b.n):
        t = b.term(bi)
        if t["k"] != "switch" or t["dty"] == "bool":
            continue
        p = op_place(t["d"])
        d = b.single_def(p["l"]) if p is not None and not p["p"] else None
        if not (d and d[2] == "rv" and d[3]["k"] == "discr"):
            continue
        listed = {int(v): x for v, x in t["tg"]}
        for vi in range(nvar):
            tgt = listed.get(vi, t["else"])
            if any(s_["bb"] == tgt or b.can_reach(tgt, s_["bb"]) for s_ in sites):
                covered.add(vi)
    ctx.floor(R, "XrefEntry variants that reach a format site", len(covered), 4)
    ctx.ob(R, "xref-entry-every-variant", nvar == 4 and len(covered) == nvar, "each of the %d XrefEntry variants is written by a format site" % nvar, b.where(),
           what="an XrefEntry variant is written without a 20-byte entry line (variants covered: %s of %d)" % (sorted(covered), nvar))
    for s in sites:
        lo = hi = 0
        ok = True
        ai = 0
        for kind, v in s["pieces"]:
            if kind == "lit":
                lo += len(v)
                hi += len(v)
            else:
                a = s["args"][ai] if ai < len(s["args"]) else None
                ai += 1
                if a is None:
                    ok = False
                    continue
                trait, ty = a[0], a[1].lstrip("&")
                if getattr(a, "value", None) is not None:
                    n = len(str(a.value))
                    w = v["width"] or 0
                    lo += max(n, w)
                    hi += max(n, w)
                else:
                    r = lib.render_width(v, trait, ty)
                    if r is None:
                        ok = False
                    else:
                        lo += r[0]
                        hi += r[1]
        lits = b"".join(v for k, v in s["pieces"] if k == "lit")
        kind_ok = re.search(rb" [nf] \n$", lits) is not None
        ctx.ob(R, "xref-entry-20-bytes|line-shape-%s" % lits.decode("latin1").strip(), ok and lo == hi == 20 and kind_ok,
               "entry is %d..%d bytes for every argument value, ends with ` n|f` SP LF" % (lo, hi), b.where(s["ln"]),
               what="a cross-reference table entry is not exactly 20 bytes for every value (between %d and %d bytes; literal part %r)" % (lo, hi, lits))
    sec = F.fn("XrefSection::write_xref_section")
    ss = lib.format_sites(sec)
    oks = len(ss) == 1 and [tuple(a) for a in ss[0]["args"]] == [("display", "u32"), ("display", "usize")] and [v for k, v in ss[0]["pieces"] if k == "lit"] == [b" ", b"\n"]
    if oks:
        t = [lib.traced(sec, a.operand, 5) for a in ss[0]["args"]]
        oks = "starting_id" in t[0] and "len(" in t[1] and "entries" in t[1]
    ctx.ob(R, "xref-subsection-header", oks, "subsection header is `{starting_id} {entries.len()}`", sec.where(),
           what="the subsection header is not `<first id> <number of entries of this very section>`")


def xref_stream_widths(ctx, F):
    R = "R-TABLE"
    b = F.fn("Writer::create_xref_steam")
    # per entry arm: push(1 byte) + extend(to_be_bytes u32: 4) + extend(2 bytes)
    # the byte buffer: the Vec<u8> local that receives the entry bytes (by data flow, whatever it is called)
    from collections import Counter
    recv = Counter()
    for c in lib.calls_named(b, r"Vec::<.*>::push$|iter::Extend::extend$|Vec::<.*>::extend_from_slice$"):
        o = lib.origin_local(F, b, c.args[0])
        if o is not None and o[0] is b and not o[2] and re.match(r"^std::vec::Vec<u8", b.lty(o[1])):
            recv[o[1]] += 1
    BUF = recv.most_common(1)[0][0] if recv else None

    def on_buf(c):
        o = lib.origin_local(F, b, c.args[0])
        return o is not None and o[0] is b and not o[2] and o[1] == BUF
    pushes = [c for c in lib.calls_named(b, r"Vec::<.*>::push$") if on_buf(c)]
    exts = [c for c in lib.calls_named(b, r"iter::Extend::extend$|Vec::<.*>::extend_from_slice$") if on_buf(c)]
    sizes = []

    def appended_bytes(c):
        """how many bytes the call appends: from the type of what is appended ([u8; N], a byte literal, vec![a, b])"""
        full = c.full or ""
        m = re.search(r"Extend<u8>>::extend::<\[u8; (\d+)\]>", full)
        if m:
            return int(m.group(1))
        kb = lib._const_bytes_through(b, c.args[1])
        if kb is not None:
            return len(kb)
        o = c.args[1]
        for _ in range(5):
            q = op_place(o)
            if q is None:
                break
            m = re.match(r"^&?(?:mut )?\[u8; (\d+)\]$", b.lty(q["l"])) if not q["p"] else None
            if m:
                return int(m.group(1))
            d = b.single_def(q["l"]) if not q["p"] else None
            if d is None:
                break
            if d[2] == "rv" and d[3]["k"] in ("use", "cast"):
                o = d[3]["o"]
            elif d[2] == "rv" and d[3]["k"] == "ref":
                o = {"c": d[3]["p"]}
            elif d[2] == "rv" and d[3]["k"] == "agg" and d[3]["kind"].get("a") == "array":
                return len(d[3]["ops"])
            else:
                break
        if "Vec<u8>" in full:
            lit = lib.vec_literal(b, c.args[1])
            return len(lit) if lit is not None else (2 if "from_elem" not in b.oname(c.args[1], 3) else -1)
        return -1
    for c in exts:
        sizes.append(appended_bytes(c))
    ok = len(pushes) == 4 and sorted(sizes) == [2, 2, 2, 2, 4, 4, 4, 4]
    ctx.ob(R, "xref-stream-entry-bytes", ok, "each of the 4 entry kinds pushes 1 + 4 + 2 bytes (extend sizes %s)" % sorted(sizes), b.where(),
           what="create_xref_steam does not push 1 + 4 + 2 bytes for each of the four entry kinds (push calls %d, extend sizes %s)" % (len(pushes), sorted(sizes)))
    types = sorted(set(b.oname(c.args[1], 2) for c in pushes))
    ctx.ob(R, "xref-stream-type-bytes", types == ["0", "1", "2"], "type bytes are 0 (free), 1 (in use), 2 (compressed): %s" % types, b.where(),
           what="the type byte of cross-reference stream entries is not 0/1/2 (%s)" % types)
    w = F.fn("Document::write_cross_reference_stream")
    sets = lib.dict_sets(w)
    okw = False
    how = "?"
    for k, v, c in sets:
        if k == b"W":
            d = w.def_rv(v)
            if d and d[2] == "rv" and d[3]["k"] == "agg" and d[3]["kind"].get("var") == "Array":
                els = lib.vec_literal(w, d[3]["ops"][0])
                if els is not None:
                    how = []
                    for e in els:
                        de = w.def_rv(e)
                        val = None
                        if de and de[2] == "rv" and de[3]["k"] == "agg" and de[3]["kind"].get("var") == "Integer":
                            val = lib.const_value(F, w, de[3]["ops"][0])
                        how.append(val)
                    okw = how == [1, 4, 2]
    ctx.ob(R, "xref-stream-W", okw, "W = %s" % how, w.where(), what="the W array of the cross-reference stream is not [1 4 2], the widths create_xref_steam writes (%s)" % how)
    # Index pairs and stream length come from the same serialisation
    idx = [c for c in lib.calls_named(b, r"Vec::<.*>::push$") if not on_buf(c) and re.match(r"^&?(mut )?std::vec::Vec<object::Object", b.operand_type(c.args[0]) if hasattr(b, "operand_type") else
           (b.lty((lib.origin_local(F, b, c.args[0]) or (b, 0, []))[1])))]
    it = [b.oname(c.args[1], 5) for c in idx]
    okx = len(idx) == 2 and "starting_id" in it[0] and ("len(" in it[1] and "entries" in it[1])
    ctx.ob(R, "xref-stream-Index", okx, "Index pairs are (section.starting_id, section.entries.len()): %s" % it, b.where(),
           what="the Index array is not built from each serialised section's first id and entry count (%s)" % it)
    # Length: the value write_cross_reference_stream sets comes out of create_xref_steam as a component of its result (tuple or
    # struct); there it is `len()` of the byte buffer the entries were pushed into
    sl = None
    okl = False
    for k, v, c in sets:
        if k == b"Length":
            comp = lib.call_component(F, w, v)
            if comp is not None and comp[0] is b:
                d = b.def_rv(comp[1])
                q = comp[1]
                for _ in range(4):
                    d = b.single_def(op_place(q)["l"]) if op_place(q) is not None and not op_place(q)["p"] else None
                    if d is not None and d[2] == "rv" and d[3]["k"] in ("use", "cast"):
                        q = d[3]["o"]
                        continue
                    break
                sl = b.sname(comp[1], 4)
                if d is not None and d[2] == "call" and (d[3]["f"].get("fn") or "").endswith("::len") and d[3]["args"]:
                    o = lib.origin_local(F, b, d[3]["args"][0])
                    okl = o is not None and o[0] is b and o[1] == BUF
    ctx.ob(R, "xref-stream-Length", okl, "Length = %s" % sl, b.where(), what="the cross-reference stream's length is not the length of the serialised entries (%s)" % sl)
    tv = [w.oname(v, 6) for k, v, c in sets if k == b"Type"]
    ctx.ob(R, "xref-stream-Type", any("XRef" in t for t in tv), "Type = XRef", w.where(), what="the cross-reference stream dictionary is not typed /XRef")
    ins = lib.calls_named(w, r"Xref::insert$")
    oki = len(ins) == 1 and "xref_start" in w.oname(ins[0].args[2], 4) and "max_id" in lib.traced(w, {"c": w.root_place(op_place(ins[0].args[1]), through_names=True)}, 4)
    ctx.ob(R, "xref-stream-self-entry", oki, "the stream's own entry is (new id -> xref_start)", w.where(), what="the cross-reference stream does not list itself at the offset where it is written")


def section_building(ctx, F):
    R = "R-ORDER"
    for fn in ("Writer::write_xref", "Writer::create_xref_steam"):
        b = F.fn(fn)
        news = [c for c in b.calls if c.local and c.cname.endswith("XrefSection::new")]
        loops = b.loops()
        inloop = [c for c in news if any(c.bb in bl for bl in loops.values())]
        okn = bool(inloop) and all(re.match(r"^obj_id$|^\w+$", b.oname(c.args[0], 3)) and "Add(" not in b.oname(c.args[0], 4) and "Sub(" not in b.oname(c.args[0], 4) for c in inloop)
        # the loop variable is what is passed
        lv = set()
        import guard
        env = guard.Env(b)
        for fx, dpos, v in env.loop_var_facts():
            lv.add(v)
        okv = all(op_place(b.resolve_copy(c.args[0])) is not None and b.root_place(op_place(c.args[0]))["l"] in lv for c in inloop)
        ctx.ob(R, "subsection-start|%s" % fn, okn and okv, "every XrefSection::new inside the loop starts at the current object number (%s)" % [b.oname(c.args[0], 4) for c in inloop], b.where(),
               what="%s starts a subsection at %s instead of the object number of the entry it is about to hold: every entry of that subsection describes the wrong object"
                    % (fn, [b.oname(c.args[0], 4) for c in inloop]))
        # reset-if-empty: an is_empty test whose true edge re-creates the section dominates every add_entry in the loop
        adds = [c for c in b.calls if c.local and re.search(r"XrefSection::(add_entry|add_unusable_free_entry)$", c.cname) and any(c.bb in bl for bl in loops.values())]
        empt = [c for c in b.calls if c.local and c.cname.endswith("XrefSection::is_empty") and any(c.bb in bl for bl in loops.values())]
        okr = False
        for e in empt:
            if e.to is None:
                continue
            t = b.term(e.to)
            if t["k"] != "switch":
                continue
            tb = t["else"]
            recreated = any(c.bb == tb or b.dominates(tb, c.bb) and len(b.pred[tb]) == 1 for c in inloop)
            if recreated and all(b.dominates(e.bb, a.bb) for a in adds):
                okr = True
        ctx.ob(R, "subsection-reset-if-empty|%s" % fn, okr and bool(adds), "an empty pending subsection is re-created at the current id before any entry is added", b.where(),
               what="%s can add an entry to an empty pending subsection whose starting id is stale (after a run of unused object numbers)" % fn)
        # a subsection that was written out is re-created before anything is added to it (or written) again: otherwise the
        # entries after a run of unused numbers are appended to the old subsection and filed under numbers that are too small
        flushes = [c for c in b.calls if c.local and c.cname.endswith("XrefSection::write_xref_section") and any(c.bb in bl for bl in loops.values())]
        def recv(c_):
            q_ = op_place(c_.args[0]) if c_.args else None
            return b.root_place(q_, through_names=False)["l"] if q_ is not None else None
        for w in flushes:
            rl = recv(w)
            # the same section value: uses of the same variable, on a path on which it was not assigned anew (a fresh
            # XrefSection::new, or the next element of a list of finished sections)
            kill = {c.bb for c in news} | {d[0] for d in b.defs.get(rl, []) if d[2] != "proj"}
            again = [a for a in adds + [x for x in b.calls if x.local and x.cname.endswith("XrefSection::write_xref_section")]
                     if recv(a) == rl and lib.feasible_reach(b, w.bb, a.bb, avoid=kill)]
            ctx.ob(R, "flushed-subsection-recreated|%s" % fn, not again, "after write_xref_section the pending subsection is re-created before it is used again", b.where(w.ln),
                   what="%s writes a subsection out and goes on using it (line(s) %s) without starting a new one: the entries after a hole in the numbering are filed under the wrong object numbers and the subsection is written twice"
                        % (fn, sorted({a.ln for a in again})))
    # table starts with object 0 free
    wx = F.fn("Writer::write_xref")
    first = [c for c in wx.calls if c.local and c.cname.endswith("XrefSection::new") and wx.oname(c.args[0], 2) == "0"]
    fr = [c for c in wx.calls if c.local and c.cname.endswith("add_unusable_free_entry")]
    ctx.ob(R, "table-starts-with-object-0", len(first) == 1 and any(wx.dominates(first[0].bb, c.bb) and not any(c.bb in bl for bl in wx.loops().values()) for c in fr),
           "the table starts with the free entry of object 0", wx.where(), what="the cross-reference table no longer starts with the free-list head entry for object 0")
    lits = [s for s in lib.format_sites(wx) if any(k == "lit" and v.startswith(b"xref") for k, v in s["pieces"])]
    ctx.ob(R, "xref-keyword", len(lits) == 1, "`xref` keyword line", wx.where(), what="the `xref` keyword line is missing")


def save_ordering(ctx, F):
    R = "R-ORDER"
    for fn in ("Document::save_internal", "IncrementalDocument::save_internal"):
        b = F.fn(fn)
        toks = lib.out_tokens(b)
        hdr = [{"bb": t[2]} for t in toks if t[0] == "lit" and b"%PDF-" in t[1]]
        sxi = [i for i, t in enumerate(toks) if t[0] == "lit" and b"startxref" in t[1]]
        sx = [toks[i] for i in sxi]
        wio = [c for c in b.calls if c.local and c.cname.endswith("Writer::write_indirect_object")]
        bm = [c for c in b.calls if c.local and c.cname.endswith("Writer::write_binary_mark")]
        wx = [c for c in b.calls if c.local and (c.cname.endswith("Writer::write_xref") or c.cname.endswith("write_cross_reference_stream"))]
        ok = len(hdr) == 1 and len(sx) == 1 and len(bm) == 1 and bool(wio) and len(wx) == 2
        if ok:
            ok = all(b.dominates(hdr[0]["bb"], c.bb) for c in wio + bm + wx) and b.dominates(bm[0].bb, wio[0].bb)
        ctx.ob(R, "header-first|%s" % fn, ok, "%%PDF- header, binary mark, objects, cross-reference section", b.where(), what="%s does not write header, binary mark, objects and cross-reference section in that order" % fn)
        # xref_start
        xs = [l for l, n in b.names.items() if n == "xref_start"]
        okx = False
        how = "?"
        if len(xs) == 1:
            d = b.single_def(xs[0])
            if d and d[2] == "rv":
                how = b.rvname(d[3], 3)
                rd = d[0]
                after_loop = all(not b.can_reach(rd, c.bb) for c in wio)
                before_x = all(b.dominates(rd, c.bb) for c in wx)
                okx = "bytes_written" in how and after_loop and before_x
        ctx.ob(R, "xref_start-after-objects|%s" % fn, okx, "xref_start = %s, read after the last object and before the cross-reference section" % how, b.where(),
               what="%s does not take xref_start from the byte counter between the last object and the cross-reference section" % fn)
        oks = False
        if len(sxi) == 1 and sxi[0] + 2 < len(toks) + 0 and len(toks) > sxi[0] + 2:
            t0, t1, t2 = toks[sxi[0]], toks[sxi[0] + 1], toks[sxi[0] + 2]
            oks = t0[1].endswith(b"\nstartxref\n") and t1[0] == "val" and "xref_start" in lib.val_source(b, t1[1]) and t2[0] == "lit" and t2[1].startswith(b"\n%%EOF")
        ctx.ob(R, "startxref-value|%s" % fn, oks, "`startxref` is followed by xref_start and %%EOF", b.where(), what="the value after `startxref` is not xref_start (or the trailer keywords changed)")
        # the stream variant receives the same xref_start
        cs = [c for c in wx if c.cname.endswith("write_cross_reference_stream")]
        okc = len(cs) == 1 and "xref_start" in b.oname(cs[0].args[-1], 4)
        ctx.ob(R, "xref-stream-offset|%s" % fn, okc, "write_cross_reference_stream receives xref_start", b.where(), what="the cross-reference stream is told an offset other than xref_start")
    # Size = max_id + 1 on both paths
    for fn in ("Document::write_trailer", "Document::write_cross_reference_stream"):
        b = F.fn(fn)
        ss = [c for c in b.calls if c.local and c.cname.endswith("Dictionary::set") and re.search(r"Size", b.oname(c.args[1], 4))]
        ok = len(ss) == 1 and re.search(r"Add\(\*self\.max_id,1\)", b.oname(ss[0].args[2], 6)) is not None
        if ok and fn.endswith("stream"):
            inc = [(bi, si) for bi, si, s in lib.stores_to_field(b, "max_id")]
            ok = len(inc) == 1 and lib.before(b, inc[0], (ss[0].bb, "T"))
        ctx.ob(R, "Size|%s" % fn, ok, "Size = max_id + 1%s" % (" after the id for the stream itself was allocated" if fn.endswith("stream") else ""), b.where(),
               what="%s does not set Size to max_id + 1 (for the stream variant: after allocating the stream's own id)" % fn)
    wt = F.fn("Document::write_trailer")
    lits = [lib._const_bytes_through(wt, c.args[1]) for c in lib.calls_named(wt, r"io::Write::write_all$")]
    ctx.ob(R, "trailer-keyword", b"trailer\n" in lits, "`trailer` keyword", wt.where(), what="the `trailer` keyword is missing")
    # binary mark
    bm = F.fn("Writer::write_binary_mark")
    import byteset
    ps = None
    for cl in F.closures_of(bm.path):
        if cl.lty(0) == "bool":
            ps = byteset.predicate_set(F, cl)
    okb = ps == frozenset(range(128, 256))
    wr = [c for c in lib.calls_named(bm, r"io::Write::write_all$")]
    al = [c for c in bm.calls if (c.fn or "").endswith("Iterator::all")]
    okb = okb and len(al) == 1 and all(bm.dominates(al[0].bb, c.bb) for c in wr)
    ctx.ob("R-TABLE", "binary-mark", okb, "the binary comment is written only when all its bytes are >= 128", bm.where(), what="write_binary_mark can write a binary comment with bytes below 128 (or lost its check)")


def _run(ctx):
    F = ctx.facts("default")
    entry_width(ctx, F)
    xref_stream_widths(ctx, F)
    section_building(ctx, F)
    save_ordering(ctx, F)
    prop_c01.offsets_rule(ctx, F)
    prop_c01.stream_rule(ctx, F)
    lexrules.check_strings(ctx, F, cr_required=True)
    prop_c09.length_rules(ctx, F)
    import prop_c19
    prop_c19.counted_sink(ctx, F)
    ctx.floor("R-TABLE", "C03 obligations", len(ctx.obligations), 40)


def run(ctx):
    _run(ctx)
    import prop_c07
    prop_c07.default_is_new(ctx, ctx.facts("default"))
    import readerrules
    readerrules.run(ctx, ctx.facts("default"), ("R1",))
