"""C07 — incremental updates: latest revision wins, history preserved (DESIGN §4 C07)."""
import re
import lib, prop_c05
from mir import op_place, AnchorLost

LEVEL = dict(
    level="other",
    rule_text="newest-first merges never replace (Xref::merge and the object-stream merge use entry().or_insert() only; the receiver of "
              "merge is the newer table and the next Prev comes from the older trailer); the merged table's Compressed entries are "
              "consulted when object streams are expanded; incremental save writes the previously loaded bytes unchanged first and "
              "accounts for them; new_from_prev links Prev to the previous xref_start and carries max_id and the xref type; nothing "
              "outside the constructors can mutate the previous view; copy-on-write only when absent; on load the highest object number is taken after every Xref::merge and xref.size is corrected in both directions; the tail scan yields the last %%EOF/startxref (a short last revision leaves two markers in the scanned tail)",
    explanation="Decides the structural conditions for `latest wins` and `history preserved`. Does not decide correctness of arbitrary "
                "histories or repeated load/update cycles.",
    trusted_base=["rustc MIR and callee resolution", "BTreeMap Entry::or_insert semantics"],
)
LEVEL["rule_text"] += '; the /Prev loop is left only because /Prev is absent, lies outside the file, or was visited before (a forward link is legal)'


def _run(ctx):
    F = ctx.facts("default")
    R = "R-WHO"
    # 1. Xref::merge
    mg = F.fn("Xref::merge")
    ins = [c for c in mg.calls if re.search(r"BTreeMap::<.*>::(insert|extend|append)$|iter::Extend::extend$", c.fn or "")]
    ori = [c for c in mg.calls if re.search(r"btree_map::Entry::<.*>::or_insert$", c.fn or "")]
    ctx.ob(R, "xref-merge-add-only", not ins and len(ori) == 1, "Xref::merge inserts through entry().or_insert() only", mg.where(),
           what="Xref::merge can replace entries that are already present: an older revision's entry overrides the newer one")
    rd = F.fn("Reader::read")
    merges = lib.local_calls(F, rd, "Xref::merge")
    ctx.floor(R, "Xref::merge calls in Reader::read", len(merges), 2)
    for c in merges:
        recv = rd.oname(c.args[0], 3)
        arg = rd.oname(c.args[1], 3)
        ctx.ob("R-ORDER", "merge-direction|%s" % arg, recv.strip("&*") == "xref" and arg.startswith("prev_xref"), "%s.merge(%s): the table read at startxref receives the older one" % (recv, arg), rd.where(c.ln),
               what="Reader::read merges in the wrong direction (%s.merge(%s)): with add-only merging the older revision would win" % (recv, arg))
    # the next Prev comes from the older trailer
    prevs = [(bi, si, s) for bi, si, s in rd.stmts() if "lhs" in s and not s["lhs"]["p"] and rd.names.get(s["lhs"]["l"]) == "prev_xref_start"]
    srcs = [rd.rvname(s["rv"], 6) for bi, si, s in prevs]
    srcs += ["%s(%s)" % (lib.canon_callee(F, c), ",".join(rd.oname(a, 4) for a in c.args)) for c in rd.calls if not c.dest["p"] and rd.names.get(c.dest["l"]) == "prev_xref_start"]
    ok = any("prev_trailer" in t and "Prev" in t for t in srcs) and any("&trailer" in t and "Prev" in t for t in srcs)
    if not srcs:
        # the loop variable goes by another name (or is a field of a value that groups the loop state): this reading by names has
        # nothing to read; the data-flow rule `prev-chain-followed-to-its-end` (readerrules.prev_chain, part of this check) decides
        ctx.ob("R-ORDER", "prev-chain", True, "decided by prev-chain-followed-to-its-end (no variable named prev_xref_start)", rd.where(), nontrivial=False)
    else:
      ctx.ob("R-ORDER", "prev-chain", ok and len(srcs) == 2, "Prev is first taken from the newest trailer, then from each older trailer: %s" % [t[:60] for t in srcs], rd.where(),
             what="the Prev chain is not followed from the trailer of the table that was just read")
    # object-stream merge add-only
    prop_c05.add_only_merge(ctx, F, "Reader::read", "the members of object streams", rule=R)
    # 2. Compressed entries consulted on the load path
    readers = []
    for p, b in F.bodies.items():
        for bi, kind, ln, s in lib.field_accesses(b, "Compressed", "container"):
            if kind in ("read", "move", "borrow"):
                readers.append(F.canon_of(b))
    load_scope = set(F.canon_of(F.bodies[q]) for q in F.reach([rd.path]))
    used = sorted(set(r for r in readers if r in load_scope and "Debug" not in r and "Clone" not in r))
    ctx.ob("R-WHO", "compressed-container-consulted", bool(used), "the load path reads XrefEntry::Compressed.container in %s" % used, rd.where(),
           what="nothing on the load path reads XrefEntry::Compressed { container, .. }: when several object streams define the same object number the merged cross-reference table's designation is ignored and the first-come copy wins (a stale copy from an older revision can shadow the update)")
    # 2b. how it is consulted: a member of an object stream is skipped exactly when the table names ANOTHER container for it
    # (inequality, not an ordering), and skipping it means going on with the next member of the same stream
    oi = [c for c in rd.calls if re.search(r"Entry::<.*>::or_insert$", c.fn or "")]
    okc, howc = False, "no or_insert of object-stream members / no comparison of the container found"
    if len(oi) == 1:
        inner = None
        for h, bl in sorted(rd.loops().items(), key=lambda kv: len(kv[1])):
            if oi[0].bb in bl:
                inner = (h, bl)
                break
        for bi in range(rd.n):
            t = rd.term(bi)
            if t["k"] != "switch" or t["dty"] != "bool" or inner is None or bi not in inner[1]:
                continue
            d = rd.def_rv(t["d"])
            if not (d and d[2] == "rv" and d[3]["k"] == "bin"):
                continue
            ra, rb = rd.oname(d[3]["a"], 3), rd.oname(d[3]["b"], 3)
            if "container" not in ra + rb:
                continue
            op = d[3]["op"]
            skip = t["else"] if op == "Ne" else ([x for v, x in t["tg"] if v == "0"][0] if op == "Eq" else None)
            if op not in ("Ne", "Eq"):
                okc, howc = False, "a member is skipped when `%s(%s,%s)`: only a container that DIFFERS from the one named by the cross-reference entry makes a copy stale" % (op, ra, rb)
                break
            # on the skip edge control stays inside the loop over the members (reaches its header again without leaving it)
            seen, work, leaves = set(), [skip], False
            while work:
                x = work.pop()
                if x in seen or x == inner[0]:
                    continue
                seen.add(x)
                if x not in inner[1]:
                    leaves = True
                    break
                work.extend(y for y in rd.succ[x] if not rd.blocks[y].get("cleanup"))
            reaches_ins = oi[0].bb in seen
            okc = not leaves and not reaches_ins
            howc = "skip edge of `%s(%s,%s)` goes back to the loop over the members" % (op, ra, rb) if okc else \
                   "the skip edge of `%s(%s,%s)` %s" % (op, ra, rb, "leaves the loop over the members of the stream (the remaining members are dropped)" if leaves else "still reaches the insertion")
            break
    ctx.ob("R-ORDER", "stale-copy-skipped-alone", okc, howc, rd.where(oi[0].ln if oi else None),
           what="object-stream members are not merged as the cross-reference table says: %s" % howc)
    # 3. history prefix
    sv = F.fn("IncrementalDocument::save_internal")
    # the first thing written (through the raw sink or through the counting wrapper) is the buffer get_prev_documents_bytes()
    # returned, and that write dominates every other one
    toks = lib.out_tokens(sv)
    ok = bool(toks) and toks[0][0] == "val" and all(sv.dominates(toks[0][2], t[2]) for t in toks[1:])
    src = "?"
    if toks and toks[0][0] == "val":
        o = lib.trace_operand(sv, toks[0][1])
        p = op_place(o)
        src = sv.oname(o, 4)
        if p is not None and not [e for e in p["p"] if e != "*"]:
            d = [x for x in sv.defs.get(sv.root_place(p, through_names=True)["l"], []) if x[2] != "proj"]
            if len(d) == 1 and d[0][2] == "call":
                src = lib.canon_callee(F, lib.CallSiteProxy(sv, d[0][3])) if hasattr(lib, "CallSiteProxy") else (d[0][3]["f"].get("res") or d[0][3]["f"].get("fn"))
    okp = ok and re.search(r"get_prev_documents_bytes$", src or "") is not None
    ctx.ob("R-ORDER", "history-prefix-unchanged", okp, "the first write hands the result of get_prev_documents_bytes() to the sink, unmodified", sv.where(),
           what="IncrementalDocument::save_internal does not write the previously loaded bytes first and unchanged (first write takes `%s`): the history prefix is altered" % src)
    gp = F.fn("IncrementalDocument::get_prev_documents_bytes")
    rets = [gp.rvname(s["rv"], 4) for bi, si, s in gp.stmts() if "lhs" in s and s["lhs"]["l"] == 0]
    ctx.ob("R-ORDER", "prefix-source", any("bytes_documents" in t for t in rets) or any("bytes_documents" in gp.oname(c.args[0], 4) for c in gp.calls if c.dest["l"] == 0), "get_prev_documents_bytes returns bytes_documents", gp.where(),
           what="get_prev_documents_bytes no longer returns the stored input bytes")
    nf = F.fn("Document::new_from_prev")
    sets = lib.dict_sets(nf)
    def SN(o, d=8):
        # structural rendering: single-assignment locals are looked through, the parameter shows as arg1
        with nf.alpha(args=True):
            return nf.sname(o, d)
    okn = any(k == b"Prev" and "arg1.xref_start" in SN(v) for k, v, c in sets)
    ctx.ob("R-ORDER", "prev-points-back", okn, "new_from_prev sets Prev from prev.xref_start", nf.where(), what="new_from_prev no longer sets /Prev to the previous document's xref_start")
    lits = list(lib.struct_literals(nf, "Document"))
    okm = len(lits) == 1 and re.search(r"^\*?arg1\.max_id$", SN(lits[0][2]["max_id"])) is not None
    okt = len(lits) == 1 and "arg1.reference_table.cross_reference_type" in SN(lits[0][2]["reference_table"])
    ctx.ob("R-ORDER", "prev-max_id-carried", okm, "the new document continues numbering at prev.max_id", nf.where(), what="new_from_prev does not carry max_id: new objects of the update would collide with existing object numbers")
    ctx.ob("R-ORDER", "prev-xref-type-carried", okt, "the update uses the previous cross-reference type", nf.where(), what="new_from_prev does not carry the cross-reference type of the previous revision")
    # 4. previous view immutable
    for fld in ("prev_documents", "bytes_documents"):
        for p, b in sorted(F.bodies.items()):
            kinds = set(k for bi, k, ln, s in lib.field_accesses(b, "IncrementalDocument", fld) if k in ("write", "borrow_mut"))
            if kinds:
                ctx.ob("R-WHO", "prev-view-immutable|%s|%s" % (fld, F.canon_of(b)), False, "", b.where(),
                       what="%s mutates IncrementalDocument.%s (%s): the previous view must stay exactly what was loaded" % (F.canon_of(b), fld, sorted(kinds)))
        a = F.adts.get("incremental_document::IncrementalDocument")
        vis = [f["vis"] for v in a["variants"] for f in v["fields"] if f["n"] == fld] if a else []
        ctx.ob("R-WHO", "prev-view-private|%s" % fld, bool(vis) and all("Restricted" in v for v in vis), "IncrementalDocument.%s is private (%s)" % (fld, vis), "src/incremental_document.rs",
               what="IncrementalDocument.%s is no longer private: callers can alter the previous view" % fld)
    g = F.fn("IncrementalDocument::get_prev_documents")
    ctx.ob("R-WHO", "prev-view-shared-ref", g.lty(0).startswith("&") and not g.lty(0).startswith("&mut"), "get_prev_documents returns %s" % g.lty(0), g.where(),
           what="get_prev_documents hands out a mutable reference to the previous view")
    muts = [F.canon_of(b) for b in F.bodies.values() if b.self_ty.endswith("IncrementalDocument") and b.kind == "AssocFn" and b.lty(0).startswith("&mut") and "Document" in b.lty(0) and "prev" in b.path]
    ctx.ob("R-WHO", "prev-view-no-mut-accessor", not muts, "no accessor returns &mut to the previous document", "src/incremental_document.rs", what="accessor(s) %s return a mutable reference into the previous view" % muts)
    # 5. copy-on-write
    oc = F.fn("IncrementalDocument::opt_clone_object_to_new_document")
    # every store into new_document's objects made here happens only when the update holds nothing under that id: either a
    # set_object / insert dominated by a failed has_object / contains_key test, or an insertion through the map's entry API
    # that cannot overwrite by its type (VacantEntry::insert, Entry::or_insert*)
    import inv
    stores = []
    badst = []
    for c in oc.calls:
        n = c.cname if c.local else (c.fn or "")
        a0 = oc.oname(c.args[0], 4) if c.args else ""
        if (c.local and n.endswith("Document::set_object") or re.search(r"BTreeMap::<.*>::insert$", n)) and "new_document" in a0:
            gs = inv.rendered_guards(oc, c.bb)
            ok1 = any(re.match(r"(has_object|contains_key)\(", g) and "new_document" in g and tr is False for g, tr in gs)
            stores.append(c)
            if not ok1:
                badst.append("line %d: %s" % (c.ln, n.rsplit("::", 1)[-1]))
        elif re.search(r"btree_map::(VacantEntry|Entry)::<.*>::(insert|insert_entry|or_insert|or_insert_with|or_insert_with_key|or_default)$", n):
            if re.search(r"Entry::<.*>::(insert|insert_entry)$", n) and "VacantEntry" not in n:
                stores.append(c)
                badst.append("line %d: Entry::insert overwrites" % c.ln)
                continue
            rp = oc.root_place(op_place(c.args[0]), through_names=True) if op_place(c.args[0]) is not None else None
            d = oc.single_def(rp["l"]) if rp is not None else None
            if d is not None and d[2] == "call" and re.search(r"BTreeMap::<.*>::entry$", d[3]["f"].get("fn") or "") and "new_document" in oc.oname(d[3]["args"][0], 4):
                stores.append(c)
    okc = len(stores) >= 1 and not badst
    ctx.ob("R-ORDER", "copy-on-write-only-when-absent", okc, "every store into new_document (%d) is made only when the id is absent there" % len(stores), oc.where(),
           what="opt_clone_object_to_new_document copies the old object even when the update already holds a (newer) object under that id (%s)" % (badst or "no store found"))
    # ... and that is the only door: no other method of IncrementalDocument stores into new_document an object it took from
    # prev_documents (a copy made anywhere else has no `has_object` test in front of it and overwrites what the update holds)
    import inv as _inv
    doors = []
    for p_, bb in sorted(F.bodies.items()):
        if not bb.self_ty.endswith("IncrementalDocument") or bb is oc or bb.path.startswith(oc.path):
            continue
        for c in bb.calls:
            if not (c.local and re.search(r"Document::(set_object|add_object)$", c.cname) and "new_document" in bb.oname(c.args[0], 3)):
                continue
            val = bb.sname(c.args[-1], 8)
            if "prev_documents" in val:
                gs = _inv.rendered_guards(bb, c.bb)
                if not any(g.startswith("has_object(") and tr is False for g, tr in gs):
                    doors.append("%s (line %d)" % (F.canon_of(bb), c.ln))
    update_stores_copies_only(ctx, F)
    default_is_new(ctx, F)
    xref_start_from_header(ctx, F)
    ctx.ob("R-WHO", "copy-on-write-single-door", not doors, "objects are copied from the previous revisions into the update by opt_clone_object_to_new_document only", oc.where(),
           what="%s copies an object from prev_documents into new_document without asking whether the update already holds one: the copy from the old revision overwrites the newer in-memory object (the last edit does not win)" % doors)


def update_stores_copies_only(ctx, F):
    """Nothing but a copy of the old object is ever stored under an id of the previous revisions: an object written into the
    update under an existing id shadows the old one on reload (a fresh, empty object "to write into" throws away what the
    previous revision holds under that id)."""
    oc = F.fn("IncrementalDocument::opt_clone_object_to_new_document")
    fresh = []
    nset = 0
    for p_, bb in sorted(F.bodies.items()):
        if not bb.self_ty.endswith("IncrementalDocument"):
            continue
        for c in bb.calls:
            if c.local and re.search(r"Document::set_object$", c.cname) and "new_document" in bb.oname(c.args[0], 3):
                nset += 1
                if "prev_documents" not in bb.sname(c.args[-1], 10):
                    fresh.append("%s (line %d): %s" % (F.canon_of(bb), c.ln, bb.sname(c.args[-1], 4)[:60]))
    ctx.ob("R-WHO", "update-stores-copies-only", not fresh, "every set_object on the update (%d) stores a copy of the object the previous revisions hold" % nset, oc.where(),
           what="an IncrementalDocument method stores something other than a copy of the old object under an id of the previous revisions (%s): after saving and reloading, the update's object shadows the old one and what it held is lost" % fresh)


def xref_start_from_header(ctx, F):
    """Document.xref_start is what `startxref` says, counted like every other offset from the header: it goes into /Prev of the
    next update as it is (the reader and the incremental writer share that origin, rule prefix-bypass-accounted)."""
    rd = F.fn("Reader::read")
    sts = [x for x in lib.stores_to_field(rd, "xref_start", "Document")]
    how = [rd.sname(x[2]["rv"]["o"], 8) if x[1] != "T" and "o" in x[2]["rv"] else (rd.rvname(x[2]["rv"], 8) if x[1] != "T" else "call") for x in sts]
    ok = bool(sts) and all(re.search(r"get_xref_start\(", t) and not re.search(r"\b(Add|Sub|Mul)\(", t) for t in how)
    ctx.ob("R-ORDER", "xref-start-as-read", ok, "Document.xref_start = get_xref_start(buffer) unchanged (%s)" % [t[:60] for t in how], rd.where(),
           what="Reader::read stores something other than the value of `startxref` in Document.xref_start (%s): the next incremental update writes it as /Prev, which then points to the wrong place for a file with bytes in front of its header" % [t[:90] for t in how])


def default_is_new(ctx, F):
    """IncrementalDocument::default() is IncrementalDocument::new(): an empty history, not an update "of" an empty document
    (new_from_prev would give the first revision a /Prev 0 pointing at the header)."""
    db = F.fn("<IncrementalDocument as Default>::default")
    nb = F.fn("IncrementalDocument::new")

    def leaves(b, seen=()):
        """the crate-local constructors a value is finally built from: `T::default()` and `IncrementalDocument::new()` are
        looked into (either may be written in terms of the other, or derived field by field), anything else is a leaf."""
        out = []
        for c in b.calls:
            if not c.local:
                continue
            cb = F.bodies.get(c.name)
            if cb is not None and cb.path not in seen and (re.search(r" as (std|core)::default::Default>::default$", cb.path) or F.canon_of(cb) == "IncrementalDocument::new"):
                out.extend(leaves(cb, seen + (b.path,)))
            else:
                out.append(c.cname)
        return sorted(out)
    ld, ln_ = leaves(db), leaves(nb)
    ok = ld == ln_ and bool(ld) and set(ld) == {"Document::new"}
    ctx.ob("R-SIB", "default-is-new|IncrementalDocument", ok, "Default for IncrementalDocument and new() build the same value from empty documents (%s)" % ld, db.where(),
           what="<IncrementalDocument as Default>::default builds its value through %s, IncrementalDocument::new through %s (both must come down to Document::new alone): the document it saves carries /Prev 0, which no cross-reference section stands at" % (ld, ln_))

def run(ctx):
    _run(ctx)
    import readerrules
    readerrules.run(ctx, ctx.facts("default"), ("R1",))
    readerrules.last_marker(ctx, ctx.facts("default"))
