"""guard.py — R-GUARD: which numeric relations hold at a program point, from dominating branches and defining
assignments, decided by a difference-constraint closure (x - y <= c) over opaque terms.

Soundness devices:
  * a term that reads a re-assignable local is only used if no re-definition can happen between the read and the site;
  * checked arithmetic (`AddWithOverflow` + assert) is exact past its assert, so `Add(x, 1)` is the linear form x+1;
  * only edges that *dominate* the site contribute facts (edge dominance: the successor dominates the site and is
    entered only from the guard block).
"""
import re, json
from mir import op_place, op_const, const_int, const_bytes

INF = float("inf")
UMAX = {"u8": 2**8 - 1, "u16": 2**16 - 1, "u32": 2**32 - 1, "u64": 2**64 - 1, "usize": 2**64 - 1, "u128": 2**128 - 1}
IMAX = {"i8": 2**7 - 1, "i16": 2**15 - 1, "i32": 2**31 - 1, "i64": 2**63 - 1, "isize": 2**63 - 1, "i128": 2**127 - 1}
LEN_MAX = 2**63 - 1


def ty_range(t):
    if t in UMAX:
        return (0, UMAX[t])
    if t in IMAX:
        return (-IMAX[t] - 1, IMAX[t])
    if t == "bool":
        return (0, 1)
    if t == "char":
        return (0, 0x10FFFF)
    return None


class Term:
    """linear term: base (string or None) + offset, with the positions where re-assignable locals were read."""
    __slots__ = ("base", "off", "reads", "ty", "rng")

    def __init__(self, base, off=0, reads=(), ty=None):
        self.base = base
        self.off = off
        self.reads = tuple(norm_read(r) for r in reads)
        self.ty = ty
        self.rng = None

    def __repr__(self):
        if self.base is None:
            return str(self.off)
        return self.base if not self.off else "%s%+d" % (self.base, self.off)


class Env:
    """numeric environment of one body."""

    def __init__(self, body):
        self.b = body
        self._mdef = None
        self.intrinsic = []
        self._unstable = {}
        self._reach_cache = {}
        self.casts = {}

    # ---- definitions that can change a local's value
    def unstable_positions(self, l):
        """[(position, path)] at which the value denoted by local `l` (or memory reached through it) may change;
        path = tuple of leading field names of the place written/borrowed (() = the whole local)."""
        if l in self._unstable:
            return self._unstable[l]
        b = self.b
        out = []
        for d in b.defs.get(l, []):
            idx = d[1] if d[1] != "T" else 10**6
            path = ()
            elem = False
            if d[2] == "proj":
                pl = d[3].get("lhs") or d[3].get("setdiscr") or d[3].get("dest")
                path = field_path(pl)
                elem = is_elem_place(pl)
            out.append(((d[0], idx), path, elem))
        ty = b.lty(l)
        shared = ty.startswith("&") and not ty.startswith("&mut")
        if not shared:
            for u in b.uses(l):
                if u["kind"] == "ref" and u.get("mut"):
                    idx = u["at"] if u["at"] != "T" else 10**6
                    out.append(((u["bb"], idx), field_path(u["place"]), is_elem_place(u["place"])))
                elif u["kind"] == "arg" and u["moved"] and ty.startswith("&mut"):
                    out.append(((u["bb"], 10**6), field_path(u["place"]), False))
        self._unstable[l] = out
        return out

    def is_arg(self, l):
        return 1 <= l <= self.b.argc

    def n_defs(self, l):
        return len(self.b.defs.get(l, []))

    def reassignable(self, l):
        """may the value read from l differ between two reads?"""
        n = len(self.unstable_positions(l))
        if self.is_arg(l):
            return n > 0
        return n > 1

    def _reach(self, a, avoid=None):
        key = (a, avoid)
        if key not in self._reach_cache:
            self._reach_cache[key] = self.b.reach_set(a, avoid=() if avoid is None else (avoid,))
        return self._reach_cache[key]

    def path(self, p, q, avoid_bb=None):
        """is there an execution path from position p to position q (strictly forward)?  With avoid_bb, paths that
        (re-)enter that block after leaving p's block do not count."""
        (pb, pi), (qb, qi) = p, q
        if pb == qb and pi < qi:
            return True
        if avoid_bb is not None and qb == avoid_bb:
            return False
        return qb in self._reach(pb, avoid_bb)

    def stable(self, l, read_pos, site_pos, rpath=(), mode="val"):
        """no re-definition of l (overlapping the fields read) can execute between read_pos and site_pos without the
        read being executed again."""
        if not self.reassignable(l):
            return True
        if read_pos == site_pos:
            return True           # read at the site itself: the value is the one the site sees
        for d, dpath, elem in self.unstable_positions(l):
            if d == read_pos:
                continue
            if elem and mode == "len":
                continue
            if d[0] == site_pos[0] and site_pos[1] == 10**6 and self._borrow_feeds_site_call(l, d, site_pos[0]):
                continue      # the re-borrow made for the call at the site itself mutates nothing before the site
            n = min(len(dpath), len(rpath))
            if dpath[:n] != rpath[:n]:
                continue
            if self.path(read_pos, d) and self._path_not_via(d, site_pos, read_pos):
                return False
        return True

    def _borrow_feeds_site_call(self, l, d, bb):
        b = self.b
        t = b.term(bb)
        if t["k"] != "call" or d[1] == 10**6:
            return False
        st = b.blocks[bb]["st"]
        # d[1] is an index into the *assign* statements of the block as enumerated by Body.stmts()
        if d[1] >= len(st):
            return False
        s = st[d[1]]
        rv = s.get("rv")
        if not rv or rv["k"] != "ref" or not rv.get("mut") or s["lhs"]["p"]:
            return False
        tmp = s["lhs"]["l"]
        args = set()
        for a in t["args"]:
            p = op_place(a)
            if p is not None and not p["p"]:
                args.add(p["l"])
        # through one more re-borrow (two-phase borrows)
        if tmp in args:
            return True
        for s2 in st[d[1] + 1:]:
            rv2 = s2.get("rv")
            if rv2 and rv2["k"] == "ref" and rv2["p"]["l"] == tmp and s2["lhs"]["l"] in args:
                return True
        return False

    def _path_not_via(self, d, site, read):
        """is there a path from position d to position site that does not execute position `read` in between?"""
        (db, di), (sb, si), (rb, ri) = d, site, read
        if db == sb and di < si:
            if not (rb == db and di < ri < si):
                return True
        # paths that leave d's block
        if rb == db and ri > di:
            return False          # leaving the block executes the read
        if rb == sb and ri < si:
            return False          # arriving at the site executes the read first
        if sb == rb:
            return sb in self._reach(db, None)
        return sb in self._reach(db, rb)

    # ---- terms
    def _payload_source(self, p):
        """for a place `(R as Continue|Ok|Some).0` where R is (the `?`/unwrap of) a Result/Option local that is assembled in
        this body with exactly one `Ok(x)` / `Some(x)` assignment (all others Err / None / residuals): (operand x, position)."""
        b = self.b
        pr = p["p"]
        if not (len(pr) >= 2 and isinstance(pr[0], dict) and pr[0].get("down") in ("Continue", "Ok", "Some") and isinstance(pr[1], dict) and pr[1].get("f") == 0):
            return None
        r = p["l"]
        for _ in range(4):
            alld = b.defs.get(r, [])
            if len(alld) == 1 and alld[0][2] == "call":
                t = alld[0][3]
                short = (t["f"].get("fn") or "").rsplit("::", 1)[-1]
                if short in ("branch", "unwrap", "expect") and t["args"]:
                    q = op_place(t["args"][0])
                    if q is None or q["p"]:
                        return None
                    r = q["l"]
                    continue
                return None
            if len(alld) == 1 and alld[0][2] == "rv" and alld[0][3]["k"] == "use":
                q = op_place(alld[0][3]["o"])
                if q is None or q["p"]:
                    return None
                r = q["l"]
                continue
            break
        alld = b.defs.get(r, [])
        oks = []
        for d in alld:
            if d[2] == "call":
                if "FromResidual" in (d[3]["f"].get("fn") or ""):
                    continue
                return None
            if d[2] != "rv":
                return None
            rv = d[3]
            if rv["k"] == "agg" and rv["kind"].get("a") == "adt" and rv["kind"].get("var") in ("Err", "None"):
                continue
            if rv["k"] == "agg" and rv["kind"].get("a") == "adt" and rv["kind"].get("var") in ("Ok", "Some") and len(rv["ops"]) == 1:
                oks.append((rv["ops"][0], (d[0], d[1])))
                continue
            return None
        return oks[0] if len(oks) == 1 and len(alld) >= 2 else None

    def place_term(self, p, pos, depth=6):
        """Term for a place read at position pos."""
        b = self.b
        root = p["l"]
        if p["p"] and b.facts.int_newtypes:
            q_ = b._through_newtypes(p)
            if q_ is not p:
                # the number inside a wrapper introduced after the review is the wrapper itself
                t_ = self.place_term(q_, pos, depth)
                return Term(t_.base, t_.off, t_.reads, b.facts.int_newtypes.get(t_.ty, t_.ty))
        if not p["p"]:
            return self.local_term(root, pos, depth)
        src = self._payload_source(p) if depth > 0 else None
        if src is not None:
            o, opos = src
            q = op_place(o)
            if q is not None:
                return self.place_term({"l": q["l"], "p": list(q["p"]) + list(p["p"][2:])}, opos if len(p["p"]) == 2 else pos, max(depth, 4))
        # projections: (tmp.0) of a checked op
        pr = p["p"]
        if len(pr) == 1 and isinstance(pr[0], dict) and "f" in pr[0] and root not in b.names:
            d = b.single_def(root)
            if d and d[2] == "rv" and d[3]["k"] == "bin" and d[3]["op"].endswith("WithOverflow") and pr[0]["f"] == 0:
                return self.rv_term(d[3], (d[0], d[1]), depth - 1, root)
        # deref of a reference temp: *(&x) == x
        # (also through a named shared reference bound once, e.g. the by-reference binding of a match guard)
        if pr[0] == "*" and depth > 0 and (root not in b.names or (b.lty(root).startswith("&") and not b.lty(root).startswith("&mut")
                                                                   and not self.is_arg(root))):
            d = b.single_def(root)
            if d and d[2] == "rv" and d[3]["k"] == "ref" and (len(pr) == 1 or not d[3].get("mut")):
                return self.place_term({"l": d[3]["p"]["l"], "p": list(d[3]["p"]["p"]) + list(pr[1:])}, (d[0], d[1]) if len(pr) == 1 else pos, depth - 1)
            if d and d[2] == "rv" and d[3]["k"] == "use" and len(pr) == 1:
                ip = op_place(d[3]["o"])
                if ip is not None:
                    return self.place_term({"l": ip["l"], "p": ip["p"] + ["*"]}, (d[0], d[1]), depth - 1)
            # *(&v[i]) through the Index<usize> operator of Vec / slices / arrays: the element v[i] — every evaluation of the
            # same element is the same term (as long as v is stable, which the reads record)
            if d and d[2] == "call" and len(pr) == 1 and root not in b.names:
                f = d[3]["f"]
                full = f.get("full") or ""
                m = re.match(r"^<(?:std::vec::Vec<(.+?)(?:, .*)?>|\[(.+?)(?:; \d+)?\]) as (?:std|core)::ops::Index<usize>>::index$", full)
                if m and len(d[3]["args"]) == 2:
                    dpos = (d[0], 10**6)
                    recv = self.op_term(d[3]["args"][0], dpos, depth - 1)
                    idx = self.op_term(d[3]["args"][1], dpos, depth - 1)
                    ety = (m.group(1) or m.group(2) or "").strip()
                    return Term("%s[%r]" % (strip_ref(repr(recv)), idx), 0, recv.reads + idx.reads, ety if ty_range(ety) else None)
        name = self.uname(root)
        reads = [(root, pos, field_path(p))]
        for e in pr:
            if e == "*":
                name = "*" + name
            elif isinstance(e, dict) and "f" in e:
                name = "%s.%s" % (name, e["n"])
            elif isinstance(e, dict) and "idx" in e:
                reads.append((e["idx"], pos))
                it = self.local_term(e["idx"], pos, 2)
                name = "%s[%r]" % (name, it)
                reads.extend(it.reads)
            elif isinstance(e, dict) and "cidx" in e:
                name = "%s[%s%d]" % (name, "-" if e["end"] else "", e["cidx"])
            elif isinstance(e, dict) and "down" in e:
                name = "%s@%s" % (name, e["down"])
            else:
                name = "%s%s" % (name, json.dumps(e, sort_keys=True))
        ty = b.upvar_ty.get(json.dumps(p, sort_keys=True))
        if ty is None and isinstance(pr[-1], dict) and "f" in pr[-1] and pr[-1].get("loc"):
            ty = b.facts.field_ty(pr[-1]["adt"], pr[-1]["n"])
        return Term(name, 0, reads, ty)

    def term_range(self, t, depth=4):
        """static interval of a term; a single-assignment named local inherits the interval of its definition."""
        r = static_range(t)
        m = re.match(r"^[^()\[\]*&.@]*#(\d+)$", t.base or "")
        if m and depth > 0 and t.rng is None:
            l = int(m.group(1))
            alld = self.b.defs.get(l, [])
            if len(alld) == 1 and alld[0][2] != "proj" and not self.is_arg(l):
                d = alld[0]
                dpos = (d[0], d[1] if d[1] != "T" else 10**6)
                dt = self.call_term(d[3], dpos, 4, None) if d[2] == "call" else self.rv_term(d[3], dpos, 4, None)
                if dt.base != t.base:
                    r2 = self.term_range(dt, depth - 1)
                    if r2:
                        r2 = (r2[0] + t.off, r2[1] + t.off)
                        r = r2 if r is None else (max(r[0], r2[0]), min(r[1], r2[1]))
        return r

    def uname(self, l):
        b = self.b
        if l in b.names:
            return "%s#%d" % (b.names[l], l)
        return "_%d" % l

    def local_term(self, l, pos, depth=6):
        b = self.b
        ty = b.lty(l)
        ty = b.facts.int_newtypes.get(ty, ty)     # a wrapper around a number introduced after the review is that number
        if (l in b.names and not self.is_arg(l) and depth > 0 and ty.startswith("&") and not ty.startswith("&mut")):
            # a named shared reference bound once (pattern bindings `Some(x)`, `ref x`, match-guard bindings): it denotes
            # the place it was taken from, like an unnamed reference temporary
            alld = b.defs.get(l, [])
            if len(alld) == 1 and alld[0][2] == "rv" and alld[0][3]["k"] == "ref" and not alld[0][3].get("mut"):
                d = alld[0]
                return self.rv_term(d[3], (d[0], d[1]), depth - 1, l)
        if l in b.names and not self.is_arg(l) and depth > 0 and ty_range(ty) is None and not ty.startswith("&mut"):
            # a named local of aggregate type that is bound once by moving / copying another place (`let v = w;`,
            # `let v = helper()?;` after inlining) denotes that place's value; its stability is checked through the reads
            alld = b.defs.get(l, [])
            if len(alld) == 1 and alld[0][2] == "rv" and alld[0][3]["k"] == "use":
                q = op_place(alld[0][3]["o"])
                if q is not None and (q["l"] in b.names or self.is_arg(q["l"]) or self._payload_source(q) is not None) and q["l"] != l \
                        and getattr(self, "_alias_hops", 0) < 12:
                    # alias hops do not consume rendering depth: the canonical name must not depend on how deep the
                    # term was when the alias chain was entered
                    self._alias_hops = getattr(self, "_alias_hops", 0) + 1
                    try:
                        t = self.place_term(q, (alld[0][0], alld[0][1]), max(depth, 4))
                    finally:
                        self._alias_hops -= 1
                    if t.base is not None and not t.base.startswith("_"):
                        return t
        if l in b.names or self.is_arg(l) or depth <= 0:
            return Term(self.uname(l), 0, [(l, pos)], ty)
        d = b.single_def(l)
        if d is None:
            return Term("_%d" % l, 0, [(l, pos)], ty)
        dpos = (d[0], d[1] if d[1] != "T" else 10**6)
        if d[2] == "call":
            return self.call_term(d[3], dpos, depth - 1, l)
        return self.rv_term(d[3], dpos, depth - 1, l)

    def op_term(self, o, pos, depth=6):
        k = op_const(o)
        if k is not None:
            v = const_int(k)
            if v is not None:
                return Term(None, v, (), k.get("ty"))
            return Term("const:" + (k.get("bytes") or k.get("s") or k.get("fn") or "?"), 0, ())
        return self.place_term(op_place(o), pos, depth)

    def rv_term(self, rv, pos, depth, l=None):
        b = self.b
        k = rv["k"]
        ty = b.lty(l) if l is not None else None
        if k == "use":
            t = self.op_term(rv["o"], pos, depth)
            return t
        if k == "cast" and rv["kind"].startswith("IntToInt"):
            src = self.op_term(rv["o"], pos, depth)
            sty = self.op_ty(rv["o"])
            dty = rv["ty"]
            rs, rd = ty_range(sty), ty_range(dty)
            if rs and rd and rs[0] >= rd[0] and rs[1] <= rd[1]:
                # value-preserving widening: same term (keep the narrow type for range facts)
                return Term(src.base, src.off, src.reads, src.ty or sty)
            me = Term("(%r as %s)" % (src, dty), 0, src.reads, dty)
            # remembered so that the solver can identify the cast with its operand once the operand is known to fit
            self.casts[me.base] = (src, dty)
            return me
        if k == "bin":
            op = rv["op"]
            a = self.op_term(rv["a"], pos, depth)
            c = self.op_term(rv["b"], pos, depth)
            checked = op.endswith("WithOverflow")
            base_op = op.replace("WithOverflow", "")
            aty = self.op_ty(rv["a"])
            if base_op == "Add" and checked:
                if c.base is None:
                    return Term(a.base, a.off + c.off, a.reads, aty)
                if a.base is None:
                    return Term(c.base, a.off + c.off, c.reads, aty)
            if base_op == "Sub" and checked:
                if c.base is None:
                    return Term(a.base, a.off - c.off, a.reads, aty)
            if a.base is None and c.base is None and base_op in ("Add", "Sub", "Mul"):
                v = {"Add": a.off + c.off, "Sub": a.off - c.off, "Mul": a.off * c.off}[base_op]
                return Term(None, v, (), aty)
            me = Term("%s(%r,%r)" % (base_op, a, c), 0, a.reads + c.reads, aty)
            ra, rc = self.term_range(a), self.term_range(c)
            if ra and rc:
                r = None
                if base_op == "Add":
                    r = (ra[0] + rc[0], ra[1] + rc[1])
                elif base_op == "Sub":
                    r = (ra[0] - rc[1], ra[1] - rc[0])
                elif base_op == "Mul" and ra[0] >= 0 and rc[0] >= 0:
                    r = (ra[0] * rc[0], ra[1] * rc[1])
                elif base_op == "Div" and rc[0] > 0 and ra[0] >= 0:
                    r = (ra[0] // rc[1], ra[1] // rc[0])
                elif base_op == "Div" and rc[0] > 0:
                    r = (min(ra[0] // rc[0], ra[0] // rc[1]), max(ra[1] // rc[0], ra[1] // rc[1]))
                tr = ty_range(aty or "")
                if r and tr and (checked or base_op == "Div"):
                    # past its overflow assert a checked op is exact, hence also within the type
                    r = (max(r[0], tr[0]), min(r[1], tr[1]))
                if r:
                    me.rng = r
                    self.intrinsic.append((me, Term(None, 0), r[1]))
                    self.intrinsic.append((Term(None, 0), me, -r[0]))
            unsigned = (ty_range(aty or "") or (-1, 0))[0] == 0
            zero = Term(None, 0)
            if base_op == "Sub" and unsigned and checked:
                self.intrinsic.append((me, a, 0))
            elif base_op == "Add" and unsigned and checked:
                self.intrinsic.append((a, me, 0))
                self.intrinsic.append((c, me, 0))
            if base_op == "BitAnd" and unsigned:
                if c.base is None and c.off >= 0:
                    self.intrinsic.append((me, zero, c.off))
                else:
                    self.intrinsic.append((me, c, 0))
                self.intrinsic.append((me, a, 0))
            elif base_op == "Rem" and unsigned:
                self.intrinsic.append((me, c, -1))
                self.intrinsic.append((me, a, 0))
            elif base_op == "Div" and unsigned:
                self.intrinsic.append((me, a, 0))
                if c.base is None and c.off > 0 and a.base is None:
                    pass
            elif base_op == "Shl" and unsigned and c.base is None and 0 <= c.off < 64 and ty_range(aty or ""):
                # (x << k) is a multiple of 2^k: at most MAX + 1 - 2^k
                hi = ty_range(aty)[1] + 1 - (1 << c.off)
                if hi >= 0:
                    self.intrinsic.append((me, zero, hi))
                    me.rng = (0, hi) if me.rng is None else (max(0, me.rng[0]), min(me.rng[1], hi))
            elif base_op == "Shr" and unsigned:
                self.intrinsic.append((me, a, 0))
                if c.base is None and c.off >= 0:
                    self.intrinsic.append((me, zero, ty_range(aty)[1] >> c.off))
            return me
        if k == "un":
            a = self.op_term(rv["o"], pos, depth)
            if rv["op"] == "PtrMetadata":
                n = self.array_len(rv["o"])
                if n is not None:
                    return Term(None, n, (), "usize")
                return Term("len(%s)" % strip_ref(repr(a)), 0, len_reads(a.reads), "usize")
            return Term("%s(%r)" % (rv["op"], a), 0, a.reads, ty)
        if k in ("ref", "rawptr"):
            t = self.place_term(rv["p"], pos, depth)
            return Term("&" + repr(t) if t.off == 0 else "&(%r)" % t, 0, t.reads, None)
        if k == "discr":
            t = self.place_term(rv["p"], pos, depth)
            return Term("discr(%r)" % t, 0, t.reads, None)
        if k == "agg" and rv["kind"].get("adt") in b.facts.int_newtypes and len(rv["ops"]) == 1:
            return self.op_term(rv["ops"][0], pos, depth)
        if k == "agg":
            ops = [self.op_term(o, pos, depth) for o in rv["ops"]]
            kd = rv["kind"]
            nm = kd.get("var") or kd.get("a")
            reads = sum((o.reads for o in ops), ())
            return Term("%s{%s}" % (nm, ",".join(repr(o) for o in ops)), 0, reads, None)
        return Term("_%s" % (l if l is not None else "?"), 0, [(l, pos)] if l is not None else (), ty)

    def call_term(self, t, pos, depth, l=None):
        b = self.b
        f = t["f"]
        nm = f.get("fn") or f.get("res") or "ind"
        full = f.get("full", "")
        args = [self.op_term(a, pos, depth) for a in t["args"]]
        reads = sum((a.reads for a in args), ())
        ty = b.lty(l) if l is not None else None
        short = nm.rsplit("::", 1)[-1]
        if short == "len" and len(args) == 1 and ("slice" in nm or "Vec" in nm or "str" in nm or "String" in nm or "VecDeque" in nm or "array" in nm):
            n = self.array_len(t["args"][0])
            if n is not None:
                return Term(None, n, (), "usize")
            return Term("len(%s)" % strip_ref(repr(args[0])), 0, len_reads(reads), "usize")
        if short in ("deref", "deref_mut", "as_slice", "as_bytes", "as_ref", "as_mut_slice", "borrow", "as_str") and len(args) == 1:
            # transparent views keep the length
            return Term(strip_ref(repr(args[0])), 0, reads, None)
        m = re.match(r"^<(\w+) as std::convert::(From|Into)<(\w+)>>::(from|into)$", full)
        if m and len(args) == 1:
            dst, src = (m.group(1), m.group(3)) if m.group(2) == "From" else (m.group(3), m.group(1))
            rs, rd = ty_range(src), ty_range(dst)
            if rs and rd and rs[0] >= rd[0] and rs[1] <= rd[1]:
                a0 = args[0]
                return Term(a0.base, a0.off, a0.reads, a0.ty or src)
        if short in ("min", "max") and "cmp::" in nm and len(args) == 2:
            me = Term("%s(%s)" % (short, ",".join(sorted(repr(a) for a in args))), 0, reads, ty)
            for a in args:
                self.intrinsic.append((me, a, 0) if short == "min" else (a, me, 0))
            return me
        if short == "saturating_sub" and len(args) == 2 and "num::" in nm:
            me = Term("saturating_sub(%r,%r)" % (args[0], args[1]), 0, reads, ty)
            self.intrinsic.append((me, args[0], 0))
            return me
        # any other call result is opaque: named by the local that holds it (callee shown for readability only)
        return Term("_%s:%s" % (l, short), 0, [(l, pos)] if l is not None else (), ty)

    def op_ty(self, o):
        k = op_const(o)
        if k is not None:
            return k.get("ty")
        p = op_place(o)
        if not p["p"]:
            return self.b.lty(p["l"])
        # (tmp.0) of checked op -> type of operand a
        pr = p["p"]
        if len(pr) == 1 and isinstance(pr[0], dict) and "f" in pr[0]:
            d = self.b.single_def(p["l"])
            if d and d[2] == "rv" and d[3]["k"] == "bin" and d[3]["op"].endswith("WithOverflow"):
                return self.op_ty(d[3]["a"])
            t = self.b.lty(p["l"])
            m = re.match(r"^\((.*)\)$", t)
            if m:
                parts = split_top(m.group(1))
                if pr[0]["f"] < len(parts):
                    return parts[pr[0]["f"]].strip()
        return None

    # ---- facts from conditions
    def cond_facts(self, o, pos, truth, depth=5):
        """atomic constraints [(x Term, y Term, c)] meaning x - y <= c, implied by operand `o` (a bool) being `truth`."""
        b = self.b
        k = op_const(o)
        if k is not None or depth <= 0:
            return []
        p = op_place(o)
        if p["p"]:
            # a component of a tuple built once for a `match (a, b)`: the condition is that component
            fl = [e for e in p["p"] if e != "*"]
            ops_ = b._frozen_agg(p["l"]) if len(fl) == 1 and isinstance(fl[0], dict) and "f" in fl[0] else None
            if ops_ is not None and fl[0]["f"] < len(ops_):
                da = b.single_def(p["l"])
                return self.cond_facts(ops_[fl[0]["f"]], (da[0], da[1] if da[1] != "T" else 10**6), truth, depth - 1)
            return []
        d = b.single_def(p["l"])
        if d is None:
            return []
        dpos = (d[0], d[1] if d[1] != "T" else 10**6)
        if d[2] == "rv":
            rv = d[3]
            if rv["k"] == "use":
                return self.cond_facts(rv["o"], dpos, truth, depth - 1)
            if rv["k"] == "un" and rv["op"] == "Not":
                return self.cond_facts(rv["o"], dpos, not truth, depth - 1)
            if rv["k"] == "bin" and rv["op"] in ("Lt", "Le", "Gt", "Ge", "Eq", "Ne"):
                a = self.op_term(rv["a"], dpos)
                c = self.op_term(rv["b"], dpos)
                return rel_facts(rv["op"], a, c, truth)
            return []
        # calls
        t = d[3]
        f = t["f"]
        nm = f.get("fn") or ""
        short = nm.rsplit("::", 1)[-1]
        args = t["args"]
        if short in ("lt", "le", "gt", "ge", "eq", "ne") and len(args) == 2 and ("cmp::Partial" in nm):
            mm = re.match(r"^<&*(\w+) as ", f.get("full") or "")
            if not (mm and ty_range(mm.group(1))):
                return []
            a = self.deref_term(args[0], dpos)
            c = self.deref_term(args[1], dpos)
            if a is None or c is None:
                return []
            op = {"lt": "Lt", "le": "Le", "gt": "Gt", "ge": "Ge", "eq": "Eq", "ne": "Ne"}[short]
            return rel_facts(op, a, c, truth)
        if short in ("is_negative", "is_positive") and len(args) == 1 and "num::" in nm:
            a = self.op_term(args[0], dpos)
            zero = Term(None, 0)
            return rel_facts("Lt" if short == "is_negative" else "Gt", a, zero, truth)
        if short == "is_empty" and len(args) == 1:
            a = self.op_term(args[0], dpos)
            ln = Term("len(%s)" % strip_ref(repr(a)), 0, len_reads(a.reads), "usize")
            zero = Term(None, 0)
            return rel_facts("Eq", ln, zero, truth)
        if short == "contains" and len(args) == 2 and "RangeInclusive" in (f.get("full") or nm):
            rng = self.range_bounds(args[0], dpos, inclusive=True)
            x = self.deref_term(args[1], dpos)
            if rng and x is not None and truth:
                lo, hi = rng
                return rel_facts("Ge", x, lo, True) + rel_facts("Le", x, hi, True)
            return []
        if short == "contains" and len(args) == 2 and "ops::Range::<" in (f.get("full") or nm):
            rng = self.range_bounds(args[0], dpos, inclusive=False)
            x = self.deref_term(args[1], dpos)
            if rng and x is not None and truth:
                lo, hi = rng
                return rel_facts("Ge", x, lo, True) + rel_facts("Lt", x, hi, True)
            return []
        if short in ("any", "all") and len(args) == 2 and "Iterator" in nm and truth == (short == "all"):
            # `!v[..k].iter().any(|x| P(x))` / `v[..k].iter().all(|x| P(x))`: the closure's outcome is known for every element
            return self.quantified_facts(t, dpos, want=(short == "all"))
        if short == "starts_with" and len(args) == 2 and truth:
            a = self.op_term(args[0], dpos)
            kb = self.const_bytes_of(args[1])
            if kb is not None:
                ln = Term("len(%s)" % strip_ref(repr(a)), 0, len_reads(a.reads), "usize")
                return rel_facts("Ge", ln, Term(None, len(kb)), True)
        return []

    def quantified_facts(self, t, dpos, want):
        """facts about the first k elements v[0..k] of a vector, from a dominating `any` that was false / `all` that was true:
        the closure took, for each element, its only path to the result `want`; the comparisons on that path (between the
        element, constants and captured variables) hold for v[0], .., v[k-1].  k must be a small constant (`v[..k].iter()`)."""
        b = self.b
        F = b.facts
        args = t["args"]
        # the closure value and what it captures
        cd = b.def_rv(args[1])
        if not (cd and cd[2] == "rv" and cd[3]["k"] == "agg" and cd[3]["kind"].get("a") == "closure"):
            return []
        cb = F.bodies.get(cd[3]["kind"]["def"])
        if cb is None or cb.argc != 2:
            return []
        caps = cd[3]["ops"]
        # the iterator: &mut it, it = slice::iter(S), S = &*index(V, ..k)
        cur, k, V = args[0], None, None
        for _ in range(8):
            p = op_place(cur)
            if p is None or [e for e in p["p"] if e != "*"]:
                return []
            d = b.single_def(p["l"])
            if d is None:
                return []
            if d[2] == "rv" and d[3]["k"] in ("use", "cast"):
                cur = d[3]["o"]
                continue
            if d[2] == "rv" and d[3]["k"] == "ref":
                cur = {"c": d[3]["p"]}
                continue
            if d[2] != "call":
                return []
            short = (d[3]["f"].get("fn") or "").rsplit("::", 1)[-1]
            full = d[3]["f"].get("full") or ""
            if short in ("iter", "into_iter", "by_ref", "deref", "as_slice") and d[3]["args"]:
                cur = d[3]["args"][0]
                continue
            if short == "index" and "RangeTo<usize>" in full and len(d[3]["args"]) == 2:
                r = self.const_struct_of(d[3]["args"][1])
                try:
                    k = int((r or {}).get("fields", {}).get("end"))
                except (TypeError, ValueError):
                    k = None
                if k is None:
                    rd = b.def_rv(d[3]["args"][1])
                    if rd and rd[2] == "rv" and rd[3]["k"] == "agg" and rd[3]["kind"].get("adt", "").endswith("RangeTo") and len(rd[3]["ops"]) == 1:
                        kt = self.op_term(rd[3]["ops"][0], (rd[0], 10**6))
                        k = kt.off if kt.base is None else None
                V = d[3]["args"][0]
                dposV = (d[0], 10**6)
                m = re.match(r"^<(?:std::vec::Vec<(.+?)(?:, .*)?>|\[(.+?)(?:; \d+)?\]) as ", full)
                ety = ((m.group(1) or m.group(2) or "").strip()) if m else None
                break
            return []
        if V is None or k is None or not (1 <= k <= 16):
            return []
        # the single path of the closure to `want`
        envc = Env(cb)
        paths = []

        def walk(x, conds, seen):
            if len(paths) > 16 or x in seen:
                return
            tt = cb.term(x)
            if tt["k"] == "return":
                paths.append(list(conds))
                return
            if tt["k"] == "switch" and tt["dty"] == "bool":
                for v, y in tt["tg"]:
                    walk(y, conds + [(x, tt["d"], False)], seen | {x})
                walk(tt["else"], conds + [(x, tt["d"], True)], seen | {x})
                return
            for y in cb.succ[x]:
                if not cb.blocks[y].get("cleanup"):
                    walk(y, conds, seen | {x})
        walk(0, [], frozenset())
        good = []
        for conds in paths:
            # value of _0 on this path: the last assignment to _0 in the blocks the path passed (constants and conditions only)
            blocks = [c_[0] for c_ in conds]
            val = None
            # re-walk the straight-line blocks of the path to find the store to _0
            x = 0
            order = []
            ci = 0
            seenb = set()
            while x is not None and x not in seenb:
                seenb.add(x)
                order.append(x)
                tt = cb.term(x)
                if tt["k"] == "return":
                    break
                if tt["k"] == "switch" and tt["dty"] == "bool":
                    if ci >= len(conds) or conds[ci][0] != x:
                        x = None
                        break
                    truth_ = conds[ci][2]
                    ci += 1
                    x = tt["else"] if truth_ else [y for v, y in tt["tg"] if v == "0"][0]
                    continue
                nx = [y for y in cb.succ[x] if not cb.blocks[y].get("cleanup")]
                x = nx[0] if len(nx) == 1 else None
            extra = None
            for bb_ in order:
                for st_ in cb.blocks[bb_]["st"]:
                    if "lhs" in st_ and st_["lhs"]["l"] == 0 and not st_["lhs"]["p"]:
                        kk = op_const(st_["rv"]["o"]) if st_["rv"]["k"] == "use" else None
                        if kk is not None and "int" in kk:
                            val, extra = bool(int(kk["int"])), None
                        elif st_["rv"]["k"] == "use":
                            val, extra = "cond", (bb_, st_["rv"]["o"], None)
                        elif st_["rv"]["k"] == "bin" and st_["rv"]["op"] in ("Lt", "Le", "Gt", "Ge", "Eq", "Ne"):
                            val, extra = "cond", (bb_, None, st_["rv"])
                        else:
                            val, extra = "unknown", None
            if val is want:
                good.append((conds, None))
            elif val == "cond":
                good.append((conds, extra))
        if len(good) != 1:
            return []
        conds, extra = good[0]
        cfacts = []
        for (x, d, truth_) in conds:
            cfacts += envc.cond_facts(d, (x, 10**6), truth_)
        if extra is not None and extra[1] is not None:
            cfacts += envc.cond_facts(extra[1], (extra[0], 10**6), want)
        elif extra is not None:
            rv_ = extra[2]
            epos = (extra[0], 10**6)
            cfacts += rel_facts(rv_["op"], envc.op_term(rv_["a"], epos), envc.op_term(rv_["b"], epos), want)
        # translate: the element parameter -> v[i]; captured variables -> the enclosing function's terms; constants stay
        ppos = (0, 0)
        elem_base = envc.place_term({"l": 2, "p": ["*"]}, ppos).base
        elem_base2 = envc.local_term(2, ppos).base
        capmap = {}
        for nm_, pl in cb.upvars:
            fld = [e for e in pl["p"] if isinstance(e, dict) and "f" in e]
            if not fld or fld[0]["f"] >= len(caps):
                continue
            pt = self.deref_term(caps[fld[0]["f"]], dpos) if op_place(caps[fld[0]["f"]]) is not None else None
            if pt is None:
                pt = self.op_term(caps[fld[0]["f"]], dpos)
            capmap[envc.place_term(pl, ppos).base] = pt
        recv = self.op_term(V, dposV)
        out = []
        for i in range(k):
            et = Term("%s[%r]" % (strip_ref(repr(recv)), Term(None, i)), 0, recv.reads, ety if ty_range(ety or "") else None)

            def tr(tm):
                if tm.base is None:
                    return tm
                if tm.base in (elem_base, elem_base2):
                    return Term(et.base, tm.off, et.reads, et.ty)
                if tm.base in capmap and capmap[tm.base] is not None and capmap[tm.base].base is not None:
                    c_ = capmap[tm.base]
                    return Term(c_.base, c_.off + tm.off, c_.reads, c_.ty)
                if tm.base in capmap and capmap[tm.base] is not None:
                    return Term(None, capmap[tm.base].off + tm.off)
                return None
            for (xa, ya, c_) in cfacts:
                x2, y2 = tr(xa), tr(ya)
                if x2 is not None and y2 is not None:
                    out.append((x2, y2, c_))
        return out

    def const_bytes_of(self, o, depth=5):
        b = self.b
        try:
            import lib
            kb0 = lib._const_bytes_through(b, o)        # also sees named constants and arrays written out element by element
            if kb0 is not None:
                return kb0
        except Exception:
            pass
        for _ in range(depth):
            k = op_const(o)
            if k is not None:
                return const_bytes(k)
            p = op_place(o)
            d = b.single_def(p["l"])
            if d is None or d[2] != "rv":
                return None
            rv = d[3]
            if rv["k"] in ("use", "cast"):
                o = rv["o"]
            elif rv["k"] == "ref":
                o = {"c": {"l": rv["p"]["l"], "p": []}}
            else:
                return None
        return None

    def deref_term(self, o, pos):
        """term of *o where o is a reference operand (&x temp)."""
        b = self.b
        k = op_const(o)
        if k is not None:
            v = const_int(k)
            return Term(None, v) if v is not None else None
        p = op_place(o)
        if not p["p"]:
            d = b.single_def(p["l"]) if p["l"] not in b.names else None
            if d and d[2] == "rv" and d[3]["k"] == "ref":
                return self.place_term(d[3]["p"], (d[0], d[1]))
            if d and d[2] == "rv" and d[3]["k"] == "use":
                return self.deref_term(d[3]["o"], (d[0], d[1]))
            # promoted constant reference etc.
            if d and d[2] == "rv" and d[3]["k"] == "use":
                return None
        return self.place_term({"l": p["l"], "p": p["p"] + ["*"]}, pos)

    def const_struct_of(self, o, depth=6):
        b = self.b
        for _ in range(depth):
            k = op_const(o)
            if k is not None:
                return k.get("struct")
            p = op_place(o)
            if p is None:
                return None
            d = b.single_def(p["l"])
            if d is None or d[2] != "rv":
                return None
            rv = d[3]
            if rv["k"] in ("use", "cast"):
                o = rv["o"]
            elif rv["k"] == "ref":
                o = {"c": {"l": rv["p"]["l"], "p": []}}
            else:
                return None
        return None

    def range_bounds(self, o, pos, inclusive):
        """(lo Term, hi Term) of a range value behind reference operand o."""
        b = self.b
        st = self.const_struct_of(o)
        if st and st["name"].endswith("ops::RangeInclusive") and inclusive and st["fields"].get("exhausted") == "0":
            return (Term(None, int(st["fields"]["start"])), Term(None, int(st["fields"]["end"])))
        if st and st["name"].endswith("ops::Range") and not inclusive:
            return (Term(None, int(st["fields"]["start"])), Term(None, int(st["fields"]["end"])))
        p = op_place(self.b.resolve_copy(o))
        if p is None:
            return None
        for _ in range(5):
            d = b.single_def(p["l"])
            if d is None:
                return None
            dpos = (d[0], d[1] if d[1] != "T" else 10**6)
            if d[2] == "rv" and d[3]["k"] == "ref":
                p = d[3]["p"]
                if p["p"]:
                    return None
                continue
            if d[2] == "rv" and d[3]["k"] == "use":
                ip = op_place(d[3]["o"])
                if ip is None or ip["p"]:
                    return None
                p = ip
                continue
            if d[2] == "call":
                t = d[3]
                nm = t["f"].get("fn") or ""
                if nm.endswith("RangeInclusive::<Idx>::new") and len(t["args"]) == 2:
                    return (self.op_term(t["args"][0], dpos), self.op_term(t["args"][1], dpos))
                return None
            if d[2] == "rv" and d[3]["k"] == "agg":
                kd = d[3]["kind"]
                if kd.get("a") == "adt" and kd["adt"].endswith("ops::Range") and len(d[3]["ops"]) == 2:
                    return (self.op_term(d[3]["ops"][0], dpos), self.op_term(d[3]["ops"][1], dpos))
                return None
            return None
        return None

    # ---- collecting everything known at a site
    def dominating_edge_facts(self, site_bb, _seen=None):
        """facts from every dominating two-way branch whose taken edge dominates the site."""
        b = self.b
        facts = []
        _seen = (_seen or frozenset()) | {site_bb}
        for g in sorted(b.dom.get(site_bb, ())):
            t = b.term(g)
            if t["k"] != "switch":
                continue
            succs = [x for _, x in t["tg"]] + [t["else"]]
            # which successor edge dominates the site?
            taken = None
            for s in set(succs):
                if succs.count(s) != 1:
                    continue
                if s == site_bb or b.dominates(s, site_bb):
                    # the edge g->s dominates the site iff s has g as its only predecessor
                    if len(b.pred[s]) == 1:
                        taken = s
            if taken is None:
                continue
            dty = t["dty"]
            gpos = (g, 10**6)
            if dty == "bool":
                # tg = [[0, bbF]], else = bbT
                truth = None
                for v, x in t["tg"]:
                    if x == taken and v == "0":
                        truth = False
                if truth is None and t["else"] == taken:
                    truth = True
                if truth is None:
                    continue
                for fx in self.cond_facts(t["d"], gpos, truth):
                    facts.append((fx, gpos))
                # a boolean temporary that is set to constants in several blocks (`a && b`, `matches!(x, lo..=hi)`):
                # if exactly one block stores the taken value, control came through that block, so whatever holds on
                # entry to it holds here (for terms that are stable since, which the solver checks per fact position)
                dp = op_place(t["d"])
                if dp is not None and not dp["p"] and dp["l"] not in b.names and not self.is_arg(dp["l"]):
                    alld = b.defs.get(dp["l"], [])
                    if len(alld) >= 2 and all(d[2] == "rv" and d[3]["k"] == "use" and "k" in d[3]["o"]
                                              and "int" in d[3]["o"]["k"] for d in alld):
                        want = "1" if truth else "0"
                        src = [d[0] for d in alld if str(d[3]["o"]["k"]["int"]) == want]
                        if len(src) == 1 and src[0] not in _seen:
                            facts.extend(self.dominating_edge_facts(src[0], _seen))
            elif ty_range(dty):
                # discriminant of a Result/Option (or of its `?`) that is assembled in this body with a single Ok/Some
                # assignment: on the success edge control came through that assignment (threading, as for boolean temporaries)
                src = self._success_def_block(t, taken)
                if src is not None and src not in _seen:
                    facts.extend(self.dominating_edge_facts(src, _seen))
                # integer match: on a listed edge the scrutinee equals the value
                d = self.op_term(t["d"], gpos)
                for v, x in t["tg"]:
                    if x == taken:
                        for fx in rel_facts("Eq", d, Term(None, int(v)), True):
                            facts.append((fx, gpos))
                if t["else"] == taken:
                    # not equal to any listed value: useful when the listed values are a prefix 0..k
                    vals = sorted(int(v) for v, _ in t["tg"])
                    rng = ty_range(dty)
                    if vals and vals == list(range(vals[0], vals[0] + len(vals))) and rng and vals[0] == rng[0]:
                        for fx in rel_facts("Ge", d, Term(None, vals[-1] + 1), True):
                            facts.append((fx, gpos))
        return facts

    def _success_def_block(self, t, taken):
        """block of the unique `Ok(..)`/`Some(..)` assignment behind a switch on discriminant(x) whose taken edge is the
        success variant; None if the pattern does not apply."""
        b = self.b
        dp = op_place(t["d"])
        if dp is None or dp["p"]:
            return None
        d = b.single_def(dp["l"])
        if not (d and d[2] == "rv" and d[3]["k"] == "discr") or d[3]["p"]["p"]:
            return None
        x = d[3]["p"]["l"]
        ty = b.lty(x)
        val = [v for v, bb in t["tg"] if bb == taken]
        if len(val) != 1:
            return None
        v = int(val[0])
        if re.match(r"^(std|core)::ops::ControlFlow<", ty) or re.match(r"^(std|core)::result::Result<", ty):
            if v != 0:
                return None
        elif re.match(r"^(std|core)::option::Option<", ty):
            if v != 1:
                return None
        else:
            return None
        r = x
        for _ in range(5):
            alld = b.defs.get(r, [])
            if len(alld) == 1 and alld[0][2] == "call":
                tt = alld[0][3]
                if (tt["f"].get("fn") or "").endswith("Try::branch") and tt["args"]:
                    q = op_place(tt["args"][0])
                    if q is None or q["p"]:
                        return None
                    r = q["l"]
                    continue
                return None
            if len(alld) == 1 and alld[0][2] == "rv" and alld[0][3]["k"] == "use":
                q = op_place(alld[0][3]["o"])
                if q is None or q["p"]:
                    return None
                r = q["l"]
                continue
            break
        alld = b.defs.get(r, [])
        if len(alld) < 2:
            return None
        oks = []
        for dd in alld:
            if dd[2] == "call":
                if "FromResidual" in (dd[3]["f"].get("fn") or ""):
                    continue
                return None
            if dd[2] != "rv":
                return None
            rv = dd[3]
            if rv["k"] == "agg" and rv["kind"].get("a") == "adt" and rv["kind"].get("var") in ("Err", "None"):
                continue
            if rv["k"] == "agg" and rv["kind"].get("a") == "adt" and rv["kind"].get("var") in ("Ok", "Some"):
                oks.append(dd[0])
                continue
            return None
        return oks[0] if len(oks) == 1 else None

    def def_facts(self, term_reads_locals):
        """a single-assignment named local equals its defining expression (whose intrinsic bounds then apply)."""
        b = self.b
        facts = []
        seen = set()
        work = list(term_reads_locals)
        while work:
            l = work.pop()
            if l in seen or l is None:
                continue
            seen.add(l)
            if not (l in b.names or self.is_arg(l)):
                continue
            alld = b.defs.get(l, [])
            if len(alld) != 1 or alld[0][2] == "proj" or self.is_arg(l):
                continue
            d = alld[0]
            dpos = (d[0], d[1] if d[1] != "T" else 10**6)
            me = Term(self.uname(l), 0, [(l, dpos)], b.lty(l))
            if d[2] == "call":
                dt = self.call_term(d[3], dpos, 5, None)
            else:
                dt = self.rv_term(d[3], dpos, 5, None)
            if dt.base is not None and dt.base.startswith("_None"):
                continue
            if dt.base == me.base:
                continue
            facts.append(((me, dt, 0), dpos))
            facts.append(((dt, me, 0), dpos))
            for r in dt.reads:
                work.append(r[0])
        return facts

    def origin_call(self, l):
        """the crate-local function whose successful result a single-assignment local holds (through `?`, unwrap,
        expect and payload projections); None otherwise."""
        b = self.b
        F = b.facts
        for _ in range(10):
            alld = b.defs.get(l, [])
            if len(alld) > 1 and re.match(r"^(std|core)::(result::Result|option::Option)<", b.lty(l)) and all(d[2] != "proj" for d in alld):
                return ("local", l)      # assembled in this body (e.g. the return place of an inlined helper)
            if len(alld) != 1 or alld[0][2] == "proj":
                return None
            d = alld[0]
            if d[2] == "call":
                t = d[3]
                f = t["f"]
                tgt = f.get("res") or f.get("fn") or ""
                if f.get("loc") and tgt in F.bodies:
                    return F.bodies[tgt]
                if f.get("loc") and tgt in getattr(F, "hidden", {}):
                    return F.hidden[tgt]
                short = tgt.rsplit("::", 1)[-1]
                if short in ("branch", "unwrap", "expect") and t["args"]:
                    p = op_place(t["args"][0])
                    if p is None or p["p"]:
                        return None
                    l = p["l"]
                    continue
                return None
            rv = d[3]
            if rv["k"] != "use":
                return None
            p = op_place(rv["o"])
            if p is None:
                return None
            pr = p["p"]
            if pr and not (len(pr) == 2 and isinstance(pr[0], dict) and pr[0].get("down") in ("Continue", "Some", "Ok")
                           and isinstance(pr[1], dict) and pr[1].get("f") == 0):
                return None
            l = p["l"]
        return None

    def local_result_len_lower(self, r):
        """for a Result/Option local assigned in several places of this body: proved lower bound on the length of the
        payload of every `Ok(x)` / `Some(x)` assignment (0 = nothing proved); Err/None and `?` residuals do not count."""
        b = self.b
        key = ("rl", r)
        if key in self._reach_cache:
            return self._reach_cache[key]
        self._reach_cache[key] = 0
        k = None
        for d in b.defs.get(r, []):
            if d[2] == "call":
                if "FromResidual" in (d[3]["f"].get("fn") or ""):
                    continue
                k = 0
                break
            rv = d[3]
            if rv["k"] == "agg" and rv["kind"].get("a") == "adt" and rv["kind"].get("var") in ("Err", "None"):
                continue
            if not (rv["k"] == "agg" and rv["kind"].get("a") == "adt" and rv["kind"].get("var") in ("Ok", "Some")):
                k = 0
                break
            pos = (d[0], d[1])
            a = self.op_term(rv["ops"][0], pos)
            ln = Term("len(%s)" % strip_ref(repr(a)), 0, len_reads(a.reads), "usize")
            S, _, ok = knowledge(self, d[0], d[1], [ln])
            lo = S.lower(ln) if ok(ln) else 0
            if lo == -INF or lo < 0:
                lo = 0
            k = lo if k is None else min(k, lo)
        k = int(k or 0)
        self._reach_cache[key] = k
        return k

    def callee_len_facts(self, locals_):
        """postconditions of crate-local callees: a local that holds the successful result of `g(..)` has at least the
        length that every successful return of g is proved to have (summary computed by the same solver in g)."""
        b = self.b
        out = []
        for l in sorted(x for x in locals_ if x is not None):
            if l not in b.names or self.is_arg(l):
                continue
            g = self.origin_call(l)
            if g is None:
                continue
            k = self.local_result_len_lower(g[1]) if isinstance(g, tuple) else ret_len_lower(g)
            if k <= 0:
                continue
            d = b.defs[l][0]
            dpos = (d[0], d[1] if d[1] != "T" else 10**6)
            t = self.local_term(l, dpos, 6)
            ln = Term("len(%s)" % strip_ref(repr(t)), 0, len_reads(((l, dpos),)), "usize")
            out.append((Term(None, 0), ln, -k))
        return out

    def loop_var_facts(self):
        """for i in lo..hi  =>  lo <= i < hi ; chunks/enumerate patterns are handled by tables."""
        b = self.b
        facts = []
        for c in b.calls:
            nm = c.fn or ""
            if not nm.endswith("Iterator::next"):
                continue
            full = c.full or ""
            incl = "RangeInclusive<" in full
            if not ("ops::Range<" in full or incl):
                continue
            # iterator local
            it = self._deref_local(c.args[0])
            if it is None:
                continue
            d = b.single_def(it)
            for _ in range(4):
                if d is not None and d[2] == "rv" and d[3]["k"] == "use":
                    ip = op_place(d[3]["o"])
                    if ip is None or ip["p"]:
                        break
                    d = b.single_def(ip["l"])
                else:
                    break
            if d is None or d[2] != "call":
                continue
            if not (d[3]["f"].get("fn") or "").endswith("IntoIterator::into_iter"):
                continue
            dpos = (d[0], 10**6)
            rng = self._range_value(d[3]["args"][0], dpos, incl)
            if rng is None:
                continue
            lo, hi = rng
            # the loop variable(s): locals assigned from ((dest as Some).0)
            dest = c.dest
            if dest["p"]:
                continue
            for bi, si, s in b.stmts():
                rv = s.get("rv")
                if not rv or rv["k"] != "use":
                    continue
                p = op_place(rv["o"])
                if p is None or p["l"] != dest["l"] or len(p["p"]) != 2:
                    continue
                if not (isinstance(p["p"][0], dict) and p["p"][0].get("down") == "Some"):
                    continue
                if s["lhs"]["p"]:
                    continue
                v = s["lhs"]["l"]
                vt = Term(self.uname(v), 0, [(v, (bi, si))], b.lty(v))
                facts.append(((lo, vt, 0), dpos, v))
                facts.append(((vt, hi, 0 if incl else -1), dpos, v))
        return facts

    def array_len(self, o, depth=6):
        """N when operand o is (a reference to / an unsized view of) a place of type [T; N] or GenericArray<T, N>; else None."""
        b = self.b
        kc = op_const(o)
        if kc is not None:
            kb = const_bytes(kc)
            if kb is None and kc.get("def"):
                cc = b.facts.consts.get(kc["def"]) or {}
                kb = bytes.fromhex(cc["bytes"]) if "bytes" in cc else None
            return len(kb) if kb is not None else None
        p = op_place(o)
        if p is None or depth <= 0:
            return None
        if not [e for e in p["p"] if e != "*"]:
            lt = b.lty(p["l"]).strip()
            m = re.search(r"^&?(?:mut )?\[[^\[\];]*; (\d+)\]$", lt)
            if m:
                return int(m.group(1))
            m = re.search(r"^&?(?:mut )?(?:[\w:]+::)?GenericArray<[^,<>]+, (.*)>$", lt)
            if m:
                n = typenum_value(m.group(1))
                if n is not None:
                    return n
        if [e for e in p["p"] if e != "*"] or p["l"] in b.names or self.is_arg(p["l"]):
            return None
        d = b.single_def(p["l"])
        if d is not None and d[2] == "call" and len(d[3]["args"]) == 1 and \
                (d[3]["f"].get("fn") or "").rsplit("::", 1)[-1] in ("deref", "deref_mut", "as_slice", "as_mut_slice", "as_ref", "as_mut", "borrow"):
            return self.array_len(d[3]["args"][0], depth - 1)
        if d is None or d[2] != "rv":
            return None
        rv = d[3]
        if rv["k"] == "use" or (rv["k"] == "cast" and rv["kind"].startswith("PointerCoercion(Unsize")):
            return self.array_len(rv["o"], depth - 1)
        if rv["k"] == "ref":
            return self.array_len({"c": rv["p"]}, depth - 1)
        return None

    def static_len_upper(self, o, depth=8):
        """static upper bound on the length of the array / slice / Vec view denoted by operand o (None = unknown)."""
        b = self.b
        if depth <= 0:
            return None
        k = op_const(o)
        if k is not None:
            kb = const_bytes(k)
            return len(kb) if kb is not None else None
        p = op_place(o)
        if p is None:
            return None
        if not [e for e in p["p"] if e != "*"]:
            m = re.search(r"\[[^\[\];]*; (\d+)\]$", b.lty(p["l"]).strip())
            if m:
                return int(m.group(1))
        if [e for e in p["p"] if e != "*"]:
            return None
        alld = b.defs.get(p["l"], [])
        if len(alld) != 1 or alld[0][2] == "proj":
            return None
        d = alld[0]
        if d[2] == "rv":
            rv = d[3]
            if rv["k"] in ("use", "cast"):
                return self.static_len_upper(rv["o"], depth - 1)
            if rv["k"] == "ref":
                return self.static_len_upper({"c": rv["p"]}, depth - 1)
            return None
        t = d[3]
        short = (t["f"].get("fn") or "").rsplit("::", 1)[-1]
        args = t["args"]
        if short in ("index", "index_mut") and len(args) == 2:
            ip = op_place(args[1])
            if ip is not None and not ip["p"]:
                dd = b.single_def(ip["l"])
                if dd and dd[2] == "rv" and dd[3]["k"] == "agg" and dd[3]["kind"].get("a") == "adt":
                    adt = dd[3]["kind"]["adt"].rsplit("::", 1)[-1]
                    vals = [const_int(op_const(x)) if op_const(x) is not None else None for x in dd[3]["ops"]]
                    if adt == "RangeTo" and vals[0] is not None:
                        return vals[0]
                    if adt == "RangeToInclusive" and vals[0] is not None:
                        return vals[0] + 1
                    if adt == "Range" and vals[0] is not None and vals[1] is not None:
                        return max(0, vals[1] - vals[0])
            inner = self.static_len_upper(args[0], depth - 1)
            return inner
        if short in ("as_slice", "as_mut_slice", "as_ref", "as_mut", "deref", "deref_mut", "as_bytes", "borrow", "iter", "iter_mut", "into_iter") and args:
            return self.static_len_upper(args[0], depth - 1)
        return None

    def accumulator_bound(self, l):
        """upper bound of an accumulator: a local initialised to a constant c0 and otherwise only updated by checked
        `l = l + t` (0 <= t <= M statically) at most once per turn of a loop over a slice iterator of statically bounded
        length N: then l <= c0 + N*M everywhere.  None if the pattern does not apply."""
        b = self.b
        alld = b.defs.get(l, [])
        if len(alld) < 2 or any(d[2] != "rv" for d in alld) or self.is_arg(l):
            return None
        tr = ty_range(b.lty(l))
        if not tr or tr[0] != 0:
            return None
        init, upd = [], []
        for d in alld:
            rv = d[3]
            if rv["k"] == "use" and op_const(rv["o"]) is not None and const_int(op_const(rv["o"])) is not None:
                init.append((d, const_int(op_const(rv["o"]))))
                continue
            # l = move (tmp.0) with tmp = AddWithOverflow(copy l, t)
            ok = False
            if rv["k"] == "use":
                p = op_place(rv["o"])
                if p is not None and len(p["p"]) == 1 and isinstance(p["p"][0], dict) and p["p"][0].get("f") == 0:
                    dd = b.single_def(p["l"])
                    if dd and dd[2] == "rv" and dd[3]["k"] == "bin" and dd[3]["op"] == "AddWithOverflow":
                        a, c = dd[3]["a"], dd[3]["b"]
                        for x, y in ((a, c), (c, a)):
                            px = op_place(x)
                            if px is not None and not px["p"] and self._is_copy_of(px["l"], l, (dd[0], dd[1])):
                                r = self.term_range(self.op_term(y, (dd[0], dd[1])))
                                if r and r[0] >= 0 and r[1] < 2 ** 40:
                                    upd.append((d, r[1]))
                                    ok = True
                                break
            if not ok:
                return None
        if len(init) != 1 or not upd:
            return None
        loops = b.loops()
        total = init[0][1]
        for d, m in upd:
            inner = None
            for h, blk in loops.items():
                if d[0] in blk and (inner is None or len(blk) < len(loops[inner])):
                    inner = h
            if inner is None:
                return None
            blk = loops[inner]
            ib = init[0][0][0]
            if ib in blk or not b.dominates(ib, inner):
                return None        # the constant initialisation precedes the loop
            # ... and is repeated on every turn of each enclosing loop (otherwise the sum carries over)
            for h2, blk2 in loops.items():
                if h2 != inner and inner in blk2:
                    if ib not in blk2 or not self._every_cycle_passes(h2, blk2, ib):
                        return None
            # the update block is not inside a deeper loop (inner is the innermost) and the loop is driven by a slice iterator
            nx = [c for c in b.calls if c.bb in blk and (c.fn or "").endswith("Iterator::next")
                  and re.search(r"<(std|core)::slice::(Iter|IterMut)<", c.full or "")]
            drv = None
            for c in nx:
                # header region: every cycle passes the call
                if self._every_cycle_passes(inner, blk, c.bb):
                    drv = c
            if drv is None:
                return None
            it = self._deref_local(drv.args[0])
            if it is None:
                return None
            n = self.static_len_upper({"c": {"l": it, "p": []}})
            if n is None:
                return None
            # several updates in one loop: each at most once per turn -> N*M each
            total += n * m
        return total

    def _is_copy_of(self, t, l, pos):
        if t == l:
            return True
        d = self.b.single_def(t)
        if d and d[2] == "rv" and d[3]["k"] == "use":
            p = op_place(d[3]["o"])
            return p is not None and not p["p"] and p["l"] == l and d[0] == pos[0]
        return False

    def _every_cycle_passes(self, head, blocks, must):
        b = self.b
        if head == must:
            return True
        seen = set()
        st = [x for x in b.succ[head] if x in blocks and x != must]
        while st:
            x = st.pop()
            if x == head:
                return False
            if x in seen:
                continue
            seen.add(x)
            st.extend(y for y in b.succ[x] if y in blocks and y != must)
        return True

    def enumerate_take_facts(self):
        """for (i, x) in it.take(n).enumerate()  (or .enumerate().take(n))  =>  0 <= i <= n - 1  (n constant)."""
        b = self.b
        facts = []
        for c in b.calls:
            if not (c.fn or "").endswith("Iterator::next"):
                continue
            full = c.full or ""
            if not re.search(r"iter::Enumerate<(std|core)::iter::Take<|iter::Take<(std|core)::iter::Enumerate<", full):
                continue
            it = self._deref_local(c.args[0])
            if it is None or c.dest["p"]:
                continue
            # walk the adaptor chain back to the take(_, n)
            n = None
            cur = {"c": {"l": it, "p": []}}
            for _ in range(8):
                p = op_place(cur)
                if p is None or p["p"]:
                    break
                d = b.single_def(p["l"])
                if d is None:
                    break
                if d[2] == "rv" and d[3]["k"] == "use":
                    cur = d[3]["o"]
                    continue
                if d[2] != "call":
                    break
                short = (d[3]["f"].get("fn") or "").rsplit("::", 1)[-1]
                if short == "take" and len(d[3]["args"]) == 2:
                    k = op_const(d[3]["args"][1])
                    n = const_int(k) if k is not None else None
                    break
                if short in ("enumerate", "into_iter") and d[3]["args"]:
                    cur = d[3]["args"][0]
                    continue
                break
            if n is None or n <= 0:
                continue
            for bi, si, s in b.stmts():
                rv = s.get("rv")
                if not rv or rv["k"] != "use" or s["lhs"]["p"]:
                    continue
                p = op_place(rv["o"])
                if p is None or p["l"] != c.dest["l"] or len(p["p"]) != 3:
                    continue
                e0, e1, e2 = p["p"]
                if not (isinstance(e0, dict) and e0.get("down") == "Some" and isinstance(e1, dict) and e1.get("f") == 0
                        and isinstance(e2, dict) and e2.get("f") == 0):
                    continue
                v = s["lhs"]["l"]
                vt = Term(self.uname(v), 0, [(v, (bi, si))], b.lty(v))
                facts.append(((Term(None, 0), vt, 0), (bi, si), v))
                facts.append(((vt, Term(None, n - 1), 0), (bi, si), v))
        return facts

    def upvar_facts(self, site_pos):
        """the body is a closure: a captured integer variable that the enclosing function never reassigns has, inside the
        closure, the bounds it has where the closure value is created (every creation site; the weakest bounds win)."""
        b = self.b
        if b.kind != "Closure" or not b.upvars:
            return []
        if getattr(self, "_upvar_cache", None) is None:
            self._upvar_cache = {}
            F = b.facts
            par = b.path.rsplit("::{closure", 1)[0]
            pb0 = F.bodies.get(par)
            cands = [pb0] if pb0 is not None else [x for x in F.bodies.values() if x.file == b.file]
            sites = []
            for pb in cands:
                for bi, si, st in pb.stmts():
                    rv = st.get("rv")
                    if rv and rv["k"] == "agg" and rv["kind"].get("a") == "closure" and rv["kind"]["def"] == b.path:
                        sites.append((pb, bi, si, rv))
            for k, (nm, pl) in enumerate(b.upvars):
                # index of the captured field in the environment
                fld = [e for e in pl["p"] if isinstance(e, dict) and "f" in e]
                if not fld:
                    continue
                idx = fld[0]["f"]
                lo, hi = None, None
                okall = bool(sites)
                for pb, bi, si, rv in sites:
                    if idx >= len(rv["ops"]):
                        okall = False
                        break
                    envp = Env(pb)
                    o = rv["ops"][idx]
                    q = op_place(o)
                    src = None
                    if q is not None and not q["p"]:
                        d = pb.single_def(q["l"]) if q["l"] not in pb.names and q["l"] > pb.argc else None
                        if d is not None and d[2] == "rv" and d[3]["k"] == "ref" and not d[3].get("mut") and not d[3]["p"]["p"]:
                            src = d[3]["p"]["l"]          # captured by shared reference
                        elif d is None:
                            src = q["l"]                  # captured by copy
                        elif d[2] == "rv" and d[3]["k"] == "use":
                            q2 = op_place(d[3]["o"])
                            if q2 is not None and not q2["p"]:
                                src = q2["l"]
                    if src is None or ty_range(F.int_newtypes.get(pb.lty(src), pb.lty(src))) is None:
                        okall = False
                        break
                    # never reassigned and never mutably borrowed in the enclosing function
                    ndefs = len(pb.defs.get(src, []))
                    if (envp.is_arg(src) and ndefs > 0) or (not envp.is_arg(src) and ndefs != 1):
                        okall = False
                        break
                    if any(u["kind"] == "ref" and u.get("stmt", {}).get("rv", {}).get("mut") for u in pb.uses(src)):
                        okall = False
                        break
                    t = envp.local_term(src, (bi, si))
                    S, used, ok = knowledge(envp, bi, si, [t])
                    if not ok(t):
                        okall = False
                        break
                    l_, h_ = S.lower(t), S.upper(t)
                    lo = l_ if lo is None else min(lo, l_)
                    hi = h_ if hi is None else max(hi, h_)
                if okall and lo is not None:
                    self._upvar_cache[k] = (pl, lo, hi)
        out = []
        for k, (pl, lo, hi) in self._upvar_cache.items():
            t = self.place_term(pl, site_pos)
            if lo is not None and lo > -INF:
                out.append((Term(None, 0), t, -lo))
            if hi is not None and hi < INF:
                out.append((t, Term(None, 0), hi))
        return out

    def closure_param_len_facts(self):
        """the body is a closure handed to map / filter_map / for_each / ... of an iterator created by chunks_exact(k) /
        par_chunks_exact(k) / windows(k) (len == k) or chunks(k) / par_chunks(k) (1 <= len <= k), k constant: facts about
        the length of its slice parameter."""
        b = self.b
        if b.kind != "Closure" or b.argc < 2:
            return []
        F = b.facts
        facts = []
        for pb in F.bodies.values():
            if pb.file != b.file:
                continue
            for bi, si, st in pb.stmts():
                rv = st.get("rv")
                if not (rv and rv["k"] == "agg" and rv["kind"].get("a") == "closure" and rv["kind"]["def"] == b.path) or st["lhs"]["p"]:
                    continue
                cl = st["lhs"]["l"]
                # the call that consumes the closure value (possibly through copies / borrows of the closure variable)
                holders, work = {cl}, [cl]
                while work:
                    x = work.pop()
                    for u in pb.uses(x):
                        if u["kind"] in ("rv", "ref") and "stmt" in u and not u["stmt"]["lhs"]["p"] and u["stmt"]["lhs"]["l"] not in holders and len(holders) < 8:
                            holders.add(u["stmt"]["lhs"]["l"])
                            work.append(u["stmt"]["lhs"]["l"])
                for u in [u_ for h in holders for u_ in pb.uses(h)]:
                    if u["kind"] != "arg" or u.get("argi", 0) < 1:
                        continue
                    c = pb.callsite_at(u["bb"])
                    if (c.fn or "").rsplit("::", 1)[-1] not in ("map", "filter_map", "for_each", "flat_map", "filter", "try_for_each", "any", "all", "find", "position"):
                        continue
                    # receiver chain back to the chunking call
                    cur = c.args[0]
                    kind, k = None, None
                    for _ in range(6):
                        p = op_place(cur)
                        if p is None or p["p"]:
                            break
                        d = pb.single_def(p["l"])
                        if d is None:
                            break
                        if d[2] == "rv" and d[3]["k"] in ("use", "ref"):
                            cur = d[3]["o"] if d[3]["k"] == "use" else {"c": d[3]["p"]}
                            continue
                        if d[2] != "call":
                            break
                        short = (d[3]["f"].get("fn") or "").rsplit("::", 1)[-1]
                        if short in ("chunks_exact", "par_chunks_exact", "windows", "par_windows", "chunks", "par_chunks", "chunks_exact_mut", "chunks_mut") and len(d[3]["args"]) == 2:
                            kc = op_const(d[3]["args"][1])
                            k = const_int(kc) if kc is not None else None
                            kind = short
                            break
                        if short in ("into_iter", "into_par_iter", "enumerate", "iter", "by_ref", "rev") and d[3]["args"]:
                            cur = d[3]["args"][0]
                            continue
                        break
                    if kind is None or k is None or k <= 0:
                        continue
                    par = 2       # first parameter after the environment
                    ty = b.lty(par)
                    if not re.match(r"^&(mut )?\[", ty):
                        continue
                    vt = self.local_term(par, (0, 0), 2)
                    ln = Term("len(%s)" % strip_ref(repr(vt)), 0, len_reads(((par, (0, 0)),)), "usize")
                    kt = Term(None, k)
                    facts.append((ln, kt, 0))
                    if "exact" in kind or "windows" in kind:
                        facts.append((kt, ln, 0))
                    else:
                        facts.append((Term(None, 1), ln, 0))
        return facts

    def chunk_var_facts(self):
        """for c in s.chunks_exact(k) / s.windows(k)  =>  len(c) == k ;  s.chunks(k)  =>  1 <= len(c) <= k  (k constant)."""
        b = self.b
        facts = []
        for c in b.calls:
            nm = c.fn or ""
            if not nm.endswith("Iterator::next"):
                continue
            full = c.full or ""
            m = re.search(r"slice::(ChunksExactMut|ChunksExact|Windows|ChunksMut|Chunks|RChunksExact|RChunks)<", full)
            if not m:
                continue
            kind = m.group(1)
            it = self._deref_local(c.args[0])
            if it is None:
                continue
            d = b.single_def(it)
            for _ in range(4):
                if d is not None and d[2] == "rv" and d[3]["k"] == "use":
                    ip = op_place(d[3]["o"])
                    if ip is None or ip["p"]:
                        break
                    d = b.single_def(ip["l"])
                elif d is not None and d[2] == "call" and (d[3]["f"].get("fn") or "").endswith("IntoIterator::into_iter"):
                    ip = op_place(d[3]["args"][0])
                    if ip is None or ip["p"]:
                        break
                    d = b.single_def(ip["l"])
                else:
                    break
            if d is None or d[2] != "call":
                continue
            mk = (d[3]["f"].get("fn") or "").rsplit("::", 1)[-1]
            if mk not in ("chunks_exact", "chunks_exact_mut", "windows", "chunks", "chunks_mut", "rchunks", "rchunks_exact") or len(d[3]["args"]) != 2:
                continue
            k = op_const(d[3]["args"][1])
            k = const_int(k) if k is not None else None
            if k is None or k <= 0:
                continue
            dest = c.dest
            if dest["p"]:
                continue
            for bi, si, s in b.stmts():
                rv = s.get("rv")
                if not rv or rv["k"] != "use":
                    continue
                p = op_place(rv["o"])
                if p is None or p["l"] != dest["l"] or len(p["p"]) != 2:
                    continue
                if not (isinstance(p["p"][0], dict) and p["p"][0].get("down") == "Some"):
                    continue
                if s["lhs"]["p"]:
                    continue
                v = s["lhs"]["l"]
                vt = self.local_term(v, (bi, si), 2)
                ln = Term("len(%s)" % strip_ref(repr(vt)), 0, len_reads(((v, (bi, si)),)), "usize")
                kt = Term(None, k)
                facts.append(((ln, kt, 0), (bi, si), v))
                if "Exact" in kind or kind == "Windows":
                    facts.append(((kt, ln, 0), (bi, si), v))
                else:
                    facts.append(((Term(None, 1), ln, 0), (bi, si), v))
        return facts

    def _deref_local(self, o):
        """the local a reference operand points to, through re-borrows: &mut *(&mut x) -> x."""
        b = self.b
        p = op_place(o)
        if p is None or p["p"]:
            return None
        l = p["l"]
        for _ in range(6):
            d = b.single_def(l)
            if not (d and d[2] == "rv"):
                return None
            rv = d[3]
            if rv["k"] == "use":
                ip = op_place(rv["o"])
                if ip is None or ip["p"]:
                    return None
                l = ip["l"]
                continue
            if rv["k"] != "ref":
                return None
            rp = rv["p"]
            if not rp["p"]:
                return rp["l"]
            if rp["p"] == ["*"]:
                l = rp["l"]
                continue
            return None
        return None

    def _range_value(self, o, pos, incl):
        b = self.b
        p = op_place(b.resolve_copy(o))
        if p is None or p["p"]:
            return None
        d = b.single_def(p["l"])
        if d is None:
            return None
        dpos = (d[0], d[1] if d[1] != "T" else 10**6)
        if d[2] == "rv" and d[3]["k"] == "agg":
            kd = d[3]["kind"]
            if kd.get("a") == "adt" and kd["adt"].endswith("ops::Range") and len(d[3]["ops"]) == 2:
                return (self.op_term(d[3]["ops"][0], dpos), self.op_term(d[3]["ops"][1], dpos))
        if d[2] == "call" and (d[3]["f"].get("fn") or "").endswith("RangeInclusive::<Idx>::new"):
            return (self.op_term(d[3]["args"][0], dpos), self.op_term(d[3]["args"][1], dpos))
        return None


def norm_read(r):
    if len(r) == 2:
        return (r[0], r[1], (), "val")
    if len(r) == 3:
        return (r[0], r[1], r[2], "val")
    return r


def len_reads(reads):
    """reads of a term used only through its length: element stores cannot change it."""
    return tuple((r[0], r[1], r[2], "len") for r in (norm_read(x) for x in reads))


def is_elem_place(p):
    """place denotes an element of a slice/array reached from the local: fields..., optional deref, then an index."""
    pr = p["p"]
    return bool(pr) and isinstance(pr[-1], dict) and ("idx" in pr[-1] or "cidx" in pr[-1])


def typenum_value(s):
    """value of a typenum unsigned integer type (`UInt<UInt<UTerm, B1>, B0>` = 2): binary digits, most significant innermost."""
    s = re.sub(r"\b[\w]+::", "", s.strip())
    if s == "UTerm":
        return 0
    m = re.match(r"^UInt<(.*), B([01])>$", s)
    if not m:
        return None
    inner = typenum_value(m.group(1))
    return None if inner is None else 2 * inner + int(m.group(2))


def static_range(t):
    """interval of a term from types alone (constants exact)."""
    if t.base is None:
        return (t.off, t.off)
    r = t.rng
    if r is None:
        if t.base.startswith("len("):
            r = (0, LEN_MAX)
        else:
            r = ty_range(t.ty or "")
    if r is None:
        return None
    return (r[0] + t.off, r[1] + t.off)


def field_path(p):
    """leading field names of a place, looking through dereferences (memory reached through the local)."""
    out = []
    for e in p["p"]:
        if e == "*":
            continue
        if isinstance(e, dict) and "f" in e:
            out.append(e["n"])
        else:
            break
    return tuple(out)


def strip_ref(s):
    while s.startswith("&") or s.startswith("*"):
        s = s[1:]
    if s.startswith("mut "):
        s = s[4:]
    return s


def split_top(s):
    out, d, cur = [], 0, ""
    for ch in s:
        if ch in "<([":
            d += 1
        elif ch in ">)]":
            d -= 1
        if ch == "," and d == 0:
            out.append(cur)
            cur = ""
        else:
            cur += ch
    if cur.strip():
        out.append(cur)
    return out


def rel_facts(op, a, c, truth):
    """constraints (x, y, k): x - y <= k."""
    if not truth:
        op = {"Lt": "Ge", "Le": "Gt", "Gt": "Le", "Ge": "Lt", "Eq": "Ne", "Ne": "Eq"}[op]
    if op == "Lt":
        return [(a, c, -1)]
    if op == "Le":
        return [(a, c, 0)]
    if op == "Gt":
        return [(c, a, -1)]
    if op == "Ge":
        return [(c, a, 0)]
    if op == "Eq":
        return [(a, c, 0), (c, a, 0)]
    if op == "Ne":
        # x != 0 for a non-negative x  =>  x >= 1
        for x, z in ((a, c), (c, a)):
            if z.base is None and z.off == 0 and x.base is not None and (x.base.startswith("len(") or (ty_range(x.ty or "") or (-1, 0))[0] == 0):
                return [(z, x, -1)]
    return []


class Solver:
    """difference constraints over term bases; node None is the constant zero."""

    def __init__(self):
        self.edges = {}   # (y, x) -> c  meaning x - y <= c
        self.nodes = set([None])

    def add(self, x, y, c):
        """x - y <= c for Terms x, y."""
        k = c - x.off + y.off
        self.nodes.add(x.base)
        self.nodes.add(y.base)
        if x.base == y.base:
            return
        key = (y.base, x.base)
        if key not in self.edges or self.edges[key] > k:
            self.edges[key] = k

    def add_range(self, t):
        r = None
        if t.base is None:
            return
        if t.base.startswith("len("):
            r = (0, LEN_MAX)
        elif t.ty and ty_range(t.ty):
            r = ty_range(t.ty)
        if r:
            b0 = Term(t.base, 0)
            self.add(b0, Term(None, 0), r[1])
            self.add(Term(None, 0), b0, -r[0])

    def dist(self, src):
        d = {n: INF for n in self.nodes}
        d[src] = 0
        for _ in range(len(self.nodes)):
            ch = False
            for (y, x), c in self.edges.items():
                if d[y] + c < d[x]:
                    d[x] = d[y] + c
                    ch = True
            if not ch:
                break
        return d

    def consistent(self):
        """no negative cycle (contradictory facts prove nothing here: fail closed)."""
        d = {n: 0 for n in self.nodes}
        for i in range(len(self.nodes) + 1):
            ch = False
            for (y, x), c in self.edges.items():
                if d[y] + c < d[x]:
                    d[x] = d[y] + c
                    ch = True
            if not ch:
                return True
        return False

    def implies(self, x, y, c):
        """is x - y <= c implied?"""
        if not self.consistent():
            return False
        k = c - x.off + y.off
        if x.base == y.base:
            return 0 <= k
        self.nodes.add(x.base)
        self.nodes.add(y.base)
        d = self.dist(y.base)
        return d.get(x.base, INF) <= k

    def upper(self, t):
        if t.base is None:
            return t.off
        if not self.consistent():
            return INF
        self.nodes.add(t.base)
        d = self.dist(None)
        v = d.get(t.base, INF)
        return v + t.off

    def lower(self, t):
        if t.base is None:
            return t.off
        if not self.consistent():
            return -INF
        self.nodes.add(t.base)
        d = self.dist(t.base)
        v = d.get(None, INF)
        return -v + t.off if v != INF else -INF


_RET_LEN = {}


def ret_len_lower(g):
    """proved lower bound on the length of the value carried by every successful return of body g (0 = nothing proved).
    Successful returns: `_0 = Ok(x)`, `_0 = Some(x)`, or `_0 = x` when the return type is not Result/Option."""
    key = (id(g.facts), g.path)
    if key in _RET_LEN:
        return _RET_LEN[key]
    _RET_LEN[key] = 0
    rty = g.lty(0)
    wrapped = bool(re.match(r"^(std|core)::(result::Result|option::Option)<", rty))
    env = Env(g)
    k = None
    for c in g.calls:
        if c.dest is not None and c.dest["l"] == 0:
            if "FromResidual" in (c.fn or ""):
                continue
            _RET_LEN[key] = 0
            return 0
    for bi, si, s in g.stmts():
        if "lhs" not in s or s["lhs"]["l"] != 0:
            continue
        rv = s["rv"]
        payload = None
        if s["lhs"]["p"]:
            k = 0
            break
        if rv["k"] == "agg" and rv["kind"].get("a") == "adt" and rv["kind"].get("var") in ("Ok", "Some", "Err", "None") and wrapped:
            if rv["kind"]["var"] in ("Err", "None"):
                continue
            payload = rv["ops"][0]
        elif rv["k"] == "use" and not wrapped:
            payload = rv["o"]
        else:
            k = 0
            break
        a = env.op_term(payload, (bi, si))
        ln = Term("len(%s)" % strip_ref(repr(a)), 0, len_reads(a.reads), "usize")
        S, _, ok = knowledge(env, bi, si, [ln])
        lo = S.lower(ln) if ok(ln) else 0
        if lo == -INF or lo < 0:
            lo = 0
        k = lo if k is None else min(k, lo)
    k = int(k or 0)
    _RET_LEN[key] = k
    return k


def knowledge(env, site_bb, site_idx, terms):
    """Solver holding every usable fact at the site for the given requirement terms."""
    b = env.b
    site_pos = (site_bb, site_idx)
    S = Solver()
    used = []

    def ok_term(t, tpos_override=None):
        for (l, rp, path, mode) in t.reads:
            if l is None:
                continue
            if not env.stable(l, rp, site_pos, path, mode):
                return False
        return True

    cands = []
    for fx, gpos in env.dominating_edge_facts(site_bb):
        cands.append((fx, "branch@bb%d" % gpos[0]))
    for item in env.loop_var_facts():
        fx, dpos, v = item
        # the loop variable fact holds wherever the variable is read after its assignment from next()
        cands.append((fx, "loop"))
    for item in env.chunk_var_facts():
        cands.append((item[0], "chunk"))
    for item in env.enumerate_take_facts():
        cands.append((item[0], "enumerate-take"))
    for fx in env.closure_param_len_facts():
        cands.append((fx, "closure-param"))
    for fx in env.upvar_facts(site_pos):
        cands.append((fx, "captured"))
    # locals mentioned anywhere (facts or requirement)
    mentioned = set()
    for t in terms:
        for r in t.reads:
            mentioned.add(r[0])
    for (fx, _) in list(cands):
        for t in fx[:2]:
            for r in t.reads:
                mentioned.add(r[0])
    for fx, dpos in env.def_facts(mentioned):
        cands.append((fx, "def"))
    for l in sorted(x for x in mentioned if x is not None):
        if len(b.defs.get(l, [])) >= 2:
            ub = env.accumulator_bound(l)
            if ub is not None:
                at = Term(env.uname(l), 0, [(l, site_pos)], b.lty(l))
                cands.append(((at, Term(None, 0), ub), "accumulator"))
    for fx in env.callee_len_facts(mentioned):
        cands.append((fx, "postcondition"))
    for fx in list(env.intrinsic):
        cands.append((fx, "expr"))
    for fx, why in cands:
        x, y, c = fx
        if ok_term(x) and ok_term(y):
            S.add(x, y, c)
            S.add_range(x)
            S.add_range(y)
            used.append("%r - %r <= %d (%s)" % (x, y, c, why))
    for t in terms:
        if ok_term(t):
            S.add_range(t)
    # a narrowing / sign-changing cast equals its operand once the operand is known to lie in the target type
    for _ in range(2):
        for cb, (src, dty) in list(env.casts.items()):
            rd = ty_range(dty)
            if rd is None or not ok_term(src):
                continue
            S.add_range(src)
            if S.lower(src) >= rd[0] and S.upper(src) <= rd[1]:
                ct = Term(cb, 0, src.reads, dty)
                S.add(ct, src, 0)
                S.add(src, ct, 0)
    return S, used, ok_term
