"""C19 — saving reports sink failures and ignores sink chunking: static proof of the mechanism (DESIGN §4 C19)."""
import re
import safety, scopes, lib
from mir import op_place

LEVEL = dict(
    level="other",
    rule_text="for every call in the save closure that yields an io::Result (or BufWriter::into_inner's result): the value reaches `?`, "
              "the return place, or a propagating combinator (R-ERR); the partial-write method Write::write is called only inside "
              "CountingWrite::write (R-WHO); every write to CountingWrite.bytes_written adds exactly what the sink accepted "
              "(R-ORDER); no undischarged panic site in the scope (R-INV)",
    explanation="Decides: a sink failure at any write call can only surface as Err (no swallowed/dropped/unwrapped io::Result, no panic "
                "site), output and counted offsets cannot depend on how the sink chunks writes (write_all/write_fmt everywhere, the "
                "counter adds the accepted byte count), the BufWriter's final flush error is propagated. Does not decide: that a later "
                "save loads to the same content (C01).",
    trusted_base=["rustc MIR and callee resolution", "std's contract for Write::write_all / write_fmt (retry on Interrupted, loop on short writes, WriteZero on 0)",
                  "tables/inventory.json"],
)

IO_ERR = re.compile(r"io::(error::)?Error|IntoInnerError")


def run(ctx):
    F = ctx.facts("default")
    sc, sites, st, tst = safety.run(ctx, F, scopes.C19_ENTRIES)
    ctx.floor("R-ERR", "C19 scope bodies", len(sc), 45)
    # ---- R-ERR
    n = 0
    for p in sorted(sc):
        b = F.bodies[p]
        fn = F.canon_of(b)
        for c in lib.result_calls(b, lambda e, t: bool(IO_ERR.search(e))):
            n += 1
            v, why = lib.result_disposition(b, c.dest["l"])
            ok = v in ("propagated", "returned", "err-extracted")
            key = "%s|%s" % (fn, short(c))
            ctx.ob("R-ERR", key, ok, "%s: %s" % (v, why), b.where(c.ln),
                   what="io::Result of %s in %s is %s (%s): a sink failure here would not be reported" % (short(c), fn, v, why))
            if n % 9 == 0:
                ctx.sample({"call": short(c), "in": fn, "where": b.where(c.ln), "disposition": v})
    ctx.floor("R-ERR", "io::Result-producing call sites", n, 60)
    ctx._err_done = True
    write_discipline(ctx, F, sc)
    # ---- counter bookkeeping
    writers = {}
    for p, b in F.bodies.items():
        for bi, kind, ln, s in lib.field_accesses(b, "CountingWrite", "bytes_written"):
            if kind in ("write", "borrow_mut"):
                writers.setdefault(F.canon_of(b), []).append((b, bi, s, ln))
    allowed = {"<CountingWrite as Write>::write", "<CountingWrite as Write>::write_all", "IncrementalDocument::save_internal"}
    for fn, ws in sorted(writers.items()):
        ctx.ob("R-WHO", "bytes_written-writer|%s" % fn, fn in allowed, "%s is an owner of the byte counter" % fn, ws[0][0].where(ws[0][3]),
               what="%s writes CountingWrite.bytes_written outside the reviewed owners" % fn)
    ctx.floor("R-WHO", "owners of bytes_written", len(set(writers) & allowed), 2)
    counted_sink(ctx, F)
    # (d) save(): BufWriter finalisation is propagated and follows save_internal
    # ... in the two path-taking entry points, and wherever else in the save scope a buffering writer is put in front of the sink
    # (a BufWriter that is merely dropped swallows the failure of its last flush)
    names_d = ["Document::save", "IncrementalDocument::save"]
    for p_ in sorted(sc):
        fn_ = F.canon_of(F.bodies[p_])
        if fn_ not in names_d and "{closure" not in fn_ and lib.calls_named(F.bodies[p_], r"io::(BufWriter|LineWriter)::<W>::(new|with_capacity)$"):
            names_d.append(fn_)
    for name in names_d:
        b = F.fn(name)
        bw = lib.calls_named(b, r"io::(BufWriter|LineWriter)::<W>::(new|with_capacity)$")
        fin = [c for c in b.calls if re.search(r"io::(BufWriter|LineWriter)::<W>::into_inner$|io::Write::flush$", c.fn or "")]
        si = lib.calls_named(b, r"::save_internal$")
        ok = True
        how = "no BufWriter"
        if bw:
            ok = bool(fin) and bool(si) and all(b.dominates(s.bb, f.bb) for s in si for f in fin)
            if ok:
                ok = all(lib.result_disposition(b, f.dest["l"])[0] in ("propagated", "returned") for f in fin)
            how = "BufWriter::into_inner()/flush() follows save_internal and its result is propagated"
        ctx.ob("R-ORDER", "final-flush|%s" % name, ok, how, b.where(),
               what="%s does not surface the BufWriter's final flush error" % name)
    # (e) failure atomicity: what saving may change in the document itself.  A failed save must leave a document that a
    # later save writes correctly, so state may not be taken out of the document across a fallible write.
    ALLOWED_STORE = {("Document::write_cross_reference_stream", "max_id")}
    ALLOWED_MUT_CALLEE = re.compile(r"^(object::)?Dictionary::(set|remove)$|::write_cross_reference_stream$|::write_trailer$")
    nmut = 0
    for p in sorted(sc):
        b = F.bodies[p]
        fn = F.canon_of(b)
        for bi, si, st in b.stmts():
            if "lhs" not in st:
                continue
            for e in st["lhs"]["p"]:
                if isinstance(e, dict) and "f" in e and e.get("loc") and e["adt"].split("::")[-1] in ("Document", "IncrementalDocument"):
                    nmut += 1
                    t = b.rvname(st["rv"], 3)
                    ok = (fn, e["n"]) in ALLOWED_STORE and re.match(r"^Add\(.*max_id,1\)$", t) is not None
                    ctx.ob("R-WHO", "save-mutates|%s|%s" % (fn, e["n"]), ok, "%s.%s = %s is the reviewed id allocation for the cross-reference stream" % (fn, e["n"], t), b.where(st["ln"]),
                           what="saving assigns Document.%s = %s in %s: state changed during save must survive a failed write unchanged (only `max_id += 1` is reviewed)" % (e["n"], t, fn))
                    break
            rv = st.get("rv")
            if rv and rv["k"] == "ref" and rv.get("mut"):
                hit = None
                for e in rv["p"]["p"]:
                    if isinstance(e, dict) and "f" in e and e.get("loc") and e["adt"].split("::")[-1] in ("Document", "IncrementalDocument"):
                        hit = e
                if hit is None or st["lhs"]["p"]:
                    continue
                for u in b.uses(st["lhs"]["l"]):
                    nmut += 1
                    if u["kind"] == "arg":
                        c = b.callsite_at(u["bb"])
                        cn = F.canon_of(F.bodies[c.name]) if c.name in F.bodies else (c.fn or c.name)
                        ok = bool(ALLOWED_MUT_CALLEE.search(cn))
                        ctx.ob("R-WHO", "save-mutates|%s|%s|%s" % (fn, hit["n"], cn), ok, "&mut %s is handed to %s" % (hit["n"], cn), b.where(st["ln"]),
                               what="saving hands `&mut self.%s` to %s in %s: taking state out of the document (mem::take/replace/swap, drain, clear) across fallible writes leaves a failed save with a damaged document" % (hit["n"], cn, fn))
                    elif u["kind"] not in ("drop",):
                        ctx.ob("R-WHO", "save-mutates|%s|%s|%s" % (fn, hit["n"], u["kind"]), False, "", b.where(st["ln"]),
                               what="saving keeps a mutable borrow of Document.%s in %s (%s): unreviewed mutation of the document during save" % (hit["n"], fn, u["kind"]))
    ctx.floor("R-WHO", "document mutations during save", nmut, 9)
    ctx.assumptions += ["Write::write_all and write_fmt of std retry Interrupted and loop over short writes (their documented contract)",
                        "max_id < u32::MAX (documents with fewer than 2^32 objects)"]


def write_discipline(ctx, F, sc=None):
    """Offsets are read off the byte counter, so every byte handed to the sink must be counted exactly once and must arrive:
    the partial-write method `Write::write` is called by CountingWrite::write only (everything else goes through write_all /
    write_fmt, which loop), CountingWrite::write counts what the sink accepted, CountingWrite::write_all counts the buffer and
    delegates the same buffer to the sink's write_all."""
    if getattr(ctx, "_wd_done", None) == ctx.cur_cfg:
        return
    ctx._wd_done = ctx.cur_cfg
    if sc is None:
        sc = [p for p, b in F.bodies.items() if b.file.startswith("src/writer")]
    # ---- R-WHO: partial-write methods
    cw_write = F.fn("<CountingWrite as Write>::write")
    for p in sorted(sc):
        b = F.bodies[p]
        for c in b.calls:
            nm = c.fn or c.name
            if re.search(r"io::Write::(write|write_vectored)$", nm):
                ok = (b is cw_write)
                ctx.ob("R-WHO", "partial-write|%s" % F.canon_of(b), ok, "Write::write is called by CountingWrite::write only", b.where(c.ln),
                       what="%s calls the partial-write method %s directly: output and offsets now depend on how the sink chunks writes" % (F.canon_of(b), nm.rsplit("::", 1)[-1]))
    # (a) write(): adds the Ok payload of the inner write, returns the same result
    b = cw_write
    inner = [c for c in b.calls if re.search(r"io::Write::write$", c.fn or "")]
    ok = False
    how = "?"
    if len(inner) == 1:
        res = inner[0].dest["l"]
        for bi, si, s in lib.stores_to_field(b, "bytes_written"):
            t = b.rvname(s["rv"], 4)
            how = t
            pay = "%s@Ok.0" % b.lname(res)
            m = re.match(r"^Add\((.*bytes_written),(\w+)\)$", t)
            if m:
                added = m.group(2)
                # `bytes` must be the Ok payload
                for l, nme in b.names.items():
                    if nme == added:
                        d = b.single_def(l)
                        if d and d[2] == "rv" and b.rvname(d[3], 2) == pay:
                            ok = True
                if added == pay:
                    ok = True
        # returned value is the inner result
        ret_ok = any(u["kind"] == "rv" and u["whole"] and u["stmt"]["lhs"]["l"] == 0 for u in b.uses(res))
        ok = ok and ret_ok
    ctx.ob("R-ORDER", "write-counts-accepted-bytes", ok, "bytes_written += (inner.write(buf)? as Ok).0 ; result returned unchanged (%s)" % how, b.where(),
           what="CountingWrite::write does not add exactly the number of bytes the sink accepted (or does not return the sink's result)")
    # (b) write_all(): adds buffer.len() and delegates the same buffer
    b = F.fn("<CountingWrite as Write>::write_all")
    ok = False
    how = "?"
    dels = [c for c in b.calls if re.search(r"io::Write::write_all$", c.fn or "")]
    for bi, si, s in lib.stores_to_field(b, "bytes_written"):
        t = b.rvname(s["rv"], 4)
        how = t
        m = re.match(r"^Add\((.*bytes_written),len\(&?\*?(\w+)\)\)$", t)
        if m and len(dels) == 1:
            buf = m.group(2)
            if b.oname(dels[0].args[1], 3).strip("&*") == buf and dels[0].dest["l"] == 0:
                ok = True
    ctx.ob("R-ORDER", "write_all-counts-buffer", ok, "bytes_written += buffer.len(); inner.write_all(buffer) returned (%s)" % how, b.where(),
           what="CountingWrite::write_all does not add buffer.len() for the buffer it delegates, or swallows the result")


def counted_sink(ctx, F):
    """Every byte that reaches the sink is counted: offsets in the cross-reference data are read off the counter."""
    write_discipline(ctx, F)
    # the two save routines report every failure of the sink (for the properties that only include this group: a swallowed
    # failure of, say, the copy of the previous revisions yields Ok and a file that is not what was promised)
    if not getattr(ctx, "_err_done", False):
        for fn_ in ("Document::save_internal", "IncrementalDocument::save_internal"):
            sb = F.fn(fn_)
            for c in lib.result_calls(sb, lambda e, t: bool(IO_ERR.search(e))):
                v, why = lib.result_disposition(sb, c.dest["l"])
                ctx.ob("R-ERR", "%s|%s" % (fn_, short(c)), v in ("propagated", "returned", "err-extracted"), "%s: %s" % (v, why), sb.where(c.ln),
                       what="io::Result of %s in %s is %s (%s): a sink failure here would not be reported" % (short(c), fn_, v, why))
    # (c) the bypass in IncrementalDocument::save_internal
    b = F.fn("IncrementalDocument::save_internal")
    ok = False
    how = "?"
    byp = [c for c in b.calls if re.search(r"io::Write::write_all$", c.fn or "") and "inner" in b.oname(c.args[0], 3)]
    sts = lib.stores_to_field(b, "bytes_written")
    raw = [x for x in lib.field_accesses(b, "CountingWrite", "inner") if x[1] != "init"]
    # The reader cuts off what precedes the `%PDF-` header and reads every offset from there; so the counter, which the
    # offsets of the update are read off, advances by the length of the prefix *minus the part in front of the header*, found
    # the same way the reader finds it (the same function of the buffer).
    rd = F.fn("Reader::read")
    origin = None
    for c in rd.calls:
        if (c.fn or "").endswith("ops::Index::index") and "RangeFrom" in (c.full or "") and re.search(r"self\.buffer$", rd.oname(c.args[0], 3).strip("&*")):
            d = rd.def_rv(c.args[1])
            if d and d[2] == "rv" and d[3]["k"] == "agg" and len(d[3]["ops"]) == 1:
                origin = rd.sname(d[3]["ops"][0], 8).replace("&", "").replace("*", "").replace("self.buffer", "BUF")
            break
    if len(byp) == 1 and len(sts) == 1:
        t = b.rvname(sts[0][2]["rv"], 6)
        how = t
        pbuf = b.oname(byp[0].args[1], 3).strip("&*")
        m = re.match(r"^Add\((.*bytes_written),Sub\(len\(&?\*?(\w+)\),(.+)\)\)$", t)
        if m and pbuf == m.group(2) and origin is not None:
            mine = m.group(3).replace("&", "").replace("*", "").replace(pbuf, "BUF")
            ok = mine == origin and "BUF" in origin
            how = "%s; the reader cuts its buffer at %s" % (t, origin)
        elif re.match(r"^Add\((.*bytes_written),len\(&?\*?(\w+)\)\)$", t):
            how = "%s: bytes in front of the header are counted, the reader (which cuts its buffer at %s) does not count them" % (t, origin)
    elif not byp and not sts and not raw:
        ok, how = (origin == "0" or origin is None), "nothing bypasses the counting wrapper; the reader cuts its buffer at %s" % origin
    ctx.ob("R-ORDER", "prefix-bypass-accounted", ok, "the history prefix is counted from the header on: target.inner.write_all(prev) paired with bytes_written += prev.len() - header offset, the same offset the reader cuts (%s)" % how, b.where(),
           what="the history prefix written through the inner sink is not accounted in bytes_written the way the reader counts offsets (%s): all offsets of the update would be wrong" % how)
    ctx.ob("R-WHO", "raw-sink-uses|IncrementalDocument::save_internal", len(raw) == len(byp), "%d use(s) of the wrapped sink, each the accounted write_all" % len(raw), b.where(raw[-1][2] if raw else None),
           what="IncrementalDocument::save_internal reaches the wrapped sink %d time(s) but only %d of them are write_all calls paired with an update of bytes_written: bytes written past the counter shift every offset of the appended section and startxref" % (len(raw), len(byp)))
    # `inner` is touched nowhere else
    for p, bb in F.bodies.items():
        acc = [x for x in lib.field_accesses(bb, "CountingWrite", "inner")]
        if acc:
            fn = F.canon_of(bb)
            okw = fn in {"<CountingWrite as Write>::write", "<CountingWrite as Write>::write_all", "<CountingWrite as Write>::flush", "IncrementalDocument::save_internal"}
            ctx.ob("R-WHO", "inner-access|%s" % fn, okw, "%s may reach the wrapped sink" % fn, bb.where(acc[0][2]),
                   what="%s reaches the wrapped sink of CountingWrite directly, bypassing the byte counter" % fn)


def short(c):
    n = c.fn or c.name
    return n.rsplit("::", 2)[-2] + "::" + n.rsplit("::", 1)[-1] if "::" in n else n
