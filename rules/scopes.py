"""scopes.py — entry points (by canonical name) of the untrusted-input / query / save scopes. A missing entry point is an anchor loss."""
from mir import AnchorLost

C04_ENTRIES = [
    "Reader::read", "Document::load", "Document::load_from", "Document::load_mem", "Document::load_filtered",
    "Document::load_internal", "IncrementalDocument::load", "IncrementalDocument::load_from", "IncrementalDocument::load_mem",
    "IncrementalDocument::load_internal", "<&[u8] as TryInto>::try_into",
    "Content::decode", "Stream::decompressed_content", "Stream::get_plain_content", "Stream::decompress", "Stream::decode_content",
    "ObjectStream::new", "parser_aux::decode_xref_stream", "Dictionary::get_font_encoding", "Encoding::bytes_to_string",
    "Document::decode_text", "common_data_structures::decode_text_string", "filters::png::decode_frame",
    "Document::authenticate_password", "Document::decrypt", "ToUnicodeCMap::parse",
]

C13_ENTRIES = [
    "Document::get_object", "Document::dereference", "Document::get_dictionary", "Document::get_dict_in_dict", "Document::catalog",
    "Document::get_pages", "Document::page_iter", "Document::get_page_contents", "Document::get_page_content",
    "Document::get_and_decode_page_content", "Document::get_page_resources", "Document::get_page_fonts",
    "Document::get_page_annotations", "Document::get_page_images", "Document::get_object_page", "Document::extract_text",
    "Document::extract_text_chunks", "Document::get_outline", "Document::get_outlines", "Document::get_named_destinations",
    "Document::get_toc", "Dictionary::get_font_encoding", "Document::decode_text", "Document::get_encrypted",
    "Document::is_encrypted", "Document::get_crypt_filters", "Document::extract_stream",
]

C12_ENTRIES = ["Document::get_pages", "Document::page_iter", "<PageTreeIter as Iterator>::next", "<PageTreeIter as Iterator>::size_hint",
               "PageTreeIter::new", "PageTreeIter::kids"]

C19_ENTRIES = ["Document::save", "Document::save_to", "IncrementalDocument::save", "IncrementalDocument::save_to", "Content::encode"]


def resolve(F, names, optional=()):
    roots = []
    missing = []
    for n in names:
        bs = F.fns(n)
        if not bs:
            if n in optional:
                continue
            missing.append(n)
        roots += [b.path for b in bs]
    if missing:
        raise AnchorLost("entry point(s) not found: %s" % ", ".join(missing))
    return roots


def fmt_impls(F):
    """hand-written Debug / Display impls of crate types: they run whenever a value is formatted (error messages, log lines),
    through a function pointer the call graph does not show, so they are added to every safety scope."""
    out = []
    for p, b in F.bodies.items():
        if b.kind == "AssocFn" and b.impl_of and b.impl_of.rsplit("::", 1)[-1] in ("Debug", "Display") and p.rsplit("::", 1)[-1] == "fmt":
            out.append(p)
    return out


def scope(F, names, optional=(), with_fmt=False):
    roots = resolve(F, names, optional)
    if with_fmt:
        roots = roots + fmt_impls(F)
    return F.reach(roots)
