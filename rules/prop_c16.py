"""C16 — text strings and one-byte encodings round-trip text (DESIGN §4 C16): exhaustive sweeps of the encoding tables."""
import re
import lib
from mir import op_place, op_const, const_int, AnchorLost

LEVEL = dict(
    level="exploration",
    rule_text="every cell of the seven predefined CodedCharacterSet constants (7 x 256, evaluated from the compiled constants) is checked: "
              "no surrogate values; printable-ASCII and Latin-1 portions equal the published WinAnsi / MacRoman / PDFDoc / Standard "
              "tables (reference: Python's independent cp1252 / mac_roman / latin_1 codecs plus the ISO 32000-1 Annex D deviations "
              "listed in the rule); the ASCII shortcut of text_string only admits bytes the PDFDoc table maps to themselves; "
              "BOM / byte-order agreement between encoder and decoder; the re-encoder has no path around the table. "
              "non-trivial = cells that are defined (Some); the bytes admitted to the one-byte form of text_string are the intersection of all dominating tests and must be ASCII identity cells; an integer search domain over the table covers all 256 cells",
    explanation="",
    trusted_base=["rustc constant evaluation of the tables", "Python's cp1252 / mac_roman / latin_1 codecs as an independent reference", "ISO 32000-1 Annex D.2 deviations listed in prop_c16.py"],
    exhaustive=True,
)

TABLES = ["STANDARD_ENCODING", "MAC_ROMAN_ENCODING", "MAC_EXPERT_ENCODING", "WIN_ANSI_ENCODING", "PDF_DOC_ENCODING", "EXPERT_ENCODING", "SYMBOL_ENCODING"]

PDFDOC_SPECIAL = {0x18: 0x02D8, 0x19: 0x02C7, 0x1A: 0x02C6, 0x1B: 0x02D9, 0x1C: 0x02DD, 0x1D: 0x02DB, 0x1E: 0x02DA, 0x1F: 0x02DC,
                  0x80: 0x2022, 0x81: 0x2020, 0x82: 0x2021, 0x83: 0x2026, 0x84: 0x2014, 0x85: 0x2013, 0x86: 0x0192, 0x87: 0x2044, 0x88: 0x2039,
                  0x89: 0x203A, 0x8A: 0x2212, 0x8B: 0x2030, 0x8C: 0x201E, 0x8D: 0x201C, 0x8E: 0x201D, 0x8F: 0x2018, 0x90: 0x2019, 0x91: 0x201A,
                  0x92: 0x2122, 0x93: 0xFB01, 0x94: 0xFB02, 0x95: 0x0141, 0x96: 0x0152, 0x97: 0x0160, 0x98: 0x0178, 0x99: 0x017D, 0x9A: 0x0131,
                  0x9B: 0x0142, 0x9C: 0x0153, 0x9D: 0x0161, 0x9E: 0x017E, 0x9F: None, 0xA0: 0x20AC, 0xAD: None}
WINANSI_DEV = {0x7F: 0x2022, 0x81: 0x2022, 0x8D: 0x2022, 0x8F: 0x2022, 0x90: 0x2022, 0x9D: 0x2022, 0xA0: 0x0020, 0xAD: 0x002D}
MACROMAN_DEV = {0xBD: 0x2126, 0xCA: 0x0020, 0xDB: 0x00A4}
STANDARD_DEV = {0x27: 0x2019, 0x60: 0x2018}


def table(F, name):
    c = F.consts.get("encodings::mappings::" + name)
    if c is None or "raw" not in c or c["size"] != 1024:
        raise AnchorLost("encoding table %s not found as a [Option<u16>; 256] constant" % name)
    raw = bytes.fromhex(c["raw"])
    out = []
    for i in range(256):
        cell = raw[4 * i:4 * i + 4]
        tag = int.from_bytes(cell[0:2], "little")
        val = int.from_bytes(cell[2:4], "little")
        if tag not in (0, 1):
            raise AnchorLost("unexpected Option<u16> layout in %s" % name)
        out.append(val if tag == 1 else None)
    return out


def ref_codec(codec, lo, hi, dev):
    out = {}
    for b in range(lo, hi + 1):
        if b in dev:
            out[b] = dev[b]
            continue
        try:
            out[b] = ord(bytes([b]).decode(codec))
        except Exception:
            out[b] = None
    return out


def pdfdoc_table(ctx, F, R="R-TABLE"):
    """PDFDocEncoding as published (ISO 32000-1 Annex D.2): also what passwords of revisions 2-4 are converted with."""
    t = table(F, "PDF_DOC_ENCODING")
    ref = {**ref_codec("latin_1", 0x20, 0x7E, {}), **ref_codec("latin_1", 0xA1, 0xFF, PDFDOC_SPECIAL), **PDFDOC_SPECIAL}
    diff = [(b, t[b], ref[b]) for b in sorted(ref) if t[b] != ref[b]]
    ctx.ob(R, "published-table|PDF_DOC_ENCODING", not diff, "%d cells of PDF_DOC_ENCODING equal the published table" % len(ref), "src/encodings/mappings.rs",
           what="PDF_DOC_ENCODING differs from the published table at %s: a password (revisions 2-4) or text string containing such a character is converted to another byte than every other producer uses"
                % [("%02X" % b, got and "%04X" % got, want and "%04X" % want) for b, got, want in diff[:8]])


def run(ctx):
    F = ctx.facts("default")
    R = "R-TABLE"
    tabs = {n: table(F, n) for n in TABLES}
    cells = 0
    defined = 0
    # 1. no surrogates anywhere
    for n, t in tabs.items():
        bad = [b for b in range(256) if t[b] is not None and 0xD800 <= t[b] <= 0xDFFF]
        cells += 256
        defined += sum(1 for x in t if x is not None)
        ctx.ob(R, "no-surrogates|%s" % n, not bad, "no cell of %s is a surrogate (decoding with String::from_utf16 cannot fail)" % n, "src/encodings/mappings.rs",
               what="%s maps byte(s) %s to lone surrogates: bytes_to_string's from_utf16(..).expect(..) panics on them" % (n, ["%02X" % b for b in bad]))
    # 2. published tables
    refs = {
        "WIN_ANSI_ENCODING": ref_codec("cp1252", 0x20, 0xFF, WINANSI_DEV),
        "MAC_ROMAN_ENCODING": ref_codec("mac_roman", 0x20, 0xFF, {**MACROMAN_DEV, 0x7F: None}),
        "PDF_DOC_ENCODING": {**ref_codec("latin_1", 0x20, 0x7E, {}), **ref_codec("latin_1", 0xA1, 0xFF, PDFDOC_SPECIAL), **PDFDOC_SPECIAL},
        "STANDARD_ENCODING": ref_codec("ascii", 0x20, 0x7E, STANDARD_DEV),
    }
    for n, ref in refs.items():
        t = tabs[n]
        diff = [(b, t[b], ref[b]) for b in sorted(ref) if t[b] != ref[b]]
        ctx.ob(R, "published-table|%s" % n, not diff, "%d cells of %s equal the published table" % (len(ref), n), "src/encodings/mappings.rs",
               what="%s differs from the published table at %s" % (n, [("%02X" % b, got and "%04X" % got, want and "%04X" % want) for b, got, want in diff[:8]]))
        ctx.sample({"table": n, "cells compared": len(ref), "sample": {("%02X" % b): (ref[b] and "%04X" % ref[b]) for b in list(sorted(ref))[:4]}})
    # 3. the decoders / encoders go through the table
    b2s = F.fn("encodings::bytes_to_string")
    cl = lib.local_scope(F, b2s)
    idx_ok = any(any(t["k"] == "assert" and t["ak"] == "bounds" for t in (c.term(i) for i in range(c.n))) for c in cl)
    ctx.ob(R, "decode-through-table", idx_ok and len(lib.calls_named(b2s, r"String::from_utf16$")) == 1, "bytes_to_string indexes the table by the byte and assembles UTF-16", b2s.where(),
           what="bytes_to_string no longer decodes each byte through the table")
    s2b = F.fn("encodings::string_to_bytes")
    scl = lib.local_scope(F, s2b)
    pos = [c for b in scl for c in b.calls if (c.fn or "").endswith("Iterator::position")]
    casts = []
    for b in scl:
        for bi, si, s in b.stmts():
            rv = s.get("rv")
            if rv and rv["k"] == "cast" and rv["kind"].startswith("IntToInt") and rv["ty"] in ("u8", "usize", "u32", "i32", "u64", "char"):
                src = b.oname(rv["o"], 3)
                srcty = None
                p = op_place(rv["o"])
                if p is not None and not p["p"]:
                    srcty = b.lty(p["l"])
                if srcty == "u16":
                    casts.append((F.canon_of(b), src))
    branches = [b for b in scl if any(b.term(i)["k"] == "switch" and b.term(i)["dty"] == "bool" and not re.search(r"eq\(|Eq\(", b.oname(b.term(i)["d"], 3)) for i in range(b.n))]
    # the closure feeding filter_map must return exactly what `position` found in the table
    only_pos = True
    for b in scl:
        if b.kind == "Closure" and b.lty(0).startswith("std::option::Option<usize>"):
            for d in b.defs.get(0, []):
                if not (d[2] == "call" and (d[3]["f"].get("fn") or "").endswith("Iterator::position")):
                    only_pos = False
                    casts.append((F.canon_of(b), "returns %s" % (b.rvname(d[3], 3) if d[2] == "rv" else "a projection")))
    # an integer range used as the search domain must cover all 256 cells of the table
    short_ranges = []
    for b in scl:
        for bi, si, st in b.stmts():
            rv = st.get("rv")
            if rv and rv["k"] == "agg" and rv["kind"].get("a") == "adt" and rv["kind"]["adt"].rsplit("::", 1)[-1] in ("Range", "RangeInclusive") and len(rv["ops"]) >= 2:
                lo, hi = (op_const(rv["ops"][0]), op_const(rv["ops"][1]))
                if lo is not None and hi is not None and const_int(lo) is not None and const_int(hi) is not None and (lo.get("ty") in ("u8", "u16", "usize", "u32")):
                    n = const_int(hi) - const_int(lo) + (1 if rv["kind"]["adt"].endswith("RangeInclusive") else 0)
                    if const_int(lo) != 0 or n != 256:
                        short_ranges.append("%s..%s%s" % (const_int(lo), "=" if rv["kind"]["adt"].endswith("RangeInclusive") else "", const_int(hi)))
    if short_ranges:
        casts.append(("search domain", "range %s does not cover the 256 table cells" % short_ranges))
    # the table is consulted: Iterator::position over it, or a comparison of its Option<u16> cells with the unit
    cmp16 = [c for b in scl for c in b.calls if re.search(r"cmp::PartialEq(<.*>)?>?::(eq|ne)$", c.fn or "") and "Option<u16>" in (c.full or "")]
    # ... on every path: what string_to_bytes returns is always what the lookup produced (no second way out that hands back the
    # text's own bytes when "it is all ASCII anyway")
    rdefs = [d for d in s2b.defs.get(0, []) if d[2] != "proj"]
    outs = []
    for d in rdefs:
        if d[2] == "call":
            outs.append("%s(%s)" % ((d[3]["f"].get("fn") or "").rsplit("::", 1)[-1], ",".join(s2b.sname(a, 10) for a in d[3]["args"])))
        else:
            outs.append(s2b.rvname(d[3], 8))
    raw_out = [t for t in outs if "encode_utf16(" not in t and "position" not in t]
    if len(rdefs) == 1:
        raw_out = []          # one way out: whether it goes through the table is what the rule below decides
    ctx.ob(R, "encode-through-table-on-every-path", bool(rdefs) and not raw_out, "every value string_to_bytes returns comes from the table lookup (%d return value(s))" % len(rdefs), s2b.where(),
           what="string_to_bytes has a way out that returns %s instead of the positions found in the table: text that is handed back as its own bytes is wrong for every encoding whose printable-ASCII range is not the identity (StandardEncoding: 27 and 60)" % [t[:60] for t in raw_out])
    ctx.ob(R, "encode-through-table", (len(pos) == 1 or bool(cmp16)) and not casts and only_pos, "string_to_bytes emits only positions found in the table (no u16 -> u8 shortcut)", s2b.where(),
           what="string_to_bytes has a path that turns a UTF-16 unit into a byte without looking it up in the table (%s): wrong for encodings whose ASCII range is not the identity (StandardEncoding 27/60)" % casts)
    # first-index re-encoding decodes to the same value (guards duplicated cells with different meaning)
    for n, t in tabs.items():
        bad = []
        for b in range(256):
            if t[b] is None:
                continue
            first = t.index(t[b])
            if t[first] != t[b]:
                bad.append(b)
        ctx.ob(R, "reencode-first-index|%s" % n, not bad, "re-encoding any decoded value of %s yields a byte that decodes to the same value" % n, "src/encodings/mappings.rs", what="%s: inconsistent duplicate cells" % n, nontrivial=False)
    # 4. ASCII shortcut of text_string
    ts = F.fn("common_data_structures::text_string")
    # Which bytes of the UTF-8 text can end up in the one-byte (PDFDocEncoding) form?  Start from all 256 and intersect
    # with every test that dominates the literal return: `is_ascii()` restricts to 00-7F; a table-driven test over the bytes
    # (a closure comparing PDF_DOC_ENCODING[b] with the byte) restricts to the bytes the table maps to themselves.
    # A byte >= 0x80 in the admitted set is always wrong: it is part of a multi-byte UTF-8 sequence, not a character.
    short = [c for c in ts.calls if re.search(r"str::<impl str>::is_ascii$", c.fn or "")]
    lit_blocks = [bi for bi, si, st in ts.stmts() if st.get("rv") and st["rv"]["k"] == "agg" and st["rv"]["kind"].get("var") == "Literal"]
    admitted = None
    if lit_blocks:
        adm = set(range(256))
        constrained = False
        for g, s2 in lib.taken_edges(ts, lit_blocks[0]):
            t = ts.term(g)
            if t["dty"] != "bool" or t["else"] != s2:
                continue          # only conditions that must be TRUE to reach the literal form
            for c in short:
                if lib.switch_on(ts, g, c.dest["l"]):
                    adm &= set(range(0x80))
                    constrained = True
            for c in ts.calls:
                if re.search(r"Iterator::all$", c.fn or "") and lib.switch_on(ts, g, c.dest["l"]):
                    cl = [b2 for b2 in F.closures_of(ts.path) if b2.path in (c.full or "") or b2.path in ts.oname(c.args[1], 3)]
                    if cl and any("PDF_DOC_ENCODING" in b2.rvname(st["rv"], 4) for b2 in cl for _bi, _si, st in b2.stmts() if st.get("rv")):
                        adm &= set(x for x in range(256) if tabs["PDF_DOC_ENCODING"][x] == x)
                        constrained = True
        if constrained:
            admitted = sorted(adm)
    if admitted is None:
        raise AnchorLost("cannot read the condition under which text_string uses the PDFDocEncoding form")
    bad = [x for x in admitted if x >= 0x80 or tabs["PDF_DOC_ENCODING"][x] != x]
    ctx.ob(R, "ascii-shortcut-is-identity", not bad, "every byte the one-byte form admits is mapped to itself by PDF_DOC_ENCODING", ts.where(),
           what="text_string writes ASCII input as a PDFDocEncoding literal, but PDF_DOC_ENCODING does not map %d of the admitted bytes to themselves (%s): decode_text_string(text_string(\"a\\nb\\tc\")) == \"abc\""
                % (len(bad), ",".join("%02X" % x for x in bad[:6]) + ("..." if len(bad) > 6 else "")))
    # 5. BOM / byte order agreement
    enc = F.fn("encodings::encode_utf16_be")
    ecl = lib.local_scope(F, enc)
    be = [c for b in ecl for c in b.calls if re.search(r"num::<impl u16>::to_be_bytes$", c.fn or "")]
    le = [c for b in ecl for c in b.calls if re.search(r"to_le_bytes$|to_ne_bytes$", c.fn or "")]
    # the mark: a u16 of value FEFF, written as a literal or folded from a constant (`u16::from_be_bytes(BOM)`)
    import symeval
    ev = symeval.Eval(F, enc, lambda b, k, x: None)
    bom = [l for l in range(len(enc.locals)) if enc.lty(l) == "u16" and len(enc.defs.get(l, [])) == 1 and ev.val({"c": {"l": l, "p": []}}) == 0xFEFF]
    # ... or the one-element array of it promoted to constant data (`[BOM].iter()` with BOM a named constant): the u16 FEFF in memory
    for _bi, _si, st in enc.stmts():
        k_ = op_const(st["rv"]["o"]) if st.get("rv") and st["rv"]["k"] == "use" else None
        if k_ and re.match(r"^&?\[u16; 1\]$", k_.get("ty", "")) and (k_.get("refraw") or k_.get("raw")) == "fffe":
            bom.append(st["lhs"]["l"])
    u16s = [c for c in enc.calls if re.search(r"str::<impl str>::encode_utf16$", c.fn or "")]
    ctx.ob(R, "encoder-utf16be", len(be) >= 2 and not le and bom and len(u16s) == 1, "encode_utf16_be writes FEFF and every UTF-16 unit big-endian", enc.where(),
           what="encode_utf16_be does not write the FE FF mark followed by big-endian UTF-16 units (surrogate pairs via encode_utf16)")
    dec = F.fn("common_data_structures::decode_text_string")
    dcl = lib.local_scope(F, dec)
    sw = [lib._const_bytes_through(dec, c.args[1]) for c in dec.calls if re.search(r"starts_with$", c.fn or "")]
    fb = [c for b in dcl for c in b.calls if re.search(r"num::<impl u16>::from_be_bytes$", c.fn or "")]
    fl = [c for b in dcl for c in b.calls if re.search(r"from_le_bytes$|from_ne_bytes$", c.fn or "")]
    ctx.ob(R, "decoder-bom-dispatch", sw == [b"\xfe\xff", b"\xef\xbb\xbf"] and bool(fb) and not fl, "decode_text_string tests FE FF then EF BB BF and assembles big-endian units", dec.where(),
           what="decode_text_string's mark tests / byte order no longer mirror the encoder (marks tested: %s)" % sw)
    sniff = [c for b in dcl for c in b.calls if re.search(r"encoding_rs::Encoding::decode$|decode_with_bom_removal$", c.fn or "")]
    evd = symeval.Eval(F, dec, lambda b, k, x: None)

    def from_two(c):
        d = dec.def_rv(c.args[1])
        if d and d[2] == "rv" and d[3]["k"] == "agg" and d[3]["kind"].get("adt", "").endswith("RangeFrom") and len(d[3]["ops"]) == 1:
            return evd.val(d[3]["ops"][0]) == 2
        return dec.oname(c.args[1], 3) == "RangeFrom::RangeFrom{2}"
    strip = [c for c in dec.calls if (c.fn or "").endswith("ops::Index::index") and from_two(c)]
    ctx.ob(R, "decoder-no-second-bom-sniff", not sniff and len(strip) == 1, "after the mark is cut off the remainder is decoded as plain UTF-16BE (no BOM sniffing)", dec.where(),
           what="decode_text_string decodes the bytes after the mark with a BOM-sniffing decoder (%s): a text whose first character is U+FEFF/U+FFFE changes" % [c.fn for c in sniff])
    # what the decoder decoded is what it returns: nothing is cut out of the text afterwards (the mark is cut off the *bytes*)
    surgery = [(F.canon_of(b_), c.ln, (c.fn or "").rsplit("::", 1)[-1]) for b_ in dcl for c in b_.calls
               if re.search(r"str::<impl str>::(strip_prefix|strip_suffix|trim\w*|split\w*|rsplit\w*|replace\w*|get|get_unchecked)$|string::String::(drain|remove|truncate|pop|retain|replace_range|split_off)$", c.fn or "")]
    ctx.ob(R, "decoder-returns-text-unchanged", not surgery, "decode_text_string applies no cutting or replacing to the decoded text", dec.where(),
           what="decode_text_string cuts or replaces parts of the decoded text (%s): a string whose content looks like what is cut (an escape sequence, leading or trailing characters) does not come back as it was encoded" % [("%s line %d: %s" % t_) for t_ in surgery[:3]])
    e8 = F.fn("encodings::encode_utf8")
    vc = [c for c in e8.calls if (c.fn or "").endswith("box_assume_init_into_vec_unsafe")]
    lits = lib.vec_literal(e8, {"c": vc[0].dest}) if vc else None
    vals = [const_int(op_const(o)) for o in lits] if lits else None
    if vals is None:
        # `MARK.to_vec()` / `Vec::from(MARK)` of a constant
        for c in e8.calls:
            if (c.fn or "").rsplit("::", 1)[-1] in ("to_vec", "from", "into_vec", "to_owned") and c.args:
                kb = lib._const_bytes_through(e8, c.args[0])
                if kb is not None and vals is None:
                    vals = list(kb)
    if not vals:
        # an empty vector whose first write is the mark: the first token of the output stream
        tk8 = lib.out_tokens(e8)
        if tk8 and tk8[0][0] == "lit":
            vals = list(tk8[0][1])
    ctx.ob(R, "encoder-utf8-mark", vals == [0xEF, 0xBB, 0xBF], "encode_utf8 starts with EF BB BF", e8.where(), what="encode_utf8 no longer starts with the UTF-8 mark EF BB BF")
    # get_font_encoding reaches exactly the predefined tables by name
    gfe = F.fn("Dictionary::get_font_encoding")
    disp = {}
    by_raw = {F.consts["encodings::mappings::" + n]["raw"]: n for n in TABLES}
    for bi, si, st in gfe.stmts():
        rv = st.get("rv")
        if rv and rv["k"] == "agg" and rv["kind"].get("var") == "OneByteEncoding":
            o = lib.trace_operand(gfe, rv["ops"][0])
            k = op_const(o)
            if k is None:
                p = op_place(o)
                d = gfe.single_def(p["l"]) if p is not None else None
                if d and d[2] == "rv" and d[3]["k"] == "use":
                    k = op_const(d[3]["o"])
            tname = by_raw.get((k or {}).get("refraw"), "?")
            for key, v in lib.slice_matches(gfe, bi).items():
                if key.startswith("match:"):
                    disp[v] = tname
    # ... or by a lookup in a table of (name, table) pairs kept in data
    for lk in lib.table_lookups(F, gfe):
        for bi, si, st in gfe.stmts():
            rv = st.get("rv")
            if rv and rv["k"] == "agg" and rv["kind"].get("var") == "OneByteEncoding":
                j = lib.lookup_field(gfe, rv["ops"][0], lk)
                if j is None:
                    continue
                for row in lk["rows"]:
                    kc, vc_ = row[lk["key_field"]], row[j]
                    if kc[0] == "bytes":
                        disp[kc[1]] = by_raw.get(vc_[1].hex(), "?") if vc_[0] == "raw" else "?"
    want = {b"StandardEncoding": "STANDARD_ENCODING", b"MacRomanEncoding": "MAC_ROMAN_ENCODING", b"MacExpertEncoding": "MAC_EXPERT_ENCODING",
            b"WinAnsiEncoding": "WIN_ANSI_ENCODING", b"PDFDocEncoding": "PDF_DOC_ENCODING"}
    ctx.ob(R, "font-encoding-names", disp == want, "get_font_encoding dispatches %s" % {k.decode(): v for k, v in disp.items()}, gfe.where(),
           what="get_font_encoding maps a predefined encoding name to the wrong table (or lost one): %s" % {k.decode(): v for k, v in disp.items()})
    # the ToUnicode entry of a font is (always) an indirect reference to a stream: every place that reads it resolves it
    tu_raw = [c for x in lib.local_scope(F, gfe) for c in x.calls if c.local and re.search(r"Dictionary::get$", c.cname) and any(lib._const_bytes_through(x, a) == b"ToUnicode" for a in c.args[1:])]
    tu_der = [c for x in lib.local_scope(F, gfe) for c in x.calls if c.local and re.search(r"Dictionary::get_deref$", c.cname) and any(lib._const_bytes_through(x, a) == b"ToUnicode" for a in c.args[1:])]
    ctx.ob(R, "tounicode-behind-a-reference", len(tu_der) >= 1 and not tu_raw, "ToUnicode is fetched with get_deref (%d place(s))" % len(tu_der), gfe.where(tu_raw[0].ln if tu_raw else None),
           what="get_font_encoding reads /ToUnicode without resolving the reference it is held by: the CMap is skipped and the text is decoded with a default one-byte encoding")
    # nothing stands between `text.encode_utf16()` and the bytes written: no adaptor that can drop or reorder units
    dropping = [(c.fn or "").rsplit("::", 1)[-1] for x in lib.local_scope(F, enc) for c in x.calls
                if re.search(r"iter::Iterator::(skip|skip_while|take|take_while|filter|filter_map|step_by|rev|dedup|scan|map_while|peekable)$", c.fn or "")]
    ctx.ob(R, "encoder-utf16be-writes-every-unit", not dropping, "every unit of encode_utf16() is written", enc.where(),
           what="encode_utf16_be passes the UTF-16 units through %s before writing them: units of the text can be dropped (a leading U+FEFF, for instance), so decode(encode(text)) != text" % sorted(set(dropping)))
    ctx.extra.update({"tables": len(tabs), "cells": cells, "cells_defined": defined})
    LEVEL["explanation"] = "exhaustive over 7 tables x 256 cells"
