"""term.py — R-TERM: recursion SCCs and natural loops of a scope must carry a termination witness."""
import re
from mir import op_place, op_const, const_int, AnchorLost
from collections import defaultdict
import lib
import guard

INFINITE_ITER = re.compile(r"RangeFrom<|iter::Repeat<|iter::Cycle<|iter::RepeatWith<|iter::Successors<|iter::FromFn<|iter::sources::|io::Lines|io::Bytes|mpsc::")


def finite_part(ity):
    """the iterator type with everything below a `Take<..>` adaptor removed: take(n) of anything yields at most n items."""
    out, i = "", 0
    while True:
        m = re.search(r"iter::Take<", ity[i:])
        if not m:
            return out + ity[i:]
        out += ity[i:i + m.start()] + "iter::Take<..>"
        j = i + m.end()
        depth = 1
        while j < len(ity) and depth:
            depth += {"<": 1, ">": -1}.get(ity[j], 0)
            j += 1
        i = j


def loop_witness(F, b, head, blocks):
    """classify one natural loop: returns (kind, detail).
    kind 'iter'  : leaves when `Iterator::next` of a finite foreign iterator returns None
         'local-iter': driven by a crate-local Iterator impl (its own termination is a separate obligation)
         'other' : needs a tabled argument."""
    exits = []
    for x in blocks:
        for s in b.succ[x]:
            if s not in blocks:
                exits.append((x, s))
    nexts = []
    for c in b.calls:
        if c.bb in blocks and (c.fn or "").endswith("Iterator::next") and c.to in blocks:
            nexts.append(c)
    for c in nexts:
        # the loop must leave on the result of this next() (its discriminant, or is_none()/is_some() of it),
        # and every cycle must call it
        d = c.dest
        if d["p"]:
            continue
        if not every_cycle_passes(b, head, blocks, [c.bb]):
            continue
        for (x, s) in exits:
            t = b.term(x)
            if t["k"] != "switch":
                continue
            if d["l"] in cond_locals(b, t["d"]):
                m = re.match(r"^<(.*) as std::iter::Iterator>::next$", c.full or "")
                ity = m.group(1) if m else (c.full or "")
                if INFINITE_ITER.search(finite_part(ity)):
                    return ("other", "iterator type %s is not finite" % ity)
                if re.match(r"^std::ops::Range(Inclusive)?<", ity):
                    okb, why = range_bound_ok(b, c)
                    if not okb:
                        return ("other", "range bound %s is not a constant or bounded by a buffer length" % why)
                # crate-local iterator types
                for imp in F.impls:
                    if imp["trait"].endswith("Iterator") and imp["self_ty"] and strip_generics(imp["self_ty"]) in ity:
                        return ("local-iter", ity)
                return ("iter", ity)
    # `while let Some(x) = stack.pop()` and friends are not recognised here
    return ("other", "no Iterator::next exit")


def cond_locals(b, o, depth=4):
    """locals whose value feeds the condition operand (through copies, refs, discriminants and is_none/is_some)."""
    out = set()
    work = [(o, depth)]
    while work:
        o, d = work.pop()
        p = op_place(o)
        if p is None:
            continue
        out.add(p["l"])
        if d <= 0 or p["l"] in b.names:
            continue
        df = b.single_def(p["l"])
        if df is None:
            continue
        if df[2] == "rv":
            rv = df[3]
            if rv["k"] in ("use", "cast", "un"):
                work.append((rv["o"], d - 1))
            elif rv["k"] in ("ref", "discr"):
                work.append(({"c": rv["p"]}, d - 1))
            elif rv["k"] == "bin":
                work.append((rv["a"], d - 1))
                work.append((rv["b"], d - 1))
        else:
            nm = df[3]["f"].get("fn") or ""
            if nm.rsplit("::", 1)[-1] in ("is_none", "is_some", "is_ok", "is_err", "deref", "as_ref"):
                for a in df[3]["args"]:
                    work.append((a, d - 1))
    return out


def strip_generics(t):
    out, d = [], 0
    for ch in t:
        if ch == "<":
            d += 1
        elif ch == ">":
            d -= 1
        elif d == 0:
            out.append(ch)
    return "".join(out).strip("&").replace("mut ", "")


def loops_of_scope(F, scope):
    out = []
    for p in sorted(scope):
        b = F.bodies[p]
        for head, blocks in sorted(b.loops().items()):
            if all(b.term(x)["k"] == "assert" and b.term(x).get("ak") == "resumed" for x in blocks):
                continue      # `assert(false, "async fn resumed after completion") -> self`: a panic stub of the coroutine lowering, not a loop
            kind, detail = loop_witness(F, b, head, blocks)
            out.append((b, head, blocks, kind, detail))
    return out


def loop_signature(F, b, head, blocks):
    """stable signature of a non-iterator loop: the calls made inside it (short names, sorted, de-duplicated) and
    the comparison that leaves it."""
    names = set()
    for c in b.calls:
        if c.bb in blocks:
            n = (c.fn or c.name)
            n = n.rsplit("::", 1)[-1]
            if n in ("branch", "from_residual", "deref", "deref_mut", "into_iter", "from", "into", "clone", "as_ref", "borrow"):
                continue
            names.add(n)
    conds = set()
    for x in sorted(blocks):
        t = b.term(x)
        if t["k"] == "switch" and any(s not in blocks for s in b.succ[x]):
            with b.alpha():
                conds.add(b.oname(t["d"], 2))
    return "exit[%s] calls[%s]" % ("; ".join(sorted(conds)), ",".join(sorted(names)))


# ---------------------------------------------------------------------------- verified witnesses

def not_a_reference_edges(b, within=None):
    """blocks entered on the `Err` outcome of `Object::as_reference(..)` (also `x.and_then(Object::as_reference)`): on such an
    edge the value at hand is a direct object, i.e. a part of the object that holds it — following it is a structural
    descent into a finite in-memory value, which cannot go on for ever."""
    out = set()
    for bi in range(b.n):
        if within is not None and bi not in within:
            continue
        t = b.term(bi)
        if t["k"] != "switch" or t["dty"] != "isize":
            continue
        d = b.def_rv(t["d"])
        if not (d and d[2] == "rv" and d[3]["k"] == "discr"):
            continue
        q = d[3]["p"]
        if [e for e in q["p"] if e != "*"]:
            continue
        dd = b.single_def(q["l"])
        if not (dd and dd[2] == "call"):
            continue
        fn = dd[3]["f"].get("fn") or ""
        isref = fn.endswith("Object::as_reference")
        if not isref and fn.rsplit("::", 1)[-1] == "and_then" and len(dd[3]["args"]) == 2:
            k = op_const(dd[3]["args"][1])
            isref = k is not None and "as_reference" in ((k.get("fn") or "") + (k.get("res") or ""))
        if not isref:
            continue
        # only a block that can be entered on that edge alone stands for the edge (an arm shared with the `Ok` outcome does not)
        for v, x in t["tg"]:
            if v == "1" and len(b.pred[x]) == 1:
                out.add(x)
        if not any(v == "1" for v, x in t["tg"]) and any(v == "0" for v, x in t["tg"]) and len(b.pred[t["else"]]) == 1:
            out.add(t["else"])
    return out


def check_visited_set(F, b, scc_members, ctx_desc=""):
    """HashSet guard: an `insert` dominates every call into the SCC and a `contains` on the same set dominates the insert."""
    inserts = [c for c in b.calls if re.search(r"(HashSet|BTreeSet)::<.*>::insert$", c.fn or c.name)]
    contains = [c for c in b.calls if re.search(r"(HashSet|BTreeSet)::<.*>::contains$", c.fn or c.name)]
    rec = [c for c in b.calls if c.local and c.name in scc_members]
    # calls through closures defined in this body count as well
    if not rec:
        return False, "no call into the recursion cycle found in %s" % b.path
    if not inserts or not contains:
        return False, "no HashSet insert/contains pair in %s" % b.path
    structural = not_a_reference_edges(b)
    ibs = {i.bb for i in inserts}
    for r in rec:
        if not any(b.dominates(i.bb, r.bb) and i.bb != r.bb for i in inserts):
            # every way to the call passes an insert, or the edge on which the value handed on is not a reference
            if not structural or b.can_reach(0, r.bb, avoid=ibs | structural) or r.bb == 0:
                return False, "recursive call at line %d is not dominated by a visited-set insert" % r.ln
    for i in inserts:
        if not any(b.dominates(c.bb, i.bb) for c in contains):
            return False, "visited-set insert at line %d is not preceded by a contains test" % i.ln
    # the contains test must be able to leave without recursing: its true edge reaches a return avoiding the recursive calls
    ok = False
    for c in contains:
        sw = b.term(c.to) if c.to is not None else None
        if sw and sw["k"] == "switch":
            tb = sw["else"]
            reach = b.reach_set(c.to, avoid=[r.bb for r in rec]) | {tb}
            if any(b.term(x)["k"] == "return" for x in reach):
                ok = True
    if not ok:
        return False, "the contains test does not cut the recursion off"
    # the set is also the bound on the work: it only grows (an id taken out again can be walked once per path that leads to it)
    for pth in sorted(scc_members):
        mb = F.bodies.get(pth)
        for c in (mb.calls if mb is not None else []):
            if re.search(r"(HashSet|BTreeSet)::<.*>::(remove|take|clear|retain|drain|pop_first|pop_last|split_off|append)$", c.fn or c.name):
                return False, "the visited set shrinks again (%s at line %d in %s): it bounds the depth of the walk but no longer its size" % ((c.fn or c.name).rsplit("::", 1)[-1], c.ln, F.canon_of(mb))
    return True, "insert dominates %d recursive call(s); contains precedes insert; the set only grows" % len(rec)


def check_counter(F, b, callee_suffix, param_name, also=()):
    """every call to `callee_suffix` (in b, or — when the code was reshaped — in any other member of the cycle) passes
    `param - k` (k >= 1) in one of its arguments and is dominated by `param == 0` being false."""
    hits = 0
    for bb_ in [b] + [x for x in also if x is not b]:
      env = guard.Env(bb_)
      for c in bb_.calls:
        if not (c.local and (c.cname.endswith(callee_suffix))):
            continue
        hits += 1
        pos = (c.bb, 10**6)
        why = None
        for a_ in c.args:
            arg = env.op_term(a_, pos, 12)
            # captured or direct parameter
            pn = param_name
            for nm, pl in bb_.upvars:
                if nm == param_name:
                    pn = env.place_term(pl, pos).base
            if arg.base is None or (pn not in arg.base and param_name not in arg.base) or arg.off >= 0:
                why = why or "argument of %s is %r, not %s - k" % (callee_suffix, arg, param_name)
                continue
            base = guard.Term(arg.base, 0, arg.reads, arg.ty)
            S, used, ok = guard.knowledge(env, c.bb, 10**6, [arg, base])
            if not (ok(base) and S.lower(base) >= 1):
                why = "call at line %d is not dominated by %s != 0" % (c.ln, param_name)
                continue
            why = None
            break
        if why is not None:
            return False, why
    if hits == 0:
        return False, "no call to %s" % callee_suffix
    return True, "%d call(s) pass %s - k under %s >= 1" % (hits, param_name, param_name)


def check_counter_sites(F, comp, spec):
    """A recursion cycle bounded by a budget parameter (`depth`): every member takes it, the listed call sites hand on
    `depth - k` (k >= 1) where `depth >= 1` is known, every other call inside the cycle hands on its own budget unchanged,
    the cycle is broken once the listed sites are removed, and every call from outside starts with a constant of at most
    `max_start`."""
    param = spec["param"]
    comp = set(comp)

    def budget_index(cb):
        if cb.kind == "Closure":
            return None
        for i in range(1, cb.argc + 1):
            if cb.lname(i) == param:
                return i - 1
        return None
    members = {pth: F.bodies[pth] for pth in comp}
    idx = {}
    for pth, cb in members.items():
        if cb.kind == "Closure":
            continue
        j = budget_index(cb)
        if j is None:
            return False, "%s, a member of the cycle, has no parameter `%s`" % (F.canon_of(cb), param)
        idx[pth] = j
    site_keys = set()
    for st_ in spec["sites"]:
        site_keys.add((st_["in"], st_["callee"]))
    edges = defaultdict(set)
    nsites = 0
    for pth, cb in members.items():
        env = guard.Env(cb)
        fn = F.canon_of(cb)
        for c in cb.calls:
            if not (c.local and c.name in comp):
                continue
            tb = F.bodies[c.name]
            if tb.kind == "Closure":
                edges[pth].add(c.name)
                continue
            j = idx[c.name]
            pos = (c.bb, 10**6)
            arg = env.op_term(c.args[j], pos, 12)
            # the budget as this body sees it: its own parameter, or (in a closure) the captured variable of that name
            mine = {param} | {env.place_term(pl, pos).base for nm, pl in cb.upvars if nm == param}

            def own(base):
                return base is not None and any(m is not None and m in base for m in mine)
            is_site = any(fn == a and F.canon_of(tb).endswith(cal) for a, cal in site_keys)
            if is_site:
                nsites += 1
                if not own(arg.base) or arg.off > -1:
                    return False, "%s hands %r to %s, not %s - k" % (fn, arg, F.canon_of(tb), param)
                base = guard.Term(arg.base, 0, arg.reads, arg.ty)
                S, used, ok = guard.knowledge(env, c.bb, 10**6, [arg, base])
                if not (ok(base) and S.lower(base) >= 1):
                    return False, "the call to %s in %s (line %d) is not known to run under %s >= 1" % (F.canon_of(tb), fn, c.ln, param)
            else:
                if not own(arg.base) or arg.off > 0:
                    return False, "%s hands %r to %s: not its own `%s` (or less)" % (fn, arg, F.canon_of(tb), param)
                edges[pth].add(c.name)
        # closures created by a member run on the member's behalf
        for cl in F.closures_of(pth):
            if cl.path in comp:
                edges[pth].add(cl.path)
    if nsites < len(spec["sites"]):
        return False, "only %d of the %d decrementing call sites were found" % (nsites, len(spec["sites"]))
    # acyclic without the decrementing sites
    state = {}

    def cyc(v):
        state[v] = 1
        for w in edges.get(v, ()):
            if state.get(w) == 1 or (state.get(w) is None and cyc(w)):
                return True
        state[v] = 2
        return False
    for v in members:
        if state.get(v) is None and cyc(v):
            return False, "a cycle remains that passes none of the decrementing call sites"
    # outside callers start with a small constant
    starts = []
    for pth, cb in F.bodies.items():
        if pth in comp:
            continue
        for c in cb.calls:
            if c.local and c.name in comp and c.name in idx:
                k = op_const(c.args[idx[c.name]])
                v = const_int(k) if k is not None else None
                if v is None:
                    k2 = lib.trace_operand(cb, c.args[idx[c.name]]) if hasattr(lib, "trace_operand") else None
                    kk = op_const(k2) if k2 is not None else None
                    v = const_int(kk) if kk is not None else None
                if v is None and re.match(r"^\d+$", cb.oname(c.args[idx[c.name]], 3)):
                    v = int(cb.oname(c.args[idx[c.name]], 3))      # a named constant, possibly inside a wrapper type, renders as its value
                if v is None or v > spec.get("max_start", 1000):
                    return False, "%s enters the cycle at %s with a budget that is not a constant <= %d (%s)" % (F.canon_of(cb), F.canon_of(F.bodies[c.name]), spec.get("max_start", 1000), cb.oname(c.args[idx[c.name]], 3))
                starts.append(v)
    if not starts:
        return False, "no outside caller found"
    return True, "%d site(s) pass %s - k under %s >= 1; every other call in the cycle passes its own %s; %d outside callers start at <= %d" % (nsites, param, param, param, len(starts), max(starts))


def range_bound_ok(b, next_call):
    """`for i in lo..hi`: hi must be a constant or provably <= the length of an existing buffer."""
    env = guard.Env(b)
    it = env._deref_local(next_call.args[0])
    if it is None:
        return False, "?"
    d = b.single_def(it)
    for _ in range(4):
        if d is not None and d[2] == "rv" and d[3]["k"] == "use":
            ip = op_place(d[3]["o"])
            if ip is None or ip["p"]:
                break
            d = b.single_def(ip["l"])
        else:
            break
    if d is None or d[2] != "call":
        return False, "?"
    incl = "RangeInclusive" in (next_call.full or "")
    r = env._range_value(d[3]["args"][0], (d[0], 10**6), incl)
    if r is None:
        return False, "?"
    lo, hi = r
    if hi.base is None:
        return True, repr(hi)
    S, used, ok = guard.knowledge(env, d[0], 10**6, [hi, lo])
    if not ok(hi):
        return False, repr(hi)
    if S.upper(hi) <= (1 << 32):
        return True, repr(hi)
    for n in list(S.nodes):
        if n and re.match(r"^\(?len\(", n) and S.implies(hi, guard.Term(n, 0), 64):
            return True, repr(hi)
    if "len(" in (hi.base or ""):
        return True, repr(hi)
    return False, repr(hi)


# ---------------------------------------------------------------------------- loop witnesses that are re-verified

def every_cycle_passes(b, head, blocks, must):
    """in the loop `blocks` with header `head`, does every cycle through `head` contain a block of `must`?"""
    must = set(must)
    if head in must:
        return True
    seen = set()
    st = [s for s in b.succ[head] if s in blocks and s not in must]
    while st:
        x = st.pop()
        if x == head:
            return False
        if x in seen:
            continue
        seen.add(x)
        for s in b.succ[x]:
            if s in blocks and s not in must:
                st.append(s)
    return True


def counter_updates(b, blocks, var=None):
    """blocks inside the loop that assign `v = v +/- k` (k >= 1 constant, checked arithmetic); with var=None every such
    place is a candidate and the result carries the place: [(bb, op, k, place)]."""
    out = []
    for bi in blocks:
        for s in b.blocks[bi]["st"]:
            if "lhs" not in s:
                continue
            lhs = b.pname(s["lhs"], 2)
            if var is not None and not (lhs == var or lhs.endswith("." + var) or lhs.endswith("*" + var)):
                continue
            rv = s["rv"]
            if rv["k"] != "use":
                continue
            p = op_place(rv["o"])
            if p is None or len(p["p"]) != 1 or not isinstance(p["p"][0], dict) or p["p"][0].get("f") != 0:
                continue
            d = b.single_def(p["l"])
            if not (d and d[2] == "rv" and d[3]["k"] == "bin" and d[3]["op"] in ("AddWithOverflow", "SubWithOverflow")):
                continue
            k = op_const(d[3]["b"])
            if k is None or "int" not in k or int(k["int"]) < 1:
                continue
            a = b.oname(d[3]["a"], 2)
            if a == lhs or (var is not None and a.endswith(var)):
                out.append((bi, d[3]["op"][:3], int(k["int"]), lhs))
    return out


def counter_candidates(b, blocks):
    """places updated by `v = v +/- k` inside the loop."""
    seen = []
    for u in counter_updates(b, blocks, None):
        if u[3] not in seen:
            seen.append(u[3])
    return seen


def check_counter_loop(b, head, blocks, var=None):
    if var is None:
        why = "no `v += k` / `v -= k` inside the loop"
        for cand in counter_candidates(b, blocks):
            ok, how = check_counter_loop(b, head, blocks, cand)
            if ok:
                return ok, how
            why = how
        return False, why
    ups = [u for u in counter_updates(b, blocks, None) if u[3] == var] or counter_updates(b, blocks, var)
    if not ups:
        return False, "no `%s += k` / `%s -= k` inside the loop" % (var, var)
    if not every_cycle_passes(b, head, blocks, [u[0] for u in ups]):
        return False, "a cycle of the loop avoids every update of %s" % var
    # an exit of the loop must test the counter
    for x in blocks:
        t = b.term(x)
        if t["k"] == "switch" and any(s not in blocks for s in b.succ[x]):
            c = b.oname(t["d"], 3)
            if re.search(r"\b(Eq|Ne|Lt|Le|Gt|Ge)\(", c) and var in c:
                return True, "every cycle passes `%s %s= %d`; exit tests %s" % (var, "+" if ups[0][1] == "Add" else "-", ups[0][2], c)
    return False, "no loop exit compares %s" % var


def check_shrinking_slice_loop(b, head, blocks):
    """`while let Some((first, rest)) = v.split_first() { ..; v = rest (possibly advanced further); }`: the loop is left when the
    slice is empty, and every turn that goes round again assigns the slice variable from the `rest` of this turn's split — a
    strictly shorter slice (reading from a `&[u8]` or re-slicing `&rest[k..]` only shortens it further)."""
    for c in b.calls:
        if c.bb not in blocks or not re.search(r"slice::<impl \[T\]>::(split_first|split_last)$", c.fn or ""):
            continue
        # the exit: the discriminant of the split result leaves the loop on None
        exits = False
        for x in blocks:
            t = b.term(x)
            if t["k"] == "switch" and any(s_ not in blocks for s_ in b.succ[x]):
                p = op_place(t["d"])
                d = b.single_def(p["l"]) if p is not None and not p["p"] else None
                if d and d[2] == "rv" and d[3]["k"] == "discr" and d[3]["p"]["l"] == c.dest["l"]:
                    exits = True
        if not exits:
            continue
        q = op_place(c.args[0])
        if q is None:
            continue
        v = b.root_place(q, through_names=False)["l"]
        # locals that hold (a view of) the rest of this split
        rest = set()
        for bi, si, st in b.stmts():
            if "lhs" in st and not st["lhs"]["p"] and st["rv"]["k"] in ("use", "ref"):
                src = op_place(st["rv"]["o"]) if st["rv"]["k"] == "use" else st["rv"]["p"]
                if src is None:
                    continue
                fl = [e.get("f") for e in src["p"] if isinstance(e, dict) and "f" in e]
                if src["l"] == c.dest["l"] and fl and fl[-1] == 1:
                    rest.add(st["lhs"]["l"])
                elif src["l"] in rest and not [e for e in src["p"] if isinstance(e, dict) and "f" in e]:
                    rest.add(st["lhs"]["l"])
        stores = [bi for bi, si, st in b.stmts() if bi in blocks and "lhs" in st and st["lhs"]["l"] == v and not st["lhs"]["p"]
                  and st["rv"]["k"] == "use" and op_place(st["rv"]["o"]) is not None and op_place(st["rv"]["o"])["l"] in rest]
        if stores and every_cycle_passes(b, head, blocks, stores):
            return True, "every turn assigns %s from the rest of its own split_first(): the slice gets strictly shorter, the loop ends when it is empty" % b.pname({"l": v, "p": []}, 1)
    return False, "no slice that every turn replaces by the rest of its split"


def check_counter_or_pop_loop(b, head, blocks, var=None, stack=None):
    if var is None or stack is None:
        stacks = []
        for c in b.calls:
            if c.bb in blocks and re.search(r"Vec::<.*>::pop$", c.fn or c.name):
                t = b.oname(c.args[0], 2).lstrip("&*")
                if t not in stacks:
                    stacks.append(t)
        why = "no counter / stack pair found"
        for cand in counter_candidates(b, blocks):
            for st in stacks:
                ok, how = check_counter_or_pop_loop(b, head, blocks, cand, st)
                if ok:
                    return ok, how
                why = how
        return False, why
    return _check_counter_or_pop_loop(b, head, blocks, var, stack)


def _check_counter_or_pop_loop(b, head, blocks, var, stack):
    """lexicographic witness (counter, stack length): every cycle either updates the counter or pops the stack, the
    stack grows only on paths that passed a counter update, an exit tests the counter and a failed pop leaves."""
    ups = [u for u in counter_updates(b, blocks, None) if u[3] == var] or counter_updates(b, blocks, var)
    if not ups:
        return False, "no update of %s inside the loop" % var
    upb = [u[0] for u in ups]
    pops = [c for c in b.calls if c.bb in blocks and re.search(r"Vec::<.*>::pop$", c.fn or c.name) and stack in b.oname(c.args[0], 2)]
    pushes = [c for c in b.calls if c.bb in blocks and re.search(r"Vec::<.*>::(push|extend|insert|append|extend_from_slice)$", c.fn or c.name) and stack in b.oname(c.args[0], 2)]
    if not every_cycle_passes(b, head, blocks, upb + [c.bb for c in pops]):
        return False, "a cycle neither updates %s nor pops %s" % (var, stack)
    for c in pushes:
        if not any(b.dominates(u, c.bb) for u in upb):
            return False, "push onto %s at line %d is not preceded by an update of %s" % (stack, c.ln, var)
    # a None from pop must leave the loop
    for c in pops:
        if c.to is None:
            return False, "pop has no continuation"
    ok, how = check_counter_exit(b, blocks, var)
    if not ok:
        return False, how
    return True, "every cycle updates %s or pops %s; %s grows only after an update; %s" % (var, stack, stack, how)


def check_counter_exit(b, blocks, var):
    for x in blocks:
        t = b.term(x)
        if t["k"] == "switch" and any(s not in blocks for s in b.succ[x]):
            c = b.oname(t["d"], 3)
            if re.search(r"\b(Eq|Ne|Lt|Le|Gt|Ge)\(", c) and var in c:
                return True, "exit tests %s" % c
    return False, "no loop exit compares %s" % var


def check_visited_loop(b, head, blocks, setname=None):
    if setname is None:
        names = []
        for c in b.calls:
            if c.bb in blocks and re.search(r"(HashSet|BTreeSet)::<.*>::insert$", c.fn or c.name):
                t = b.oname(c.args[0], 2).lstrip("&*")
                if t not in names:
                    names.append(t)
        why = "no HashSet insert inside the loop"
        for n in names:
            ok, how = check_visited_loop(b, head, blocks, n)
            if ok:
                return ok, how
            why = how
        return False, why
    ins = [c for c in b.calls if c.bb in blocks and re.search(r"(HashSet|BTreeSet)::<.*>::insert$", c.fn or c.name) and setname in b.oname(c.args[0], 2)]
    con = [c for c in b.calls if c.bb in blocks and re.search(r"(HashSet|BTreeSet)::<.*>::contains$", c.fn or c.name) and setname in b.oname(c.args[0], 2)]
    if ins and not con:
        # `if !seen.insert(x) { break }`: insert answers whether the value was new; the loop is left when it was not
        if not every_cycle_passes(b, head, blocks, [c.bb for c in ins] + sorted(not_a_reference_edges(b, blocks))):
            return False, "a cycle of the loop avoids %s.insert (and does not pass a not-a-reference edge)" % setname
        for c in ins:
            if c.to is None:
                continue
            t = b.term(c.to)
            if t["k"] == "switch" and lib.switch_on(b, c.to, c.dest["l"]):
                # the false edge (value already present) leaves the loop
                fa = [x for v, x in t["tg"] if str(v) == "0"]
                if fa and not any(b.can_reach(x, head, avoid=()) and x in blocks for x in fa):
                    return True, "every cycle inserts into %s and leaves the loop when the value was already there (insert answered false)" % setname
        return False, "the answer of %s.insert is not used to leave the loop" % setname
    if not ins or not con:
        return False, "no insert/contains on %s inside the loop" % setname
    if not every_cycle_passes(b, head, blocks, [c.bb for c in ins] + sorted(not_a_reference_edges(b, blocks))):
        return False, "a cycle of the loop avoids %s.insert (and does not pass a not-a-reference edge)" % setname
    for c in con:
        if c.to is None:
            continue
        t = b.term(c.to)
        if t["k"] == "switch" and any(s not in blocks for s in b.succ[c.to]) and any(b.dominates(c.bb, i.bb) for i in ins):
            return True, "every cycle inserts into %s after a contains test that leaves the loop" % setname
    return False, "the contains test on %s does not leave the loop" % setname


def _normal_succ(b, x):
    """successors of x that are not cleanup blocks."""
    return [y for y in b.succ[x] if not b.blocks[y].get("cleanup")]


def check_monotone_exit_loop(b, head, blocks, _unused=None):
    """`for v in start..` (RangeFrom: v grows by one per turn) with an exit test that is a conjunction of conditions each
    of which is permanently true once v is large enough: `v >= c`, `x <= v - c` with x bounded above by its type or
    its definition.  The test is evaluated on every cycle, so the loop leaves after finitely many turns."""
    env = guard.Env(b)
    # the loop variable: Some-payload of `<RangeFrom<_> as Iterator>::next` called in the header region
    nxt = [c for c in b.calls if c.bb in blocks and (c.fn or "").endswith("Iterator::next") and "ops::RangeFrom<" in (c.full or "")]
    if len(nxt) != 1 or nxt[0].dest["p"]:
        return False, "no single RangeFrom::next in the loop"
    if not every_cycle_passes(b, head, blocks, [nxt[0].bb]):
        return False, "RangeFrom::next is not called on every cycle"
    vs = set()
    for bi, si, s in b.stmts():
        rv = s.get("rv")
        if rv and rv["k"] == "use" and "lhs" in s and not s["lhs"]["p"]:
            p = op_place(rv["o"])
            if p is not None and p["l"] == nxt[0].dest["l"] and len(p["p"]) == 2 and isinstance(p["p"][0], dict) and p["p"][0].get("down") == "Some":
                vs.add(s["lhs"]["l"])
            elif p is not None and not p["p"] and p["l"] in vs and len(b.defs.get(s["lhs"]["l"], [])) == 1:
                vs.add(s["lhs"]["l"])
    if not vs:
        return False, "loop variable not found"
    vbases = set()
    for v in vs:
        if len(b.defs.get(v, [])) != 1:
            return False, "loop variable is reassigned"
        vbases.add(env.uname(v))

    def monotone(bb):
        t = b.term(bb)
        if t["k"] != "switch" or t["dty"] != "bool":
            return None
        p = op_place(t["d"])
        if p is None or p["p"]:
            return None
        d = b.single_def(p["l"])
        if not (d and d[2] == "rv" and d[3]["k"] == "bin" and d[3]["op"] in ("Le", "Lt", "Ge", "Gt")):
            return None
        pos = (d[0], d[1])
        x, y = env.op_term(d[3]["a"], pos), env.op_term(d[3]["b"], pos)
        small, big = (x, y) if d[3]["op"] in ("Le", "Lt") else (y, x)
        # loop variable (named copy) on the big side, up to a constant offset
        def vbase(tm):
            if tm.base in vbases:
                return True
            for v in vs:
                if tm.base is not None and tm.base == env.local_term(v, pos, 4).base:
                    return True
            return False
        if not vbase(big):
            return None
        if small.base is None:
            ub = small.off
        else:
            r = env.term_range(small)
            if not r or r[1] >= 2 ** 31:
                return None
            ub = r[1] + small.off
        tt = [x_ for v_, x_ in t["tg"] if v_ == "0"]
        if len(tt) != 1 or t["else"] in tt:
            return None
        return t["else"], ub - big.off

    def straight(x):
        """follow single normal successors from x up to the next branching block; None if the walk leaves the loop."""
        seen = set()
        while x in blocks and x not in seen:
            seen.add(x)
            t = b.term(x)
            if t["k"] == "switch":
                return x
            ns = _normal_succ(b, x)
            if len(ns) != 1:
                return x
            x = ns[0]
        return None if x not in blocks else x

    for c1 in sorted(blocks):
        m = monotone(c1)
        if m is None or not every_cycle_passes(b, head, blocks, [c1]):
            continue
        cur, bound, n = c1, None, 0
        while True:
            m = monotone(cur)
            if m is None:
                break
            n += 1
            bound = m[1] if bound is None else max(bound, m[1])
            nx = straight(m[0])
            if nx is None:
                return True, "the exit test (%d condition(s) on the RangeFrom variable, each permanently true from %s = %d on) is evaluated on every cycle" % (n, b.names.get(sorted(vs)[0], "v"), bound)
            cur = nx
    return False, "no exit test that becomes permanently true as the RangeFrom variable grows"


NONREF_RESOLVERS = ("Document::get_object",)     # resolve a whole reference chain (bounded by DEREF_LIMIT): the result is never a Reference


def check_resolver_loop(F, b, head, blocks):
    """a loop that examines an object and goes round again only on the `Reference` arm, after replacing the object by the result
    of Document::get_object: that result is never a reference, so the Reference arm cannot be taken twice in a row and the
    loop runs at most twice."""
    import lib
    calls = [c for c in b.calls if c.bb in blocks and c.local and c.cname in NONREF_RESOLVERS]
    if not calls:
        return False, "no call to a resolver inside the loop"
    if not every_cycle_passes(b, head, blocks, [c.bb for c in calls]):
        return False, "a cycle of the loop does not pass a resolver call"
    for c in calls:
        ok = False
        for g, s2 in lib.taken_edges(b, c.bb):
            if g not in blocks:
                continue
            t = b.term(g)
            d = b.def_rv(t["d"]) if t["dty"] != "bool" else None
            if not (d and d[2] == "rv" and d[3]["k"] == "discr" and d[3].get("vars")):
                continue
            names = {str(v): n for v, n in d[3]["vars"]}
            val = [str(v) for v, x in t["tg"] if x == s2]
            if len(val) == 1 and names.get(val[0]) == "Reference":
                # the object that was examined is the one that is replaced by the resolver's result
                src = d[3]["p"]["l"]
                scr = b.root_place({"l": src, "p": []}, through_names=True)["l"]
                stores = [st for bi, si, st in b.stmts() if bi in blocks and "lhs" in st and not st["lhs"]["p"] and st["lhs"]["l"] == scr and b.dominates(c.bb, bi)]
                if stores:
                    ok = True
        if not ok:
            return False, "the resolver call at line %d is not on the Reference arm of the examined object, or its result does not replace that object" % c.ln
    return True, "goes round only on the Reference arm after replacing the object by Document::get_object's result (never a reference): at most two turns"


def check_termination(ctx, F, scope, loops_table, rec_table, rule="R-TERM"):
    """obligations for every non-iterator loop and every recursion cycle of the scope."""
    stats = {"loops": 0, "iter": 0, "local_iter": 0, "verified": 0, "tabled": 0, "open": 0, "sccs": 0}
    per_fn = {}
    for b, head, blocks, kind, detail in loops_of_scope(F, scope):
        stats["loops"] += 1
        fn = F.canon_of(b)
        if kind == "iter":
            stats["iter"] += 1
            ctx.obligations.append({"rule": rule, "key": "loop|%s|for-over-%s" % (fn, detail[:60]), "status": "discharged",
                                    "how": "AUTO: leaves when a finite iterator is exhausted", "where": b.where(b.term(head)["ln"]), "nontrivial": False})
            continue
        if kind == "local-iter":
            stats["local_iter"] += 1
            ctx.obligations.append({"rule": rule, "key": "loop|%s|for-over-local-%s" % (fn, detail[:60]), "status": "discharged",
                                    "how": "driven by a crate-local iterator whose own loops are obligations of this rule", "where": b.where(b.term(head)["ln"]), "nontrivial": True})
            continue
        per_fn.setdefault(fn, []).append((b, head, blocks, detail))
    for fn, ls in sorted(per_fn.items()):
        rows = [dict(r) for r in loops_table.get(fn, [])]
        for (b, head, blocks, detail) in ls:
            sig = loop_signature(F, b, head, blocks)
            where = b.where(b.term(head)["ln"])
            done = False
            why = []
            for r in rows:
                if r.get("_used", 0) >= r.get("n", 1):
                    continue
                w = r["witness"]
                if w == "counter":
                    ok, how = check_counter_loop(b, head, blocks, None)
                elif w == "visited":
                    ok, how = check_visited_loop(b, head, blocks, None)
                elif w == "counter-or-pop":
                    ok, how = check_counter_or_pop_loop(b, head, blocks, None, None)
                elif w == "resolver-loop":
                    ok, how = check_resolver_loop(F, b, head, blocks)
                elif w == "shrinking-slice":
                    ok, how = check_shrinking_slice_loop(b, head, blocks)
                elif w == "monotone-exit":
                    ok, how = check_monotone_exit_loop(b, head, blocks, None)
                elif w == "tabled":
                    ok, how = (r.get("sig") == sig), "signature differs from the reviewed loop"
                    if ok:
                        how = "TABLED: " + r["reason"]
                else:
                    ok, how = False, "unknown witness"
                if ok and r.get("init"):
                    iok, ihow = check_counter_init(F, r["init"])
                    if not iok:
                        ok, how = False, ihow
                    else:
                        how += "; " + ihow
                if ok:
                    r["_used"] = r.get("_used", 0) + 1
                    stats["verified" if w != "tabled" else "tabled"] += 1
                    ctx.obligations.append({"rule": rule, "key": "loop|%s|%s" % (fn, w), "status": "discharged",
                                            "how": how, "where": where, "nontrivial": True})
                    done = True
                    break
                why.append("%s: %s" % (w, how))
            if not done:
                stats["open"] += 1
                ctx.finding(rule, "loop|%s" % fn, "loop in %s has no verified termination witness (%s) [%s]" % (fn, "; ".join(why) or detail, sig), where,
                            detail={"signature": sig, "tried": why})
    # recursion
    for comp in F.sccs(scope):
        stats["sccs"] += 1
        names = sorted(F.canon_of(F.bodies[x]) for x in comp)
        key = " <-> ".join(n for n in names if "{closure" not in n) or names[0]
        r = rec_table.get(key)
        where = F.bodies[comp[0]].where()
        if r is None:
            ctx.finding(rule, "recursion|%s" % key, "recursion cycle without a reviewed bound: %s" % key, where, detail={"members": names})
            continue
        w = r["bound"]
        if w == "visited":
            b = F.fn(r["in"])
            ok, how = check_visited_set(F, b, set(comp))
        elif w == "counter":
            try:
                b = F.fn(r["in"])
            except AnchorLost:
                b = F.bodies[sorted(comp)[0]]      # the named member is gone: every member of the cycle is examined anyway
            ok, how = check_counter(F, b, r["callee"], r["param"], also=[F.bodies[x] for x in sorted(comp)])
            lim = F.consts.get(r.get("start_const", ""))
            if ok and r.get("start_const"):
                if lim is None or "int" not in lim or int(lim["int"]) > r.get("max_start", 1000):
                    ok, how = False, "start constant %s is missing or exceeds %d" % (r["start_const"], r.get("max_start", 1000))
                else:
                    how += "; starts at %s = %s" % (r["start_const"], lim["int"])
        elif w == "counter-sites":
            ok, how = check_counter_sites(F, comp, r)
        elif w in ("structural", "input-bounded"):
            ok, how = True, "TABLED (%s): %s" % (w, r["reason"])
            # a structural bound is void if the cycle resolves references (reference graphs can be cyclic)
            if w == "structural" and not r.get("may_resolve"):
                res = resolves_references(F, comp)
                if res:
                    ok, how = False, "cycle tabled as structural now resolves references through %s" % res
            # a bound that rests on what the recursive call is given (e.g. "the result of get_object, which is never a
            # Reference"): every recursive call site must pass a value that comes from that callee
            if ok and r.get("rec_arg_from"):
                spec = r["rec_arg_from"]
                nrec = 0
                for pth in comp:
                    cb = F.bodies[pth]
                    env = guard.Env(cb)
                    for c in cb.calls:
                        if c.local and c.name in comp:
                            nrec += 1
                            p_ = op_place(c.args[spec["arg"]])
                            src = None
                            if p_ is not None:
                                rp = cb.root_place(p_, through_names=True)
                                pr = [e for e in rp["p"] if e != "*"]
                                l_ = rp["l"]
                                okp = not pr or (len(pr) == 2 and isinstance(pr[0], dict) and pr[0].get("down") in ("Continue", "Some", "Ok") and isinstance(pr[1], dict) and pr[1].get("f") == 0)
                                for _ in range(6):
                                    d_ = cb.single_def(l_) if okp else None
                                    if d_ is None:
                                        break
                                    if d_[2] == "call":
                                        tgt = d_[3]["f"].get("res") or d_[3]["f"].get("fn") or ""
                                        if d_[3]["f"].get("loc") and tgt in F.bodies:
                                            src = F.bodies[tgt]
                                            break
                                        if tgt.rsplit("::", 1)[-1] in ("branch", "unwrap", "expect") and d_[3]["args"]:
                                            q = op_place(d_[3]["args"][0])
                                            if q is None or q["p"]:
                                                break
                                            l_ = q["l"]
                                            continue
                                        break
                                    if d_[2] == "rv" and d_[3]["k"] == "use":
                                        q = op_place(d_[3]["o"])
                                        if q is None or q["p"]:
                                            break
                                        l_ = q["l"]
                                        continue
                                    break
                            nm = F.canon_of(src) if src is not None and not isinstance(src, tuple) else None
                            if nm != spec["callee"]:
                                ok, how = False, "the recursive call at line %d passes a value that does not come from %s (comes from %s)" % (c.ln, spec["callee"], nm or "elsewhere")
                if ok and nrec == 0:
                    ok, how = False, "no recursive call site found"
                if ok:
                    how += " [%d recursive call site(s): argument comes from %s]" % (nrec, spec["callee"])
            # an input-bounded argument rests on where the outside callers start: re-verified on every run
            if ok and r.get("entry_args"):
                spec = r["entry_args"]
                rxs = [re.compile(x) for x in spec["allowed"]]
                seen = 0
                for pth, cb in F.bodies.items():
                    if pth in comp or any(pth.startswith(c_ + "::{closure") for c_ in comp):
                        continue
                    for c in cb.calls:
                        if c.local and c.name in comp:
                            seen += 1
                            with cb.alpha(args=True):
                                t = cb.sname(c.args[spec["arg"]], 8).replace("&", "").replace("*", "")
                            if not any(rx.search(t) for rx in rxs):
                                ok, how = False, "call from %s passes `%s` as argument %d, which is not one of the reviewed bounded starts" % (F.canon_of(cb), t, spec["arg"])
                if ok and seen < spec.get("min_sites", 1):
                    ok, how = False, "found %d outside call sites, expected at least %d" % (seen, spec.get("min_sites", 1))
                if ok:
                    how += " [%d outside call sites re-verified]" % seen
        else:
            ok, how = False, "unknown bound"
        ctx.ob(rule, "recursion|%s" % key, ok, how, where, what="recursion cycle %s: %s" % (key, how))
    return stats


RESOLVERS = ("Document::get_object", "Document::get_dictionary", "Document::get_dict_in_dict", "Document::dereference",
             "Document::get_object_mut", "Reader::get_object")


def resolves_references(F, comp):
    comp = set(comp)
    for p in comp:
        b = F.bodies[p]
        for c in b.calls:
            if c.local and c.name in F.bodies and c.name not in comp:
                cn = F.canon_of(F.bodies[c.name])
                if cn in RESOLVERS:
                    return cn
    return None


def check_counter_init(F, spec):
    """every struct literal of `adt` initialises `field` with a term matching `matches` (the budget of a counter witness
    must itself be bounded by the size of the in-memory document)."""
    import lib
    rx = re.compile(spec["matches"])
    n = 0
    for b in F.bodies.values():
        for bi, s, fields in lib.struct_literals(b, spec["adt"]):
            if spec["field"] not in fields:
                continue
            n += 1
            t = b.oname(fields[spec["field"]], 5)
            if not rx.search(t):
                t = b.sname(fields[spec["field"]], 5)     # a local that holds the value, built once, stands for its expression
            if not rx.search(t) and rx.search(re.sub(r" as (u64|u128)$", "", t)) and re.match(r"^len\(", t):
                t = re.sub(r" as (u64|u128)$", "", t)       # a length (usize) kept in a wider counter is the same number
            if not rx.search(t):
                return False, "%s.%s is initialised with `%s` in %s, not with a value bounded by the document size" % (spec["adt"], spec["field"], t, F.canon_of(b))
    if n < spec.get("min", 1):
        return False, "found %d initialisation(s) of %s.%s, expected at least %d" % (n, spec["adt"], spec["field"], spec.get("min", 1))
    return True, "%d initialisation(s) of %s.%s match /%s/" % (n, spec["adt"], spec["field"], spec["matches"])
