"""byteset.py — value-set analysis for one byte-valued variable: for every block of a body, the set of values of the
variable for which control can reach the block; truth sets of boolean operands as sets of byte values.

The domain is the powerset of 0..=255 (finite, so the analysis is exact for the conditions it understands); a condition
it does not understand does not constrain (both successors inherit the incoming set) and is recorded in `unknown`, so
that rules needing exactness can fail closed."""
import re
from mir import op_place, op_const, const_int, const_bytes

FULL = frozenset(range(256))

STD_PRED = {
    "is_ascii_digit": frozenset(range(48, 58)),
    "is_ascii_hexdigit": frozenset(list(range(48, 58)) + list(range(65, 71)) + list(range(97, 103))),
    "is_hex_digit": frozenset(list(range(48, 58)) + list(range(65, 71)) + list(range(97, 103))),
    "is_oct_digit": frozenset(range(48, 56)),
    "is_dec_digit": frozenset(range(48, 58)),
    "is_ascii_alphabetic": frozenset(list(range(65, 91)) + list(range(97, 123))),
    "is_alpha": frozenset(list(range(65, 91)) + list(range(97, 123))),
    "is_ascii_alphanumeric": frozenset(list(range(48, 58)) + list(range(65, 91)) + list(range(97, 123))),
    "is_alphanum": frozenset(list(range(48, 58)) + list(range(65, 91)) + list(range(97, 123))),
    "is_ascii_whitespace": frozenset([9, 10, 12, 13, 32]),
    "is_ascii_uppercase": frozenset(range(65, 91)),
    "is_ascii_lowercase": frozenset(range(97, 123)),
    "is_ascii": frozenset(range(128)),
    "is_ascii_graphic": frozenset(range(33, 127)),
    "is_ascii_punctuation": frozenset([c for c in range(33, 127) if not (48 <= c < 58 or 65 <= c < 91 or 97 <= c < 123)]),
    "is_ascii_control": frozenset(list(range(32)) + [127]),
    "is_space": frozenset([32, 9]),
    "is_newline": frozenset([10]),
}


class ByteVar:
    """analysis of `body` with respect to the byte variable identified by `is_var(operand) -> bool`."""

    def __init__(self, F, body, is_var, depth=4, domain=None):
        self.FULL = frozenset(domain) if domain is not None else FULL
        self.byte = domain is None
        self.F = F
        self.b = body
        self.is_var = is_var
        self.unknown = []
        self.depth = depth
        self._fn_cache = {}

    # ---- operand classification
    def _as_var(self, o, seen=0):
        """is operand o (a u8 value, or a reference to it) the variable?"""
        if o is None:
            return False
        if self.is_var(o):
            return True
        p = op_place(o)
        if p is None or seen > 8:
            return False
        if len(p["p"]) == 1 and isinstance(p["p"][0], dict) and "f" in p["p"][0] and not p["p"][0].get("adt"):
            # (a, b).1 == b : a component of a tuple built just before (`match (flag, byte) { .. }`)
            d = self.b.single_def(p["l"])
            if d and d[2] == "rv" and d[3]["k"] == "agg" and d[3]["kind"].get("a") == "tuple" and p["p"][0]["f"] < len(d[3]["ops"]):
                return self._as_var(d[3]["ops"][p["p"][0]["f"]], seen + 1)
            return False
        if p["p"] == ["*"]:
            # *(&x)  ==  x
            d = self.b.single_def(p["l"])
            if d and d[2] == "rv" and d[3]["k"] == "ref":
                return self._as_var({"c": d[3]["p"]}, seen + 1)
            if d and d[2] == "rv" and d[3]["k"] == "use":
                ip = op_place(d[3]["o"])
                if ip is not None:
                    return self._as_var({"c": {"l": ip["l"], "p": ip["p"] + ["*"]}}, seen + 1)
            return False
        if p["p"]:
            return False
        d = self.b.single_def(p["l"])
        if d is not None and d[2] == "call" and len(d[3]["args"]) == 1:
            # usize::from(b) / b.into(): a widening integer conversion keeps the byte value
            f = d[3]["f"]
            if (f.get("fn") or "").rsplit("::", 1)[-1] in ("from", "into") and re.search(r"<(u16|u32|u64|usize|i16|i32|i64|isize) as std::convert::From<u8>>|<u8 as std::convert::Into<", f.get("full") or ""):
                return self._as_var(d[3]["args"][0], seen + 1)
        if d is None or d[2] != "rv":
            return False
        rv = d[3]
        if rv["k"] == "use":
            return self._as_var(rv["o"], seen + 1)
        if rv["k"] == "ref":
            return self._as_var({"c": rv["p"]}, seen + 1)
        if rv["k"] == "cast" and rv["kind"].startswith("IntToInt"):
            # widening keeps the byte value
            return self._as_var(rv["o"], seen + 1)
        return False

    def _const(self, o, seen=0):
        k = op_const(o)
        if k is not None:
            return const_int(k)
        p = op_place(o)
        if p is None or p["p"] or seen > 6:
            return None
        d = self.b.single_def(p["l"])
        if d is None or d[2] != "rv":
            return None
        rv = d[3]
        if rv["k"] in ("use", "cast"):
            return self._const(rv["o"], seen + 1)
        return None

    def _const_bytes(self, o, seen=0):
        k = op_const(o)
        if k is not None:
            return const_bytes(k)
        p = op_place(o)
        if p is None or seen > 6:
            return None
        d = self.b.single_def(p["l"])
        if d is None:
            return None
        if d[2] == "rv":
            rv = d[3]
            if rv["k"] in ("use", "cast"):
                return self._const_bytes(rv["o"], seen + 1)
            if rv["k"] == "ref":
                return self._const_bytes({"c": {"l": rv["p"]["l"], "p": []}}, seen + 1)
            if rv["k"] == "agg" and rv["kind"].get("a") == "array":
                vals = [self._const(x) for x in rv["ops"]]
                if all(v is not None for v in vals):
                    return bytes(v & 0xFF for v in vals)
            return None
        # &CONST[..]  -> Index<RangeFull>
        t = d[3]
        nm = t["f"].get("fn") or ""
        full = t["f"].get("full") or ""
        if nm.endswith("ops::Index::index") and "RangeFull" in full:
            return self._const_bytes(t["args"][0], seen + 1)
        if nm.rsplit("::", 1)[-1] in ("as_slice", "as_ref", "deref", "as_bytes"):
            return self._const_bytes(t["args"][0], seen + 1)
        return None

    def _const_struct(self, o, seen=0):
        k = op_const(o)
        if k is not None:
            return k.get("struct")
        p = op_place(o)
        if p is None or seen > 6:
            return None
        d = self.b.single_def(p["l"])
        if d is None or d[2] != "rv":
            if d is not None and d[2] == "call" and (d[3]["f"].get("fn") or "").endswith("RangeInclusive::<Idx>::new"):
                lo, hi = self._const(d[3]["args"][0]), self._const(d[3]["args"][1])
                if lo is not None and hi is not None:
                    return {"name": "std::ops::RangeInclusive", "fields": {"start": str(lo), "end": str(hi), "exhausted": "0"}}
            return None
        rv = d[3]
        if rv["k"] in ("use", "cast"):
            return self._const_struct(rv["o"], seen + 1)
        if rv["k"] == "ref":
            return self._const_struct({"c": {"l": rv["p"]["l"], "p": []}}, seen + 1)
        if rv["k"] == "agg" and rv["kind"].get("a") == "adt" and rv["kind"]["adt"].endswith("ops::Range"):
            lo, hi = self._const(rv["ops"][0]), self._const(rv["ops"][1])
            if lo is not None and hi is not None:
                return {"name": "std::ops::Range", "fields": {"start": str(lo), "end": str(hi)}}
        return None

    def mentions_var(self, o, depth=5):
        """does the value of operand o depend (syntactically, through its defining expressions) on the variable?"""
        if o is None or depth <= 0:
            return False
        if self._as_var(o):
            return True
        p = op_place(o)
        if p is None:
            return False
        for e in p["p"]:
            if isinstance(e, dict) and "idx" in e and self.mentions_var({"c": {"l": e["idx"], "p": []}}, depth - 1):
                return True
        if p["l"] in self.b.names:
            return False
        for d in self.b.defs.get(p["l"], []):
            if d[2] == "rv":
                rv = d[3]
                ops = []
                if rv["k"] in ("use", "cast", "un", "repeat"):
                    ops = [rv["o"]]
                elif rv["k"] == "bin":
                    ops = [rv["a"], rv["b"]]
                elif rv["k"] == "agg":
                    ops = rv["ops"]
                elif rv["k"] in ("ref", "discr"):
                    ops = [{"c": rv["p"]}]
                if any(self.mentions_var(x, depth - 1) for x in ops):
                    return True
            elif d[2] == "call":
                if any(self.mentions_var(x, depth - 1) for x in d[3]["args"]):
                    return True
        return False

    def _val(self, o, x, depth=6):
        """value of integer operand o when the variable is x (constants, the variable, casts, arithmetic); None if unknown."""
        k = op_const(o)
        if k is not None:
            return const_int(k)
        if self._as_var(o):
            return x
        p = op_place(o)
        if p is None or depth <= 0:
            return None
        if len(p["p"]) == 1 and isinstance(p["p"][0], dict) and p["p"][0].get("f") == 0:
            d = self.b.single_def(p["l"])
            if d and d[2] == "rv" and d[3]["k"] == "bin" and d[3]["op"].endswith("WithOverflow"):
                return self._val_rv(d[3], x, depth - 1)
            return None
        if len(p["p"]) == 1 and isinstance(p["p"][0], dict) and "idx" in p["p"][0]:
            # TABLE[i]: an element of a constant integer array (the compiler evaluated the table)
            d = self.b.single_def(p["l"])
            k = None
            if d and d[2] == "rv" and d[3]["k"] in ("use", "ref"):
                k = op_const(d[3]["o"]) if d[3]["k"] == "use" else None
            c = self.F.consts.get(k.get("def")) if k is not None and k.get("def") else None
            m = re.match(r"^\[(u8|u16|u32|i8|i16|i32); (\d+)\]$", (c or {}).get("ty", ""))
            if c is None or "raw" not in c or not m:
                return None
            i = self._val({"c": {"l": p["p"][0]["idx"], "p": []}}, x, depth - 1)
            size = {"u8": 1, "i8": 1, "u16": 2, "i16": 2, "u32": 4, "i32": 4}[m.group(1)]
            if i is None or not (0 <= i < int(m.group(2))):
                return None
            raw = bytes.fromhex(c["raw"])
            return int.from_bytes(raw[i * size:(i + 1) * size], "little", signed=m.group(1).startswith("i"))
        if p["p"]:
            return None
        d = self.b.single_def(p["l"])
        if d is None or d[2] != "rv":
            return None
        return self._val_rv(d[3], x, depth - 1)

    def _val_rv(self, rv, x, depth):
        if rv["k"] in ("use",) or (rv["k"] == "cast" and rv["kind"].startswith("IntToInt")):
            return self._val(rv["o"], x, depth)
        if rv["k"] == "bin":
            a, c = self._val(rv["a"], x, depth), self._val(rv["b"], x, depth)
            if a is None or c is None:
                return None
            op = rv["op"].replace("WithOverflow", "")
            try:
                if op == "Add":
                    return a + c
                if op == "Sub":
                    return a - c
                if op == "Mul":
                    return a * c
                if op == "Div":
                    return int(a / c) if c else None
                if op == "Rem":
                    return (abs(a) % abs(c)) * (1 if a >= 0 else -1) if c else None
                if op == "BitAnd":
                    return a & c
                if op == "Shl":
                    return a << c
                if op == "Shr":
                    return a >> c
            except Exception:
                return None
        return None

    # ---- truth sets
    def truth(self, o, depth=8):
        """set of variable values for which bool operand o is true; None if not a function of the variable we understand."""
        k = op_const(o)
        if k is not None:
            v = const_int(k)
            if v is None:
                return None
            return self.FULL if v else frozenset()
        p = op_place(o)
        if p is not None and len(p["p"]) == 1 and isinstance(p["p"][0], dict) and "f" in p["p"][0] and not p["p"][0].get("adt") and depth > 0:
            d = self.b.single_def(p["l"])
            if d and d[2] == "rv" and d[3]["k"] == "agg" and d[3]["kind"].get("a") == "tuple" and p["p"][0]["f"] < len(d[3]["ops"]):
                return self.truth(d[3]["ops"][p["p"][0]["f"]], depth - 1)
            return None
        if p is None or p["p"] or depth <= 0:
            return None
        defs = [d for d in self.b.defs.get(p["l"], [])]
        if len(defs) == 1:
            return self._truth_def(defs[0], depth)
        if len(defs) > 1 and all(d[2] == "rv" for d in defs):
            # value assigned on different paths (lowering of && / || / match): union over defs of reach(def) ∩ truth(rhs)
            R = self.reach_sets()
            out = set()
            for d in defs:
                t = self._truth_def(d, depth - 1)
                if t is None:
                    return None
                out |= (R.get(d[0], frozenset()) & t)
            return frozenset(out)
        return None

    def _truth_def(self, d, depth):
        b = self.b
        if d[2] == "rv":
            rv = d[3]
            if rv["k"] == "use":
                return self.truth(rv["o"], depth - 1)
            if rv["k"] == "un" and rv["op"] == "Not":
                t = self.truth(rv["o"], depth - 1)
                return None if t is None else self.FULL - t
            if rv["k"] == "bin" and rv["op"] in ("Eq", "Ne", "Lt", "Le", "Gt", "Ge"):
                a, c = rv["a"], rv["b"]
                va, vc = self._as_var(a), self._as_var(c)
                ka, kc = self._const(a), self._const(c)
                import operator
                ops = {"Eq": operator.eq, "Ne": operator.ne, "Lt": operator.lt, "Le": operator.le, "Gt": operator.gt, "Ge": operator.ge}
                f = ops[rv["op"]]
                if va and kc is not None:
                    return frozenset(x for x in self.FULL if f(x, kc))
                if vc and ka is not None:
                    return frozenset(x for x in self.FULL if f(ka, x))
                # arithmetic over the variable on either side (x % 8 != 0, x / 8 > 16, ...)
                if self.mentions_var(a) or self.mentions_var(c):
                    out = set()
                    for x in self.FULL:
                        xa, xc = self._val(a, x), self._val(c, x)
                        if xa is None or xc is None:
                            return None
                        if f(xa, xc):
                            out.add(x)
                    return frozenset(out)
                return None
            if rv["k"] == "bin" and rv["op"] in ("BitAnd", "BitOr", "BitXor"):
                ta, tc = self.truth(rv["a"], depth - 1), self.truth(rv["b"], depth - 1)
                if ta is None or tc is None:
                    return None
                return {"BitAnd": ta & tc, "BitOr": ta | tc, "BitXor": ta ^ tc}[rv["op"]]
            return None
        t = d[3]
        f = t["f"]
        nm = f.get("fn") or ""
        res = f.get("res") or ""
        full = f.get("full") or ""
        short = nm.rsplit("::", 1)[-1]
        args = t["args"]
        if short == "contains" and len(args) == 2 and self._as_var(args[1]):
            kb = self._const_bytes(args[0])
            if kb is not None and ("slice" in nm or "[u8]" in full):
                return frozenset(kb)
            st = self._const_struct(args[0])
            if st and st["name"].endswith("RangeInclusive"):
                return frozenset(range(int(st["fields"]["start"]), int(st["fields"]["end"]) + 1)) & self.FULL
            if st and st["name"].endswith("ops::Range"):
                return frozenset(range(int(st["fields"]["start"]), int(st["fields"]["end"]))) & self.FULL
            return None
        if short in ("eq", "ne") and len(args) == 2 and "cmp::PartialEq" in nm:
            for x, y in ((args[0], args[1]), (args[1], args[0])):
                if self._as_var(x):
                    ky = self._const(y)
                    if ky is None:
                        kb = self._const_bytes(y)
                        ky = kb[0] if kb is not None and len(kb) == 1 else None
                    if ky is not None:
                        s = frozenset([ky])
                        return (s & self.FULL) if short == "eq" else self.FULL - s
            return None
        if short in STD_PRED and len(args) >= 1 and self._as_var(args[0]) and ("num::" in nm or "AsChar" in nm or "char" in nm):
            return STD_PRED[short]
        # crate-local predicate fn(u8) -> bool
        tgt = res or nm
        if f.get("loc") and tgt in self.F.bodies and len(args) == 1 and self._as_var(args[0]):
            return predicate_set(self.F, self.F.bodies[tgt], self.depth - 1)
        if short == "call" and "ops::Fn" in nm and len(args) == 2:
            pass
        return None

    # ---- reach sets
    def reach_sets(self, start=0):
        if hasattr(self, "_reach"):
            return self._reach
        b = self.b
        R = {start: self.FULL}
        self._reach = R            # re-entrancy for multi-def temps: use what is known so far
        work = [start]
        while work:
            x = work.pop()
            S = R[x]
            t = b.term(x)
            outs = []
            if t["k"] == "switch":
                if t["dty"] == "bool":
                    T = self.truth(t["d"])
                    if T is None:
                        if self.mentions_var(t["d"]):
                            self.unknown.append((x, b.oname(t["d"], 3)))
                        for s in b.succ[x]:
                            outs.append((s, S))
                    else:
                        fb = [bb for v, bb in t["tg"] if v == "0"]
                        for bb in fb:
                            outs.append((bb, S - T))
                        outs.append((t["else"], S & T))
                elif self._as_var(t["d"]):
                    used = set()
                    for v, bb in t["tg"]:
                        outs.append((bb, S & frozenset([int(v) & 0xFF if self.byte else int(v)])))
                        used.add(int(v) & 0xFF if self.byte else int(v))
                    outs.append((t["else"], S - frozenset(used)))
                else:
                    for s in b.succ[x]:
                        outs.append((s, S))
            else:
                for s in b.succ[x]:
                    outs.append((s, S))
            for s, ns in outs:
                old = R.get(s)
                new = ns if old is None else (old | ns)
                if old is None or new != old:
                    R[s] = frozenset(new)
                    work.append(s)
        return R


def predicate_set(F, body, depth=4):
    """truth set of a crate-local `fn(u8) -> bool` (or closure over one byte): values of argument 1 for which it returns true."""
    if depth <= 0:
        return None
    arg = body.argc  # closures: last arg is the parameter, arg 1 is the environment
    if body.kind != "Closure":
        arg = 1

    def is_var(o):
        p = op_place(o)
        # the parameter itself, or `*param` when the closure takes the byte by reference (`|&b| ..`)
        return p is not None and p["l"] == arg and (not p["p"] or p["p"] == ["*"])

    bv = ByteVar(F, body, is_var, depth)
    R = bv.reach_sets()
    out = set()
    # _0 is assigned along paths; collect per definition
    defs = body.defs.get(0, [])
    if not defs:
        return None
    for d in defs:
        if d[2] == "rv":
            rv = d[3]
            if rv["k"] == "use":
                t = bv.truth(rv["o"])
            else:
                t = bv._truth_def(d, 8)
        else:
            t = bv._truth_def(d, 8)
        if t is None:
            return None
        out |= (R.get(d[0], frozenset()) & t)
    if bv.unknown:
        return None
    return frozenset(out)


def fmt_set(s):
    """compact human-readable rendering of a byte set."""
    if s is None:
        return "?"
    xs = sorted(s)
    out = []
    i = 0
    while i < len(xs):
        j = i
        while j + 1 < len(xs) and xs[j + 1] == xs[j] + 1:
            j += 1
        out.append("%02X" % xs[i] if i == j else "%02X-%02X" % (xs[i], xs[j]))
        i = j + 1
    return "{" + ",".join(out) + "}"
