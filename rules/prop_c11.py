"""C11 — editing operations keep the document sound (DESIGN §4 C11)."""
import re
import inv
import lib, prop_c09, term
from mir import op_place, AnchorLost

LEVEL = dict(
    level="other",
    rule_text="identifier allocation is monotone (who-may-write Document.max_id and with which term; every insertion of a fresh key uses "
              "a key <= the max_id left behind); delete_object strips references before removing and must be able to strip every "
              "occurrence; prune_objects removes exactly keys minus traverse_objects(); delete_pages decrements Count along the Parent "
              "chain; creating a Resources entry must not shadow inherited resources; compress/decompress keep stream dictionaries "
              "consistent with their data (C09's setter rules); all structural rules of C10 (renumbering is an editing operation); prune_objects by data flow (membership in the traversal result, negated, over objects.keys()); build_outline's id counter by data flow",
    explanation="Decides structural necessary conditions of soundness for each editing operation. Does not decide model conformance of "
                "arbitrary operation sequences or page content after edits.",
    trusted_base=["rustc MIR and callee resolution"],
)
LEVEL["rule_text"] += "; change_page_content asks nothing of the /Contents array but len == 1 (an empty array is replaced like any other); inherited_resources reads and resolves the ancestors' /Resources entry itself, direct or referenced"

MAX_ID_WRITERS = {
    "Document::add_object": r"^Add\(\*self\.max_id,1\)$",
    "Document::new_object_id": r"^Add\(\*self\.max_id,1\)$",
    "Document::write_cross_reference_stream": r"^Add\(\*self\.max_id,1\)$",
    "Document::build_outline": r"^maxid$",
    "Document::renumber_objects_with": r"^Sub\(new_id,1\)$",
    "Reader::read": r"^Sub\(xref\.size,1\)$",
}
MAX_ID_LITERALS = {"Document::new": r"^0$", "Document::new_from_prev": r"^\*?prev\.max_id$", "<Document as Clone>::clone": r"^clone\(&\*self\.max_id\)$"}


def _run(ctx):
    F = ctx.facts("default")
    id_rules(ctx, F)
    outline_ids(ctx, F)
    # 2. delete_object
    do = F.fn("Document::delete_object")
    tr = lib.local_calls(F, do, "Document::traverse_objects")
    rm = [c for c in do.calls if re.search(r"BTreeMap::<.*>::remove$", c.fn or "")]
    ctx.ob("R-ORDER", "strip-before-remove|delete_object", len(tr) == 1 and len(rm) == 1 and do.dominates(tr[0].bb, rm[0].bb), "traverse_objects(strip) dominates objects.remove(id)", do.where(),
           what="delete_object removes the object before (or without) stripping the references to it")
    act = [c for c in F.closures_of(do.path) if any(re.search(r"Vec::<.*>::(remove|retain)$|::retain$", x.fn or "") for x in c.calls)]
    multi = False
    for a in act:
        if any(re.search(r"::retain$", x.fn or "") for x in a.calls):
            multi = True
        for x in a.calls:
            if re.search(r"Vec::<.*>::remove$", x.fn or "") and any(x.bb in bl for bl in a.loops().values()):
                multi = True
    ctx.ob("R-ORDER", "strip-every-occurrence|delete_object", multi, "the Array arm can remove more than one element", do.where(),
           what="delete_object's Array arm removes at most one occurrence (position + a single remove outside any loop): `[1 0 R 1 0 R]` still holds `1 0 R` after delete_object((1,0))")
    # 3. prune_objects
    po = F.fn("Document::prune_objects")
    tr = lib.local_calls(F, po, "Document::traverse_objects")
    ok = False
    if len(tr) == 1 and not tr[0].dest["p"]:
        T = tr[0].dest["l"]
        # membership tests against the traversal result, in prune_objects or its closures (data flow, not names)
        cont = [(b2, c) for b2 in F.with_closures(po) for c in b2.calls if re.search(r"contains$", c.fn or "") and lib.same_origin(F, b2, c.args[0], po, T)]
        rm = [c for c in po.calls if re.search(r"BTreeMap::<.*>::remove$", c.fn or "") and (lib.origin_local(F, po, c.args[0]) or (0, 0, [{}]))[2][-1:] and
              lib.origin_local(F, po, c.args[0])[2][-1].get("n") == "objects"]
        keys = [c for c in po.calls if re.search(r"BTreeMap::<.*>::keys$", c.fn or "") and (lib.origin_local(F, po, c.args[0]) or (0, 0, []))[2][-1:] and
                lib.origin_local(F, po, c.args[0])[2][-1].get("n") == "objects"]
        neg = False
        if len(cont) == 1:
            cb, c = cont[0]
            if cb is po:
                # loop form: a push into the id list is entered only on the `not contained` edge
                for pc in po.calls:
                    if re.search(r"Vec::<.*>::push$", pc.fn or ""):
                        for g, s2 in lib.taken_edges(po, pc.bb):
                            if lib.switch_on(po, g, c.dest["l"]):
                                t = po.term(g)
                                neg = any(v == "0" and x == s2 for v, x in t["tg"])
            else:
                # iterator form: the closure is the predicate of a filter over keys() and returns !contains(..)
                ret = [st for bi, si, st in cb.stmts() if "lhs" in st and st["lhs"]["l"] == 0 and not st["lhs"]["p"]]
                isnot = len(ret) == 1 and ret[0]["rv"]["k"] == "un" and ret[0]["rv"]["op"] == "Not" and lib.switch_on_operand(cb, ret[0]["rv"]["o"], c.dest["l"])
                filt = [fc for fc in po.calls if re.search(r"Iterator::filter$", fc.fn or "") and cb.path in (fc.full or "") + po.oname(fc.args[1], 3)]
                neg = isnot and len(filt) == 1
        ok = len(cont) == 1 and len(rm) == 1 and len(keys) == 1 and neg
        # retain form: `objects.retain(|id, _| { keep = refs.contains(id); if !keep { ids.push(*id) }; keep })` — one pass, the
        # closure's result is the membership test itself and the id is noted on the not-contained edge only
        ret_calls = [c for c in po.calls if re.search(r"BTreeMap::<.*>::retain$", c.fn or "") and (lib.origin_local(F, po, c.args[0]) or (0, 0, []))[2][-1:] and
                     lib.origin_local(F, po, c.args[0])[2][-1].get("n") == "objects"]
        if not ok and len(cont) == 1 and len(ret_calls) == 1 and not rm and cont[0][0] is not po:
            cb, c = cont[0]
            rets = [st for bi, si, st in cb.stmts() if "lhs" in st and st["lhs"]["l"] == 0 and not st["lhs"]["p"]]
            keeps = len(rets) >= 1 and all(st["rv"]["k"] == "use" and lib.switch_on_operand(cb, st["rv"]["o"], c.dest["l"]) for st in rets)
            pneg = False
            for pc in cb.calls:
                if re.search(r"Vec::<.*>::push$", pc.fn or ""):
                    for g, s2 in lib.taken_edges(cb, pc.bb):
                        if lib.switch_on(cb, g, c.dest["l"]):
                            t = cb.term(g)
                            pneg = any(v == "0" and x == s2 for v, x in t["tg"])
            ok = keeps and pneg and (cb.path in (ret_calls[0].full or "") + po.oname(ret_calls[0].args[1], 3))
    ctx.ob("R-ORDER", "prune-exactly-unreachable", ok, "ids = keys not contained in traverse_objects(); exactly those are removed", po.where(),
           what="prune_objects no longer removes exactly the keys that traverse_objects() does not reach")
    # 4. delete_pages: Count - 1 along the Parent chain
    dp = F.fn("Document::delete_pages")
    sets = [(k, v, c) for k, v, c in lib.dict_sets(dp) if k == b"Count"]
    okc = len(sets) == 1 and re.search(r"Sub\(count,1\)", dp.oname(sets[0][1], 5)) is not None
    par = [c for b2 in F.with_closures(dp) for c in lib.local_calls(F, b2, "Dictionary::get") if lib._const_bytes_through(b2, c.args[1]) == b"Parent"]
    inloop = okc and any(sets[0][2].bb in bl for bl in dp.loops().values())
    ctx.ob("R-ORDER", "count-decremented-up-the-chain|delete_pages", okc and inloop and len(par) >= 2, "Count = count - 1 inside the loop that follows Parent", dp.where(),
           what="delete_pages no longer decrements /Count on every ancestor of the deleted page")
    # 4b. every deleted page gets its whole Parent chain: a counter that cuts the walk short (a guard against cyclic chains) is
    # renewed for each page — one initialised before the loop over the pages is a budget shared by all of them, and the
    # Counts of the pages deleted after it ran out are left too high
    shared = []
    if sets:
        cset = sets[0][2]
        loops_dp = dp.loops()
        outer = None
        for h, bl in sorted(loops_dp.items(), key=lambda kv: -len(kv[1])):
            if cset.bb in bl:
                outer = bl
                break
        for gd, tr in inv.rendered_guards(dp, cset.bb):
            m = re.match(r"^(Eq|Ne|Lt|Le|Gt|Ge)\((\w+),\d+\)$", gd)
            if not m or outer is None:
                continue
            for l, nme in dp.names.items():
                if nme != m.group(2):
                    continue
                inits = [d for d in dp.defs.get(l, []) if not (d[2] == "rv" and d[3]["k"] == "bin" and d[3]["op"].startswith(("Sub", "Add")))
                         and not (d[2] == "rv" and d[3]["k"] == "use" and isinstance(op_place_(d[3]["o"]), dict) and op_place_(d[3]["o"])["p"])]
                if inits and all(d[0] not in outer for d in inits):
                    shared.append(nme)
    ctx.ob("R-ORDER", "count-walk-budget-per-page|delete_pages", not shared, "no counter initialised before the loop over the pages limits the walk up the Parent chain", dp.where(),
           what="delete_pages limits the walk up the Parent chain by %s, which is initialised once for all pages: when it runs out the pages deleted afterwards are removed from /Kids but the /Count of their ancestors is no longer decremented" % shared)
    # 5. creating a Resources entry must consult the ancestors
    for fn in ("Document::get_or_create_resources", "IncrementalDocument::get_or_create_resources"):
        b = F.fn(fn)
        creates = [(k, v, c) for k, v, c in lib.dict_sets(b) if k == b"Resources"]
        scope = F.reach([b.path])
        reads_parent = False
        for q in scope:
            qb = F.bodies[q]
            for c in lib.local_calls(F, qb, "Dictionary::get"):
                if lib._const_bytes_through(qb, c.args[1]) == b"Parent":
                    reads_parent = True
        ctx.ob("R-ORDER", "no-shadowing-of-inherited-resources|%s" % fn, (not creates) or reads_parent, "creating /Resources consults the Parent chain", b.where(),
               what="%s creates an empty /Resources on a page without looking at the Parent chain: a page that inherits /Font or /XObject from its ancestors loses them as soon as add_xobject/add_graphics_state is called" % fn)
    # 5a. ... and what the ancestors hold is taken whichever way they hold it: /Resources of a /Pages node may be a direct dictionary
    # or a reference (ISO 32000-1 Table 29); the walk reads the entry itself and resolves it (get_deref + as_dict).  Going by a list
    # of object ids of resource dictionaries sees only the referenced ones
    ir = F.fn("Document::inherited_resources")
    okd = False
    for x in lib.local_scope(F, ir):
        for c in x.calls:
            if c.local and re.search(r"Dictionary::get_deref$", c.cname) and len(c.args) >= 2 and lib._const_bytes_through(x, c.args[1]) == b"Resources":
                okd = True
            if c.local and re.search(r"Dictionary::get$", c.cname) and len(c.args) >= 2 and lib._const_bytes_through(x, c.args[1]) == b"Resources" \
                    and any(c2.local and re.search(r"Document::dereference$", c2.cname) for c2 in x.calls):
                okd = True
    ctx.ob("R-ORDER", "inherited-resources-direct-or-referenced", okd, "inherited_resources reads an ancestor's /Resources entry and resolves it (direct dictionary or reference)", ir.where(),
           what="Document::inherited_resources no longer reads the /Resources entry of the ancestors itself (get_deref): resources an ancestor holds as a direct dictionary are not "
                "seen, the page gets an own /Resources without them, and the inherited fonts and graphics states are lost to it as soon as add_xobject / add_graphics_state is called")
    # 5b. an empty sub-dictionary (/XObject, /ExtGState, /Resources itself) is put into a dictionary only where the key is ABSENT:
    # the store of `Dictionary::new()` is dominated by `!has(key)` (or by `get(key)` itself being an error) for the same key —
    # any other test (is it a direct dictionary? is it non-empty?) can be true for an entry that exists and would replace it
    nsub = 0
    for fn in ("Document::add_xobject", "Document::add_graphics_state", "IncrementalDocument::add_xobject", "IncrementalDocument::add_graphics_state",
               "Document::get_or_create_resources", "IncrementalDocument::get_or_create_resources"):
        b = F.fn(fn)
        for k, v, c in lib.dict_sets(b):
            if not k:
                continue
            fresh = re.match(r"^(new\(\)|<.*Default>::default\(\)|unwrap_or_default\(.*\))$", b.oname(v, 3)) is not None
            if not fresh:
                continue
            nsub += 1
            kr = re.escape(repr(k)[1:])
            okg = False
            for gd, tr in inv.rendered_guards(b, c.bb):
                if re.match(r"^has\(&?\*?\w+,&?\*?b%s( as &\[u8\])?\)$" % kr, gd) and not tr:
                    okg = True
                if re.match(r"^is_(err|ok)\(&?get(_mut)?\(&?\*?\w+,&?\*?b%s( as &\[u8\])?\)\)$" % kr, gd) and tr == gd.startswith("is_err"):
                    okg = True
            ctx.ob("R-ORDER", "sub-dictionary-created-only-when-absent|%s|%s" % (fn, k.decode()), okg, "the empty /%s is stored only under !has(%s)" % (k.decode(), k.decode()), b.where(c.ln),
                   what="%s puts a new empty /%s into the dictionary under a condition other than the key being absent: an existing /%s (for example one held by reference) is replaced by an empty dictionary and what it contained is lost to the page" % (fn, k.decode(), k.decode()))
    ctx.floor("R-ORDER", "places that create an empty sub-dictionary of the resources", nsub, 4)
    # 5c. the incremental document looks for inherited resources in its new revision first: an ancestor that was cloned into
    # the new document and edited there supersedes its old state
    gi = F.fn("IncrementalDocument::get_or_create_resources")
    mainc = [gi.oname(c.args[0], 4) for c in gi.calls if c.local and c.cname.endswith("inherited_resources")]
    clc = [x.oname(c.args[0], 4) for x in F.closures_of(gi.path) for c in x.calls if c.local and c.cname.endswith("inherited_resources")]
    okn = len(mainc) == 1 and "new_document" in mainc[0] and all("prev_documents" in t for t in clc) and len(clc) <= 1
    ctx.ob("R-ORDER", "inherited-resources-new-revision-first", okn, "inherited_resources is asked of new_document first (%s), of prev_documents only as the fallback (%s)" % (mainc, clc), gi.where(),
           what="IncrementalDocument::get_or_create_resources does not look for the inherited /Resources in the new revision first (asked first: %s; fallback: %s): an ancestor cloned into the update and edited there is ignored" % (mainc, clc))
    # 6. compress / decompress keep dictionaries consistent with data
    prop_c09.length_rules(ctx, F)
    dc = F.fn("Stream::decompressed_content")
    consulted = set()
    for body in [dc, F.fn("Stream::filters")]:
        for c in lib.local_calls(F, body, "Dictionary::get"):
            k = lib._const_bytes_through(body, c.args[1])
            if k:
                consulted.add(k)
    for fn in ("Stream::decompress", "Stream::set_plain_content"):
        b = F.fn(fn)
        removed = set(lib._const_bytes_through(b, c.args[1]) for c in lib.local_calls(F, b, "Dictionary::remove"))
        ctx.ob("R-SIB", "decoded-keys-removed|%s" % fn, consulted <= removed, "%s removes %s" % (fn, sorted(x.decode() for x in removed if x)), b.where(),
               what="%s leaves %s in the dictionary although the content is now plain: a later compress() declares plain data predictor-encoded" % (fn, sorted(x.decode() for x in consulted - removed)))
    # set_object / remove_object are plain map operations
    so = F.fn("Document::set_object")
    ctx.ob("R-ORDER", "set_object-inserts-under-given-id", len([c for c in so.calls if re.search(r"BTreeMap::<.*>::insert$", c.fn or "") and so.oname(c.args[1], 2) == "id"]) == 1, "set_object inserts under the id it was given", so.where(),
           what="set_object no longer stores the object under the given id")


def outline_ids(ctx, F):
    """build_outline numbers the outline objects from a counter that starts at self.max_id and is only incremented (in
    build_outline and, through `&mut`, in outline_child); identified by data flow: the u32 local handed to outline_child
    as `&mut u32`."""
    bo = F.fn("Document::build_outline")
    oc = F.fn("Document::outline_child")
    cpar = [i for i in range(1, oc.argc + 1) if oc.lty(i).replace(" ", "") in ("&mutu32",)]
    L = None
    for c in lib.local_calls(F, bo, "Document::outline_child"):
        if len(cpar) == 1 and cpar[0] - 1 < len(c.args):
            o = lib.origin_local(F, bo, c.args[cpar[0] - 1])
            if o is not None and o[0] is bo and not o[2]:
                L = o[1]
    okb = False
    ts = []
    if L is not None:
        with bo.alpha(args=True):
            for d in bo.defs.get(L, []):
                if d[2] == "rv":
                    ts.append(bo.rvname(d[3], 3).replace("*", "").replace("&", ""))
                elif d[2] != "proj":
                    ts.append("call")
        me = None
        with bo.alpha(args=True):
            me = bo.lname(L)
        okb = ts[:1] == ["arg1.max_id"] and all(t == "arg1.max_id" or re.match(r"^Add\(%s,1\)$" % re.escape(me), t) for t in ts)
    ctx.ob("R-ORDER", "build_outline-fresh-ids", okb, "the id counter starts at self.max_id and is only incremented (%s)" % ts, bo.where(),
           what="build_outline's id counter is not (self.max_id, then += 1 only) but %s: an id handed out by new_object_id() and not stored yet, or any id above the stored objects, can be given to an outline object as well" % ts)
    ups = []
    if len(cpar) == 1:
        for bi, si, st in oc.stmts():
            if "lhs" in st and st["lhs"]["p"] == ["*"]:
                rp = oc.root_place(st["lhs"], through_names=True)
                if rp["l"] == cpar[0]:
                    with oc.alpha(args=True):
                        ups.append(oc.rvname(st["rv"], 3).replace("*", "").replace("&", ""))
    ctx.ob("R-ORDER", "outline_child-fresh-ids", bool(ups) and all(t == "Add(arg%d,1)" % cpar[0] for t in ups), "outline_child only increments the shared counter (%d sites)" % len(ups), oc.where(),
           what="outline_child changes the shared id counter other than by += 1 (%s)" % ups)


def content_replacement(ctx, F):
    """change_page_content puts the new content in place whatever the page had: a single stream (referenced directly or as
    the only element of an array) is rewritten, and EVERY other array — two streams, ten, or none — is replaced by one new
    stream.  The only question asked about the array is therefore `len == 1`; a test that also sets the empty array apart
    (`len > 1`, `first()`, `is_empty()`) leaves a page with `/Contents []` unchanged while reporting success."""
    cp = F.fn("Document::change_page_content")
    scope = lib.local_scope(F, cp)
    hv = set()
    for x in scope:
        hv |= lib.handled_variants(x, "object::Object")
    ctx.ob("R-SIB", "contents-forms|change_page_content", {"Reference", "Array"} <= hv, "change_page_content has arms for a reference and an array", cp.where(),
           what="change_page_content has no arm for /Contents given as %s: the edit is silently dropped for such pages" % sorted({"Reference", "Array"} - hv))
    lens, odd = [], []
    for x in scope:
        for bi in range(x.n):
            t = x.term(bi)
            if t["k"] != "switch":
                continue
            with x.alpha():
                cnd = x.sname(t["d"], 5).replace("&", "").replace("*", "")
            if "len(" in cnd:
                (lens if re.match(r"^(Eq|Ne)\(len\(.*\),1\)$", cnd) else odd).append(cnd[:60])
        for c in x.calls:
            if re.search(r"(slice::<impl \[T\]>|Vec::<.*>)::(first|last|is_empty|split_first|split_last)$", c.fn or c.name):
                odd.append((c.fn or c.name).rsplit("::", 1)[-1] + "()")
    ctx.ob("R-ORDER", "array-replaced-unless-single|change_page_content", bool(lens) and not odd,
           "the only test on the /Contents array is len == 1 (%s)" % lens, cp.where(),
           what="change_page_content asks more of the /Contents array than `len == 1` (%s): an array that is neither a single stream nor covered by the other test "
                "(the empty array) falls through, the page keeps no content at all and the call reports success" % (odd or "the len == 1 test is gone"))


def content_edits(ctx, F):
    """Appending content to a page keeps what is there: /Contents is either a reference to one stream or an array of them
    (ISO 32000-1 Table 30; both are what get_page_contents reads), and add_page_contents carries both forms over into the new
    array — a form it has no arm for falls into the default `vec![]` and the page's earlier content is dropped."""
    ap = F.fn("Document::add_page_contents")
    hv = set()
    for x in lib.local_scope(F, ap):
        hv |= lib.handled_variants(x, "object::Object")
    gp = F.fn("Document::get_page_contents")
    rv_ = set()
    for x in lib.local_scope(F, gp):
        rv_ |= lib.handled_variants(x, "object::Object")
    need = {"Reference", "Array"}
    ctx.ob("R-SIB", "contents-forms|add_page_contents", need <= hv, "add_page_contents has arms for %s (get_page_contents reads %s)" % (sorted(hv & need), sorted(rv_ & need)), ap.where(),
           what="add_page_contents has no arm for /Contents given as %s: the content streams the page already has are replaced by the appended one (and pruned later) instead of being kept in front of it" % sorted(need - hv))
    # ... and every element of the array is listed, in order and as often as it occurs: inside the loop over the array the push
    # stands under no test but "there is a next element" and "it is a reference"
    import inv as _inv
    extra = []
    npush = 0
    for x in lib.local_scope(F, gp):
        loops_ = x.loops()
        for c in x.calls:
            if not re.search(r"Vec::<.*>::push$", c.fn or ""):
                continue
            inl = [bl for h, bl in loops_.items() if c.bb in bl]
            if not inl:
                continue
            npush += 1
            bl = min(inl, key=len)
            for g, s2 in lib.taken_edges(x, c.bb):
                if g not in bl:
                    continue
                r = x.sname(x.term(g)["d"], 5)
                if not re.match(r"^discr\((?:<.*?Iterator>::next|(?:\w+::)*as_reference)\(", r):
                    extra.append("line %d: %s" % (c.ln, r[:80]))
    if npush == 0:
        # the list is built by an iterator chain instead of a loop: nothing in the chain may drop or reorder elements other than
        # "it is not a reference" (filter_map over as_reference)
        for x in lib.local_scope(F, gp):
            for c in x.calls:
                if re.search(r"iter::Iterator::(filter|skip|skip_while|take|take_while|step_by|rev|dedup\w*)$|itertools::.*::(unique|dedup)\w*$|Vec::<.*>::(dedup\w*|retain|sort\w*)$", c.fn or ""):
                    extra.append("line %d: %s" % (c.ln, (c.fn or "").rsplit("::", 1)[-1]))
        npush = 1 if any(re.search(r"iter::Extend::extend$|Vec::<.*>::extend$|iter::Iterator::collect$|Vec::<.*>::extend_from_slice$", c.fn or "") for x in lib.local_scope(F, gp) for c in x.calls) else 0
    ctx.ob("R-ORDER", "contents-listed-in-full|get_page_contents", npush >= 1 and not extra, "the push of a content stream id inside the loop depends only on the element being a reference", gp.where(),
           what="get_page_contents does not list every element of a /Contents array (%s): a stream named twice, or one the extra test rejects, is missing from the page's content and is lost when the content is rewritten" % (extra or "no push in a loop"))
    ctx.ob("R-SIB", "contents-forms|get_page_contents", need <= rv_, "get_page_contents reads a reference and an array", gp.where(),
           what="get_page_contents no longer reads /Contents given as %s" % sorted(need - rv_))


def op_place_(o):
    from mir import op_place
    return op_place(o)


def run(ctx):
    _run(ctx)
    content_edits(ctx, ctx.facts("default"))
    content_replacement(ctx, ctx.facts("default"))
    # the incremental variants of the resource helpers: what they store into the update
    import prop_c07
    prop_c07.update_stores_copies_only(ctx, ctx.facts("default"))
    # renumbering is an editing operation too: the structural rules of C10 are part of "editing keeps the document sound"
    import prop_c10
    prop_c10.run(ctx, dangling_clause=False)   # "a reference that resolved to nothing still resolves to nothing" is C10's clause, not C11's


def id_rules(ctx, F):
    """identifier allocation: who assigns Document.max_id and with which term; add_object / new_object_id hand out max_id + 1;
    renumbering leaves max_id = the last assigned number on EVERY path to its end."""
    R = "R-WHO"
    seen = 0
    for p, b in sorted(F.bodies.items()):
        fn = F.canon_of(b)
        for bi, si, s in lib.stores_to_field(b, "max_id", "Document"):
            seen += 1
            t = b.rvname(s["rv"], 4) if si != "T" else "call:" + s.name
            rx = MAX_ID_WRITERS.get(fn)
            ctx.ob(R, "max_id-writer|%s" % fn, rx is not None and re.match(rx, t) is not None, "%s assigns max_id = %s" % (fn, t), b.where(),
                   what="%s assigns Document.max_id = %s, which is not one of the reviewed monotone allocations: a later add_object/new_object_id can hand out an id that is already in use" % (fn, t))
        for bi, s, fields in lib.struct_literals(b, "Document"):
            if "max_id" in fields:
                seen += 1
                t = b.oname(fields["max_id"], 3)
                rx = MAX_ID_LITERALS.get(fn)
                ctx.ob(R, "max_id-literal|%s" % fn, rx is not None and re.match(rx, t) is not None, "%s initialises max_id = %s" % (fn, t), b.where(s["ln"]),
                       what="%s builds a Document with max_id = %s" % (fn, t))
    ctx.floor(R, "writers of Document.max_id", seen, 9)
    # add_object: the inserted key is the new max_id
    ao = F.fn("Document::add_object")
    ins = [c for c in ao.calls if re.search(r"BTreeMap::<.*>::insert$", c.fn or "")]
    st = lib.stores_to_field(ao, "max_id", "Document")
    ok = len(ins) == 1 and len(st) == 1 and lib.before(ao, (st[0][0], st[0][1]), (ins[0].bb, "T"))
    if ok:
        idl = op_place(lib.trace_operand(ao, ins[0].args[1]))
        d = ao.single_def(idl["l"]) if idl is not None and not idl["p"] else None
        ok = d is not None and d[2] == "rv" and re.match(r"^tuple\(\*self\.max_id,0\)$", ao.rvname(d[3], 3)) is not None and lib.before(ao, (st[0][0], st[0][1]), (d[0], d[1]))
    ctx.ob("R-ORDER", "add_object-key-is-new-max_id", ok, "max_id += 1; id = (max_id, 0); objects.insert(id, ..)", ao.where(),
           what="add_object does not insert under the freshly incremented max_id (an existing object can be overwritten)")
    no = F.fn("Document::new_object_id")
    rets = [no.rvname(s["rv"], 3) for bi, si, s in no.stmts() if "lhs" in s and s["lhs"]["l"] == 0 and not s["lhs"]["p"]]
    st = lib.stores_to_field(no, "max_id", "Document")
    ctx.ob("R-ORDER", "new_object_id-returns-new-max_id", rets == ["tuple(*self.max_id,0)"] and len(st) == 1, "returns (max_id, 0) after max_id += 1", no.where(),
           what="new_object_id does not return the freshly incremented max_id")
    rn = F.fn("Document::renumber_objects_with")
    st = [bi for bi, si, s_ in lib.stores_to_field(rn, "max_id", "Document")]
    rets = [bi for bi in range(rn.n) if rn.term(bi)["k"] == "return" and bi in rn.reachable()]
    # every normal path from the entry to a return passes the assignment
    okp = bool(st) and bool(rets)
    if okp:
        seen_, work = set(), [0]
        while work:
            x = work.pop()
            if x in seen_ or x in st:
                continue
            seen_.add(x)
            work.extend(rn.succ[x])
        okp = not any(r in seen_ for r in rets)
    ctx.ob("R-ORDER", "renumber-sets-max_id-on-every-path", okp, "every path through renumber_objects_with assigns max_id", rn.where(),
           what="renumber_objects_with can return without assigning max_id (an early return): after renumbering a document whose max_id was stale (objects inserted directly, as the merge recipe does) "
                "the next add_object / encrypt / save hands out an id that is in use")
