"""mustpass.py — R-PATH: what a function does on *every* successful path, and on *every* turn of a loop, it keeps doing.

A well-meant addition — a fast path (`if already_done { return Ok(()) }`), a defensive `break`, a "skip if empty" `continue`, a
shortcut for a special case — removes nothing and changes no existing statement; what it changes is that something which used to
happen always now happens only sometimes.  This rule family records, for every function of the reviewed tree,

  * its must-pass set: the calls (crate-local callees by canonical name, and a fixed list of std effects: push / insert / extend /
    write_all / ...) that lie on every path from the entry to a *successful* return (a return whose value is not `Err(..)` /
    `from_residual(..)`), and
  * its every-turn set: the calls that lie on every cycle of a loop they stand in,

(tables/mustpass.json, regenerated from the reviewed tree by tools/mk_mustpass.py) and reports a call that is still made by the
function but no longer on every successful path / every turn.  A call that disappeared from the function altogether is not
reported here (that is an omission or a refactoring: the rules that demand the call report it); a function or loop that no
longer exists is not reported either.  So the rule cannot fire on a restructuring that keeps the call unconditional, and it does
not depend on how the condition that now guards the call is written.

Functions are taken in the reviewed view (new private helpers inlined, renames resolved), closures under the path of their parent
with their index; a closure whose parent changed its number of closures is skipped.
"""
import json
import os
import re

import lib
from mir import op_place

V = os.path.dirname(os.path.dirname(os.path.abspath(__file__)))

STD_EFFECTS = re.compile(
    r"(Vec::<.*>::(push|pop|insert|extend_from_slice|append|remove|swap_remove|retain|truncate|clear|sort\w*|dedup\w*|drain)"
    r"|VecDeque::<.*>::(push_back|push_front|pop_front|pop_back)"
    r"|(BTreeMap|HashMap|IndexMap|BTreeSet|HashSet)::<.*>::(insert|remove|clear|retain|extend|append|entry)"
    r"|iter::Extend::extend|io::Write::(write_all|write_fmt|flush)|String::(push|push_str)"
    r"|iter::IntoIterator::into_iter|iter::Iterator::(for_each|try_for_each)"
    r"|mem::(swap|replace|take))$")


def effect_name(F, c, self_path=None):
    """the name a call is recorded under, or None when it is not recorded: crate-local functions that can change something
    (a `&mut` parameter) and the function's own recursive calls.  Accessors and std calls are not recorded: replacing one of
    several equivalent reads or writes by another (`has` by `get`, `write!` by `write_all`) is what refactorings do."""
    if not (c.local and c.name in F.bodies):
        return None
    n = c.cname
    if "{closure" in n:
        return None
    cb = F.bodies[c.name]
    if c.name == self_path:
        return n
    if any(cb.lty(i).startswith("&mut") for i in range(1, cb.argc + 1)):
        return n
    return None


def failure_blocks(b):
    """blocks in which an error value is made: `Err(..)` built, `from_residual(..)` called — for the return place or for the
    result of an inlined helper (whose error the caller hands on one step later)"""
    out = set()
    for bi, si, st in b.stmts():
        rv = st.get("rv")
        if rv and rv["k"] == "agg" and rv["kind"].get("var") == "Err":
            out.add(bi)
    for c in b.calls:
        if (c.fn or "").endswith("from_residual"):
            out.add(c.bb)
    return out


def success_returns(b):
    """return blocks that can be reached from the entry without passing a block that stores an error in the return place"""
    fail = failure_blocks(b)
    rets = [bi for bi in range(b.n) if b.term(bi)["k"] == "return"]
    out = []
    for r in rets:
        if r in fail:
            continue
        if r == 0 or b.can_reach(0, r, avoid=fail):
            out.append(r)
    return out, fail


def recorded_calls(F, b):
    """{name: blocks}: recorded callees, and one pseudo-effect per loop (`loop{callees made inside}`, at the loop's header) so
    that "the arm always runs the loop over the elements" can be said without naming the iterator calls"""
    calls = {}
    for c in b.calls:
        n = effect_name(F, c, b.path)
        if n is not None:
            calls.setdefault(n, set()).add(c.bb)
    loops = b.loops()
    for h, bl in loops.items():
        inside = sorted(n for n, bbs in calls.items() if not n.startswith("loop{") and bbs & bl)
        if inside:
            calls.setdefault("loop{%s}" % ",".join(inside), set()).add(h)
    return calls


def summarise(F, b):
    """(must-pass set, names with a loop turn that avoids them, all recorded names, loops) of one body"""
    import term
    calls = recorded_calls(F, b)
    rets, fail = success_returns(b)
    mp = set()
    if rets:
        for n, bbs in calls.items():
            if n.startswith("loop{"):
                continue          # whether a loop is reached at all may depend on there being elements (`if let Some((first, rest))`)
            without = any(r not in bbs and (r == 0 or b.can_reach(0, r, avoid=set(bbs) | fail)) for r in rets)
            if 0 in bbs or not without:
                mp.add(n)
    loops = b.loops()

    def innermost(x):
        c_ = [(len(bl), h) for h, bl in loops.items() if x in bl]
        return min(c_)[1] if c_ else None
    turn_ok, turn_bad = set(), set()
    for n, bbs in calls.items():
        if n.startswith("loop{"):
            continue
        hs = {innermost(x) for x in bbs}
        hs.discard(None)
        for h in hs:
            # a turn that fails (`?`) does not count as a turn that skipped the call
            if term.every_cycle_passes(b, h, loops[h], (bbs & loops[h]) | (fail & loops[h])):
                turn_ok.add(n)
            else:
                turn_bad.add(n)
    turn_ok -= turn_bad
    linfo = []
    for h, bl in sorted(loops.items()):
        inside = sorted(n for n, bbs in calls.items() if not n.startswith("loop{") and bbs & bl)
        exits = set()
        for x in bl:
            for y in b.succ[x]:
                if y in bl or y in fail:
                    continue
                if y in rets or any(b.can_reach(y, r, avoid=fail) for r in rets):
                    exits.add((x, y))
        linfo.append((inside, len({x for x, y in exits})))
    return mp, (turn_ok, turn_bad), set(calls), linfo


def arm_sets(F, b):
    """{Enum::Variant: recorded names that are passed, once a `match` took the arm it gives that variant of a crate-local enum,
    before the function returns successfully or the loop the match stands in goes round again}"""
    calls = recorded_calls(F, b)
    rets, fail = success_returns(b)
    loops = b.loops()
    out = {}
    for bi in range(b.n):
        t = b.term(bi)
        if t["k"] != "switch":
            continue
        p = op_place(t["d"])
        d = b.single_def(p["l"]) if p is not None and not p["p"] else None
        if not (d and d[2] == "rv" and d[3]["k"] == "discr" and d[3].get("vars")):
            continue
        ety = d[3].get("ety") or ""
        if ety.startswith(("std::", "core::", "alloc::")):
            continue
        names = {str(v): n for v, n in d[3]["vars"]}
        succs = [x for _v, x in t["tg"]] + [t["else"]]
        for v, x in t["tg"]:
            if x == t["else"] or succs.count(x) != 1 or len(b.pred[x]) != 1 or str(v) not in names:
                continue
            key = "%s::%s" % (ety.rsplit("::", 1)[-1], names[str(v)])
            c_ = [(len(bl), h) for h, bl in loops.items() if x in bl]
            head = min(c_)[1] if c_ else None
            ends = set(rets) | ({head} if head is not None else set())
            reach_end = [r for r in ends if r == x or b.can_reach(x, r, avoid=fail)]
            if not reach_end:
                continue
            must = set()
            for n, bbs in calls.items():
                if x in bbs or not any(r not in bbs and (r == x or b.can_reach(x, r, avoid=set(bbs) | fail)) for r in reach_end):
                    must.add(n)
            out[key] = (out[key] & must) if key in out else must
    return out


def key_of(F, b):
    return F.canon_of(b)


def compute(F):
    out = {}
    nclos = {}
    for p, b in F.bodies.items():
        if b.kind == "Closure":
            par = p.split("::{closure")[0]
            nclos[par] = nclos.get(par, 0) + 1
    for p, b in F.bodies.items():
        k = key_of(F, b)
        mp, (turn_ok, turn_bad), allc, linfo = summarise(F, b)
        arms = {k_: sorted(v_) for k_, v_ in arm_sets(F, b).items() if v_}
        if not mp and not turn_ok and not arms and not [1 for ins, ex in linfo if ins]:
            continue
        ent = {"file": b.file, "mp": sorted(mp), "turn": sorted(turn_ok), "loops": [[ins, ex] for ins, ex in linfo if ins], "arms": arms}
        if b.kind == "Closure":
            ent["nclos"] = nclos.get(p.split("::{closure")[0], 0)
        if k in out:
            # several bodies under one canonical name (impls of one trait for several types): what holds for all of them
            o = out[k]
            o["mp"] = sorted(set(o["mp"]) & set(ent["mp"]))
            o["turn"] = sorted(set(o["turn"]) & set(ent["turn"]))
            o["arms"] = {a_: sorted(set(o["arms"][a_]) & set(ent["arms"][a_])) for a_ in set(o["arms"]) & set(ent["arms"])}
            o["loops"] = []
        else:
            out[k] = ent
    return out, nclos


def load_table(cfg="default"):
    p = os.path.join(V, "tables", "mustpass.json" if cfg == "default" else "mustpass-%s.json" % cfg)
    if not os.path.exists(p):
        return None
    with open(p) as f:
        return json.load(f)


def prop_files(prop):
    for line in open(os.path.join(V, "properties.jsonl")):
        d = json.loads(line)
        if d["id"] == prop:
            return set(d.get("anchors", {}).get("files", []))
    return set()


def witness(b, bbs, fail):
    """a successful return reachable without the call, and the last branch on the way (for the report)"""
    rets, _ = success_returns(b)
    for r in rets:
        if r in bbs:
            continue
        if r == 0 or b.can_reach(0, r, avoid=set(bbs) | fail):
            # the branch: a switch block from which one edge avoids the call and the other does not
            return r
    return None


def run(ctx, F, prop, cfg="default"):
    tab = load_table(cfg)
    if tab is None:
        ctx.finding("R-PATH", "table-missing|%s" % cfg, "the must-pass table of configuration %s is missing" % cfg)
        return
    files = prop_files(prop)
    nclos = {}
    multi = {}
    for p, b in F.bodies.items():
        if b.kind == "Closure":
            par = p.split("::{closure")[0]
            nclos[par] = nclos.get(par, 0) + 1
        multi[key_of(F, b)] = multi.get(key_of(F, b), 0) + 1
    nf = 0
    for p, b in sorted(F.bodies.items()):
        if b.file not in files:
            continue
        k = key_of(F, b)
        ent = tab.get(k)
        if ent is None or multi.get(k, 0) != 1:
            continue
        if b.kind == "Closure" and ent.get("nclos") != nclos.get(p.split("::{closure")[0], 0):
            continue            # closures of this parent were added or removed: indices do not correspond
        nf += 1
        mp, (turn_ok, turn_bad), allc, linfo = summarise(F, b)
        _, fail = success_returns(b)
        calls = recorded_calls(F, b)
        for g in ent["mp"]:
            if g not in allc:
                continue
            ok = g in mp
            ln = None
            if not ok:
                r = witness(b, calls.get(g, set()), fail)
                ln = b.term(r).get("ln") if r is not None else None
            ctx.ob("R-PATH", "must-pass|%s|%s" % (k, g[:90]), ok, "%s passes %s on every successful path" % (k, g), b.where(ln),
                   what="%s used to pass %s on every path that ends in success; now a successful return (line %s) is reachable without it: a fast path, an early return or a new condition skips it"
                        % (k, g, ln))
        for g in ent["turn"]:
            if g not in allc:
                continue
            ctx.ob("R-PATH", "every-turn|%s|%s" % (k, g[:90]), g not in turn_bad, "%s calls %s on every turn of the loop it stands in" % (k, g), b.where(),
                   what="%s used to call %s on every turn of the loop it stands in; now a turn can go round without it: a new `continue` or condition skips it for some elements" % (k, g))
        cur_arms = arm_sets(F, b) if ent.get("arms") else {}
        for ak, gs in sorted(ent.get("arms", {}).items()):
            if ak not in cur_arms:
                continue                  # the match has no arm of its own for this variant any more: the variant rules report that
            for g in gs:
                if g not in allc:
                    continue
                ctx.ob("R-PATH", "arm|%s|%s|%s" % (k, ak, g[:90]), g in cur_arms[ak], "%s: the arm for %s always passes %s" % (k, ak, g), b.where(),
                       what="in %s the arm for %s used to pass %s before the function succeeds or the loop goes round again; now the arm can finish without it: a shortcut inside the arm skips the work for some values" % (k, ak, g))
        # ways out of a loop: a loop of the reviewed tree is recognised by the calls made inside it
        for ins, ex in linfo:
            if not ins:
                continue
            cands = [(rins, rex) for rins, rex in ent.get("loops", []) if set(rins) == set(ins)]
            if len(cands) != 1:
                continue
            ctx.ob("R-PATH", "loop-exits|%s|%s" % (k, ",".join(ins)[:90]), ex <= cands[0][1], "the loop around %s has %d way(s) out that do not report an error (reviewed: %d)" % (ins[:3], ex, cands[0][1]), b.where(),
                   what="the loop of %s that calls %s can now be left in %d way(s) that do not report an error (it had %d): a new `break` / early `return Ok` ends the work before every element was handled"
                        % (k, ins[:4], ex, cands[0][1]))
    ctx.floor("R-PATH", "functions of the anchored files with a reviewed summary", nf, 1)
