"""symeval.py — constant folding of an integer expression slice.

`Eval(F, body, leaf).val(operand)` computes the integer an operand denotes by folding the expressions that define it
(constants, copies, integer casts, arithmetic, max/min, checked arithmetic, Option/Result plumbing that passes the value
on unchanged).  Values the function reads from outside (a dictionary entry, a parameter) are supplied by `leaf`: it is
given the defining call (or the operand) and returns an int, or None when it does not recognise it.  Nothing is executed:
this is the arithmetic the compiler would do if the leaves were constants.  `val` returns None when any step is not
understood, and the rule using it fails closed.
"""
import re
from mir import op_place, op_const, const_int

PASS1 = ("ok_or", "ok_or_else", "unwrap", "expect", "branch", "unwrap_or_default", "into", "from", "ok", "clone", "try_into", "try_from")
INT_BITS = {"u8": 8, "u16": 16, "u32": 32, "u64": 64, "usize": 64, "i8": 8, "i16": 16, "i32": 32, "i64": 64, "isize": 64}


def wrap(v, ty):
    if v is None or ty not in INT_BITS:
        return v
    bits = INT_BITS[ty]
    v &= (1 << bits) - 1
    if ty.startswith("i") and v >= 1 << (bits - 1):
        v -= 1 << bits
    return v


class Eval:
    def __init__(self, F, body, leaf):
        self.F = F
        self.b = body
        self.leaf = leaf
        self.trace = []
        self.closure_env = None

    @staticmethod
    def _bails(d):
        """a store of `None` / `Err(..)` / `from_residual(..)`: the early exit of a `?`, not the value"""
        return (d[2] == "rv" and d[3]["k"] == "agg" and d[3]["kind"].get("var") in ("None", "Err")) or \
               (d[2] == "call" and (d[3]["f"].get("fn") or "").endswith("from_residual"))

    def the_def(self, l):
        d = self.b.single_def(l)
        if d is not None:
            return d
        ds = [d for d in self.b.defs.get(l, []) if d[2] != "proj" and not self._bails(d)]
        if len(ds) == 1 and not [d for d in self.b.defs.get(l, []) if d[2] == "proj"]:
            return ds[0]           # the value on the path that does not bail out
        return None

    def val(self, o, depth=64, pend=()):
        k = op_const(o)
        if k is not None:
            return const_int(k)
        p = op_place(o)
        if p is None or depth <= 0:
            return None
        if self.closure_env is not None:
            # inside a closure being folded: _2 is the bound parameter, (*_1).k the k-th captured value of the enclosing body
            outer, caps, v = self.closure_env
            pr = [e for e in p["p"] if e != "*"] + list(pend)
            if p["l"] == 2 and not pr:
                return v
            if p["l"] == 1 and pr and isinstance(pr[0], dict) and "f" in pr[0] and pr[0]["f"] < len(caps):
                return outer.val(caps[pr[0]["f"]], depth - 1, pr[1:])
        lv = self.leaf(self.b, "operand", o) if not pend else None
        if lv is not None:
            return lv
        proj = [e for e in p["p"] if e != "*"] + list(pend)
        # payload projections of Option/Result/ControlFlow and field 0 of a checked-arithmetic tuple denote the value itself;
        # a field of a struct or tuple built from several values denotes that component
        for e in proj:
            if not (isinstance(e, dict) and ("f" in e or "v" in e or "downcast" in e or e.get("k") == "downcast")):
                return None
        d = self.the_def(p["l"])
        if d is None:
            return None
        if d[2] == "rv":
            rv = d[3]
            # payload fields of Option / Result / ControlFlow wrappers are not components of a struct or tuple
            flds = [e for e in proj if "f" in e and not re.search(r"(Option|Result|ControlFlow)(::\w+)?$|::(Some|Ok|Err|Continue|Break)$", e.get("adt") or "")]
            if rv["k"] == "agg" and len(rv["ops"]) == 1 and rv["kind"].get("a") == "adt" and rv["kind"].get("var") in ("Some", "Ok", "Continue"):
                return self.val(rv["ops"][0], depth - 1, flds)       # Some(x) / Ok(x): the pending struct fields go on to x
            if rv["k"] == "agg" and len(rv["ops"]) > 1 and rv["kind"].get("a") in ("tuple", "adt"):
                if not flds or flds[0]["f"] >= len(rv["ops"]):
                    return None
                i = proj.index(flds[0])
                return self.val(rv["ops"][flds[0]["f"]], depth - 1, proj[i + 1:])
            if rv["k"] == "use":
                return self.val(rv["o"], depth - 1, proj)
            if rv["k"] == "ref":
                return self.val({"c": rv["p"]}, depth - 1, proj)
            return self.rv(rv, depth - 1)
        if d[2] == "call":
            return self.call(d[3], depth - 1, proj)
        return None

    def rv(self, rv, depth):
        k = rv["k"]
        if k == "use":
            return self.val(rv["o"], depth)
        if k == "cast" and rv["kind"].startswith("IntToInt"):
            return wrap(self.val(rv["o"], depth), rv.get("ty"))
        if k == "ref":
            return self.val({"c": rv["p"]}, depth)
        if k == "agg" and len(rv["ops"]) == 1 and rv["kind"].get("a") == "adt":
            return self.val(rv["ops"][0], depth)       # Some(x) / Ok(x)
        if k == "bin":
            a, c = self.val(rv["a"], depth), self.val(rv["b"], depth)
            if a is None or c is None:
                return None
            op = rv["op"].replace("WithOverflow", "").replace("Unchecked", "")
            try:
                if op == "Add":
                    return a + c
                if op == "Sub":
                    return a - c
                if op == "Mul":
                    return a * c
                if op == "Div":
                    return int(a / c) if c else None
                if op == "Rem":
                    return (abs(a) % abs(c)) * (1 if a >= 0 else -1) if c else None
                if op == "BitAnd":
                    return a & c
                if op == "BitOr":
                    return a | c
                if op == "Shl":
                    return a << c
                if op == "Shr":
                    return a >> c
            except Exception:
                return None
        return None

    def call(self, t, depth, pend=()):
        lv = self.leaf(self.b, "call", t)
        if lv is not None:
            return lv
        fn = t["f"].get("fn") or ""
        short = fn.rsplit("::", 1)[-1]
        args = t["args"]
        if short in ("max", "min") and len(args) == 2:
            a, c = self.val(args[0], depth), self.val(args[1], depth)
            if a is None or c is None:
                return None
            return max(a, c) if short == "max" else min(a, c)
        if re.match(r"(checked|wrapping|saturating|overflowing|strict)_(add|sub|mul|div)$", short) and len(args) == 2:
            a, c = self.val(args[0], depth), self.val(args[1], depth)
            if a is None or c is None:
                return None
            op = short.rsplit("_", 1)[-1]
            return {"add": a + c, "sub": a - c, "mul": a * c, "div": int(a / c) if c else None}[op]
        if short in ("div_ceil", "next_multiple_of") and len(args) == 2:
            a, c = self.val(args[0], depth), self.val(args[1], depth)
            if a is None or not c:
                return None
            q = -(-a // c)
            return q if short == "div_ceil" else q * c
        if short in ("and_then", "map") and len(args) == 2:
            # Option/Result combinator with a closure: bind the closure's parameter to the value at hand and fold its body
            v = self.val(args[0], depth)
            cd = self.b.def_rv(args[1])
            if v is None or not (cd and cd[2] == "rv" and cd[3]["k"] == "agg" and cd[3]["kind"].get("a") == "closure"):
                return None
            cb = self.F.bodies.get(cd[3]["kind"]["def"])
            if cb is None or cb.argc != 2:
                return None
            caps = cd[3]["ops"]
            outer = self

            def sub_leaf(b2, kind, x):
                return outer.leaf(b2, kind, x) if (kind != "operand" and b2 is outer.b) else None
            sub = Eval(self.F, cb, sub_leaf)
            sub.closure_env = (outer, caps, v)
            # the value on the path that does not bail out (`?` inside the closure adds `None` / from_residual stores to _0)
            ds = [d for d in cb.defs.get(0, []) if not self._bails(d)]
            if len(ds) != 1:
                return None
            return sub.rv(ds[0][3], depth - 1) if ds[0][2] == "rv" else sub.call(ds[0][3], depth - 1)
        if short in ("from_be_bytes", "from_le_bytes") and len(args) == 1:
            import lib
            kb = lib._const_bytes_through(self.b, args[0])
            if kb is not None:
                return int.from_bytes(kb, "big" if short == "from_be_bytes" else "little")
            return None
        if short == "len" and len(args) == 1:
            import lib
            kb = lib._const_bytes_through(self.b, args[0])
            if kb is not None:
                return len(kb)
            return None
        if short in PASS1 and len(args) >= 1:
            return self.val(args[0], depth, [e for e in pend if "f" in e and not re.search(r"(Option|Result|ControlFlow)(::\w+)?$|::(Some|Ok|Err|Continue|Break)$", e.get("adt") or "")])
        return None
