"""safety.py — the crash-freedom obligations shared by C04, C12, C13, C19: R-INV + R-TERM over a scope."""
import inv, term, scopes


def run(ctx, F, entries, optional=(), kinds=None, with_fmt=False):
    sc = scopes.scope(F, entries, optional, with_fmt=with_fmt)
    table = {fn: [r for r in rows if r.get("reason") and r["reason"] != "UNREVIEWED"] for fn, rows in inv.load_table("inventory.json").items()}
    sites, st = inv.inventory(ctx, F, sc, table, kinds=kinds)
    tst = term.check_termination(ctx, F, sc, inv.load_table("loops.json"), inv.load_table("recursion.json"))
    # memory safety by construction
    ctx.ob("R-UNSAFE", "forbid(unsafe_code)", F.forbid_unsafe(), "#![forbid(unsafe_code)] is a crate attribute",
           what="the crate no longer forbids unsafe code: memory safety is not by construction any more", nontrivial=False)
    ctx.extra.update({"scope_bodies": len(sc), "entry_points": len(entries), "sites": st["sites"], "sites_auto": st["auto"],
                      "sites_tabled": st["tabled"], "sites_open": st["open"], "loops": tst["loops"], "loops_iterator": tst["iter"],
                      "loops_verified_witness": tst["verified"], "loops_tabled": tst["tabled"], "loops_open": tst["open"],
                      "recursion_cycles": tst["sccs"], "target_pointer_width": F.d.get("ptr_width")})
    for s in sites[:0]:
        pass
    import random
    rnd = random.Random(ctx.seed)
    pick = [s for s in sites if s.status == "auto"]
    rnd.shuffle(pick)
    for s in pick[:6]:
        ctx.sample({"site": s.key, "where": s.where(), "discharged": "AUTO: " + s.how})
    pick = [s for s in sites if s.status == "tabled"]
    rnd.shuffle(pick)
    for s in pick[:4]:
        ctx.sample({"site": s.key, "where": s.where(), "discharged": "TABLED: " + s.how})
    return sc, sites, st, tst
