"""C12 — page enumeration is the depth-first order of the page tree (DESIGN §4 C12)."""
import re
import safety, scopes, lib, inv
from mir import op_place, AnchorLost

LEVEL = dict(
    level="other",
    rule_text="termination witnesses of PageTreeIter::next (counter / counter-or-pop), panic inventory over next/size_hint/kids/get_pages, "
              "`Some(id)` is returned only under a match of the node type against b\"Page\", numbering starts at 1, and the traversal "
              "skeleton that depth-first left-to-right order needs: split_first, advance-before-push, push-before-descend, LIFO pop; "
              "accessor contracts: as_dict / as_reference / as_name / as_array succeed for exactly their variant (what counts as a "
              "page-tree node goes through them); the work budget iter_limit is initialised from objects.len()",
    explanation="Decides: enumeration terminates on every graph, yields only objects whose Type is Page, numbers from 1, and the code "
                "has the push/advance/descend/pop ordering without which depth-first left-to-right order is impossible. Does not "
                "decide: that the yielded sequence equals the DFS order for a given tree (an ordering of run-time values).",
    trusted_base=["rustc MIR", "tables/loops.json witnesses are re-verified on every run", "tables/inventory.json"],
)


def run(ctx):
    F = ctx.facts("default")
    sc, sites, st, tst = safety.run(ctx, F, scopes.C12_ENTRIES)
    ctx.floor("R-TERM", "PageTreeIter loops with verified witnesses", tst["verified"], 2)
    skeleton_rules(ctx, F)


def size_hint_capped(ctx, F):
    """/Count comes from the file.  What size_hint promises is what `collect()` / `get_pages()` reserve before the first page is
    produced, so both bounds are capped by the number of objects of the document (a page is an object): min(.., objects.len())."""
    from mir import op_place
    sh = F.fn("<PageTreeIter as Iterator>::size_hint")

    def capped(o, depth=10):
        for _ in range(depth):
            q = op_place(o)
            if q is None:
                k = lib._const_int_through(sh, o)
                return k == 0
            d = sh.single_def(q["l"])
            if d is None:
                return False
            if d[2] == "rv" and d[3]["k"] in ("use", "cast"):
                o = d[3]["o"]
                continue
            if d[2] == "rv" and d[3]["k"] == "agg" and len(d[3]["ops"]) == 1:
                o = d[3]["ops"][0]          # Some(x)
                continue
            if d[2] == "call":
                fn = d[3]["f"].get("fn") or ""
                if re.search(r"cmp::(Ord::)?min$", fn) and len(d[3]["args"]) == 2:
                    return any(re.search(r"^len\(.*\.objects\)$", sh.sname(a, 6).replace("&", "").replace("*", "")) for a in d[3]["args"])
            return False
        return False
    rets = [s_ for bi, si, s_ in sh.stmts() if "lhs" in s_ and s_["lhs"]["l"] == 0 and not s_["lhs"]["p"] and s_["rv"]["k"] == "agg"]
    ok = bool(rets) and all(len(s_["rv"]["ops"]) == 2 and capped(s_["rv"]["ops"][0]) and capped(s_["rv"]["ops"][1]) for s_ in rets)
    ctx.ob("R-GUARD", "size-hint-capped-by-objects", ok, "both bounds of size_hint are min(sum of /Count, objects.len())", sh.where(),
           what="PageTreeIter::size_hint promises a number of pages taken from /Count without capping it by the number of objects: with a hostile /Count behind a page already yielded, collect() / get_pages() ask for that capacity and panic (capacity overflow) or abort")


def skeleton_rules(ctx, F):
    """the structural rules of the page iterator (everything except the panic/termination inventory): shared with the
    properties whose operations enumerate pages (renumbering, deleting pages, text extraction)."""
    nx = F.fn("<PageTreeIter as Iterator>::next")
    R = "R-ORDER"
    size_hint_capped(ctx, F)
    # rule 2: Some(_) only for Type == Page
    somes = lib.blocks_assigning_ret_variant(nx, "Some")
    ctx.floor(R, "`return Some(id)` sites in next", len(somes), 1)
    for bi, s in somes:
        m = lib.slice_matches(nx, bi)
        ok = any(v == b"Page" and ("type" in k.lower()) for k, v in m.items())
        ctx.ob(R, "only-pages|next", ok, "Some(id) at bb%d is returned under %s" % (bi, {k: v.decode('latin1') for k, v in m.items()}),
               nx.where(s["ln"]), what="PageTreeIter::next returns Some(id) without the node's Type having been matched against b\"Page\"")
        # the id returned is the id whose dictionary was type-checked
        rid = nx.oname(s["rv"]["ops"][0], 3)
        gd = [c for c in lib.calls_named(nx, r"Document::get_dictionary$") if nx.dominates(c.bb, bi)]
        ok2 = any(nx.oname(c.args[1], 3) == rid for c in gd)
        ctx.ob(R, "yielded-id-is-checked-id|next", ok2, "returned id %s is the argument of the dominating get_dictionary" % rid, nx.where(s["ln"]),
               what="the id returned by next is not the id whose Type was inspected")
    # traversal skeleton
    bodies = F.with_closures(nx)
    sf = [c for b in bodies for c in lib.calls_named(b, r"slice::<impl \[T\]>::split_first$")]
    sl = [c for b in bodies for c in lib.calls_named(b, r"slice::<impl \[T\]>::(split_last|last|pop|rsplit)")]
    ctx.ob(R, "left-to-right|split_first", len(sf) >= 1 and not sl, "kids are consumed with split_first (%d call) and never from the back" % len(sf),
           nx.where(), what="PageTreeIter::next no longer consumes Kids front-to-back with split_first")
    kstores = lib.stores_to_field(nx, "kids", "PageTreeIter")
    def rvt(x):
        return nx.rvname(x[2]["rv"], 4) if x[1] != "T" else x[2].name
    adv = [x for x in kstores if rvt(x).startswith("Option::Some{")]
    desc = [x for x in kstores if re.match(r"^kids\(", rvt(x)) or re.search(r"PageTreeIter(::<.*>)?::kids$", rvt(x))]
    resume = [x for x in kstores if x not in adv and x not in desc]
    pushes = lib.calls_named(nx, r"Vec::<.*>::push$")
    pops = lib.calls_named(nx, r"Vec::<.*>::pop$")
    ctx.floor(R, "advance store `self.kids = Some(rest)`", len(adv), 1)
    ctx.floor(R, "descend store `self.kids = kids(doc, kid_id)`", len(desc), 1)
    ctx.floor(R, "stack push", len(pushes), 1)
    ctx.floor(R, "stack pop", len(pops), 1)
    # the current list is only ever replaced by its own rest (split_first), by the kids of the node just entered, or by a
    # popped entry: installing any other list (say, the one that was just pushed) walks those siblings twice
    for x in adv:
        if x[1] == "T":
            continue
        rv_ = x[2]["rv"]
        src = nx.sname(rv_["ops"][0], 8) if rv_.get("ops") else (nx.sname(rv_["o"], 8) if "o" in rv_ else "?")
        # the second component of `split_first()` of the current list, taken directly or through `and_then(|k| k.split_first())`
        splits = any(lib.calls_named(cb_, r"slice::<impl \[T\]>::split_first$") for cb_ in F.with_closures(nx))
        is_rest = splits and re.search(r"split_first\([^()]*self\.kids.*\)@Some\.0\.1|and_then\(\*?self\.kids,closure\([^()]*\)\)@Some\.0\.1", src) is not None
        # (`self.kids = Some(self.stack.pop()?)` is the resume store written with `?`: a popped entry)
        is_rest = is_rest or re.search(r"Vec::<[^()]*>::pop\(|(^|[^\w])pop\([^()]*self\.stack", src) is not None
        ctx.ob(R, "advance-is-the-rest|next", is_rest, "self.kids = Some(rest of the current list): %s" % src[:80], nx.where(x[2]["ln"]),
               what="PageTreeIter::next installs `%s` as the current list, which is not the rest of the list it is walking: kids that are also pending on the stack are enumerated twice" % src[:120])
    if adv and desc and pushes and pops:
        a = adv[0]
        for p in pushes:
            ok = lib.before(nx, (a[0], a[1]), (p.bb, "T"))
            ctx.ob(R, "advance-before-push|next", ok, "the store of the remaining kids precedes stack.push", nx.where(p.ln),
                   what="the remainder pushed on the stack is captured before the iterator advanced past the current kid (the kid would be visited twice / order breaks)")
            # what is pushed is read from self.kids after the advance
            t = nx.oname(p.args[1], 4)
            src_ok = "self.kids" in t or "kids" in t
            ctx.ob(R, "push-remainder|next", src_ok, "pushed value is %s" % t, nx.where(p.ln), what="stack.push does not push the remaining kids")
        for d in desc:
            ok = all(not nx.can_reach(d[0], p.bb, avoid=[b0 for b0 in nx.loops().keys()]) for p in pushes)
            ctx.ob(R, "push-before-descend|next", ok, "no path from the descend store back to the push within one turn", nx.where(d[2]["ln"] if d[1] != "T" else d[2].ln),
                   what="PageTreeIter::next descends into the child before saving the remaining siblings")
            # descending uses the id of the kid whose type was matched as Pages
            m = lib.slice_matches(nx, d[0])
            okp = any(v == b"Pages" for v in m.values())
            ctx.ob(R, "descend-only-into-Pages|next", okp, "descend store is under a match against b\"Pages\"", nx.where(),
                   what="descending is no longer restricted to nodes whose Type is Pages")
        for r in resume:
            t = rvt(r)
            ctx.ob(R, "resume-from-pop|next", "pop" in t or "kids" in t, "resume store takes %s" % t, nx.where(),
                   what="after a level is exhausted the iterator does not resume from the popped stack entry")
        ctx.ob(R, "lifo|next", not lib.calls_named(nx, r"Vec::<.*>::(remove|swap_remove|drain|first|insert)$|VecDeque"), "the stack is used LIFO (push/pop only)", nx.where(),
               what="the pending-siblings stack is no longer used last-in-first-out")
    # the pending-siblings stack is bounded: either every push is dominated by `stack.len() < constant`, or every push costs one
    # unit of the iteration budget (a decrement of iter_limit, itself behind the `iter_limit == 0` exit, on every way round to the
    # next push), so that the stack cannot outgrow the number of objects
    import guard
    env_ok = False
    cut = []
    for p in pushes:
        env = guard.Env(nx)
        for fx, _ in env.dominating_edge_facts(p.bb):
            x, y, c = fx
            if x.base and "stack" in x.base and x.base.startswith("len(") and y.base is None and y.off + c <= 4096:
                env_ok = True
    for d in desc:
        env = guard.Env(nx)
        for fx, _ in env.dominating_edge_facts(d[0]):
            x, y, c = fx
            if x.base and "stack" in x.base and x.base.startswith("len(") and y.base is None:
                cut.append(y.off + c)
    decs = [x for x in lib.stores_to_field(nx, "iter_limit", "PageTreeIter") if x[1] != "T" and re.match(r"^Sub\(.*iter_limit,1\)(\.0)?$", nx.rvname(x[2]["rv"], 4))]
    budget_ok = False
    if decs and pushes:
        zero = False
        for x in decs:
            gs = inv.rendered_guards(nx, x[0])
            zero = zero or any((re.match(r"^Eq\(.*iter_limit,0\)$|^Eq\(0,.*iter_limit\)$", g) and not tr) or (re.match(r"^(Ne|Gt)\(.*iter_limit,0\)$", g) and tr) for g, tr in gs)
        db = [x[0] for x in decs]
        budget_ok = zero and all(any(nx.dominates(b0, p.bb) for b0 in db) and not nx.can_reach(p.bb, p.bb, avoid=db) for p in pushes)
    ctx.ob("R-GUARD", "stack-depth-limit|next", env_ok or budget_ok, "stack.push is dominated by stack.len() < constant, or by a unit of the iteration budget on every way round (%s)" % ("budget" if budget_ok else "constant"), nx.where(),
           what="the pending-siblings stack is not bounded any more: neither a depth limit nor the iteration budget stands between two pushes (a deep or cyclic tree grows it without bound)")
    # ... and no page is lost to a depth cut-off: descending into a /Pages node does not depend on how deep the stack is
    ctx.ob("R-GUARD", "no-depth-cutoff|next", not cut, "the descend store does not depend on stack.len()", nx.where(),
           what="PageTreeIter::next descends into a /Pages node only while fewer than %s levels have pending siblings: a well-formed page tree nested deeper loses every page below the cut, silently" % ((cut[0] + 1) if cut else "?"))
    # iter_limit initialised from objects.len()
    new = F.fn("PageTreeIter::new")
    lits = list(lib.struct_literals(new, "PageTreeIter"))
    ctx.floor(R, "PageTreeIter literals in new", len(lits), 1)
    for bi, s, fields in lits:
        t = new.oname(fields["iter_limit"], 4)
        if not ("len(" in t and "objects" in t):
            t = new.sname(fields["iter_limit"], 5)     # a local that holds the value, built once, stands for its expression
        ctx.ob(R, "iter_limit-init|new", "len(" in t and "objects" in t, "iter_limit is initialised from %s" % t, new.where(s["ln"]),
               what="iter_limit is not initialised from the number of objects: the bound on enumeration work is gone or wrong")
    # Kids may be held behind a reference: the helper that fetches them must dereference
    kb = F.fn("PageTreeIter::kids")
    der = [c for b2 in F.with_closures(kb) for c in b2.calls if c.local and re.search(r"Dictionary::get_deref$|Document::dereference$|Document::get_object$", c.cname)
           and any(lib._const_bytes_through(b2, a) == b"Kids" for a in c.args)]
    raw = [c for b2 in F.with_closures(kb) for c in b2.calls if c.local and re.search(r"Dictionary::get$", c.cname) and any(lib._const_bytes_through(b2, a) == b"Kids" for a in c.args)]
    ctx.ob(R, "kids-behind-references|kids", len(der) >= 1 and not raw, "Kids is fetched with get_deref (%d call)" % len(der), kb.where(),
           what="PageTreeIter::kids no longer resolves a /Kids entry held behind a reference: the subtree of such a node is silently dropped")
    # rule 3: numbering from 1
    gp = F.fn("Document::get_pages")
    cl = F.closures_of(gp.path)
    ok = False
    how = ""
    for c in cl:
        for bi, si, s in c.stmts():
            rv = s.get("rv")
            if rv and s["lhs"]["l"] == 0 and rv["k"] == "agg" and rv["kind"].get("a") == "tuple" and len(rv["ops"]) == 2:
                t = c.oname(rv["ops"][0], 4)
                how = t
                if re.match(r"^Add\((\w+),1\) as u32$", t):
                    ok = True
    en = lib.calls_named(gp, r"Iterator::enumerate$")
    ctx.ob(R, "numbered-from-1|get_pages", ok and len(en) == 1, "page numbers are `%s` over enumerate()" % how, gp.where(),
           what="get_pages no longer numbers pages 1..n (enumerate index + 1)")
    # what counts as a page-tree node is decided by the accessors the iterator goes through: a kid is a node only if it
    # resolves to a dictionary (get_dictionary -> as_dict), its type by Dictionary::get_type / has_type on Name objects
    for fn, want in (("Object::as_dict", {"Dictionary"}), ("Object::as_reference", {"Reference"}), ("Object::as_name", {"Name"}), ("Object::as_array", {"Array"})):
        got = lib.ok_variants(F.fn(fn))
        ctx.ob(R, "accessor-contract|%s" % fn, got == want, "%s succeeds exactly for %s" % (fn, sorted(want)), F.fn(fn).where(),
               what="%s succeeds for the variants %s instead of %s: objects of another kind are taken for page-tree nodes (e.g. a stream whose dictionary says /Type /Page is yielded as a page)"
                    % (fn, sorted(got) if got is not None else "?", sorted(want)))

