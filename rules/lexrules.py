"""lexrules.py — R-TABLE: agreement of the writer's and the reader's lexical tables (shared by C01, C02, C03, C14).

All tables are extracted from MIR: byte sets by value-set analysis of the conditions (byteset.py), format specs from the
decoded format_args! templates, escape tables from the `map(tag(lit), closure -> const)` members of the reader's `alt`."""
import re
import lib, byteset
from byteset import FULL, fmt_set, ByteVar, predicate_set
from mir import op_place, op_const, const_int, const_bytes, AnchorLost

HEX_UP = frozenset(b"0123456789ABCDEF")
HEX_ANY = frozenset(b"0123456789ABCDEFabcdef")


def named_var(b, name, nth=0):
    """is_var predicate for the nth user local called `name`."""
    ls = sorted(l for l, n in b.names.items() if n == name)
    if len(ls) <= nth:
        raise AnchorLost("no local named %s (#%d) in %s" % (name, nth, b.path))
    l = ls[nth]

    def is_var(o):
        p = op_place(o)
        return p is not None and not p["p"] and p["l"] == l
    return is_var


def rendered_var(b, rx):
    rx = re.compile(rx)

    def is_var(o):
        p = op_place(o)
        if p is None:
            return False
        return bool(rx.search(b.oname(o, 4)))
    return is_var


def array_of_var_write(b, c, bv):
    """is call c `write_all(file, &[var])`?"""
    if not re.search(r"io::Write::write_all$", c.fn or ""):
        return False
    o = c.args[1]
    for _ in range(6):
        p = op_place(o)
        if p is None:
            return False
        d = b.single_def(p["l"])
        if d is None or d[2] != "rv":
            return False
        rv = d[3]
        if rv["k"] in ("use", "cast"):
            o = rv["o"]
        elif rv["k"] == "ref":
            o = {"c": {"l": rv["p"]["l"], "p": []}}
        elif rv["k"] == "agg" and rv["kind"].get("a") == "array" and len(rv["ops"]) == 1:
            return bv._as_var(rv["ops"][0]) or ("phi" if False else False) or _is_select_of_var(b, rv["ops"][0], bv)
        else:
            return False
    return False


def _is_select_of_var(b, o, bv):
    """operand is a temp assigned on several paths, one of which is the variable (e.g. `if byte == b'\\r' { b'r' } else { byte }`)."""
    p = op_place(o)
    if p is None or p["p"]:
        return False
    defs = [d for d in b.defs.get(p["l"], []) if d[2] == "rv"]
    return len(defs) > 1 and any(d[3]["k"] == "use" and bv._as_var(d[3]["o"]) for d in defs)


def fmt_site_in_block(b, bb_set):
    return [s for s in lib.format_sites(b) if s["bb"] in bb_set]


def writer_name_tables(F):
    """(RAW_w, ESC_w, escape format pieces+args) of Writer::write_name."""
    b = F.fn("Writer::write_name")
    bv = ByteVar(F, b, named_var(b, "byte"))
    R = bv.reach_sets()
    raw = set()
    for c in b.calls:
        if array_of_var_write(b, c, bv):
            raw |= R.get(c.bb, frozenset())
    esc = set()
    fmts = []
    for s in lib.format_sites(b):
        esc |= R.get(s["bb"], frozenset())
        fmts.append(s)
    # the format site is a few blocks before the write_fmt call; take the reach set of the Arguments::new block
    return b, bv, frozenset(raw), frozenset(esc), fmts


def reader_name_tables(F):
    """(RAW_p: bytes the regular-character branch of parser::name accepts as themselves)."""
    b = F.fn("parser::name::{closure#0}")
    bv = ByteVar(F, b, rendered_var(b, r"deref\(&c\)\[0\]$"))
    R = bv.reach_sets()
    raw = set()
    ident = True
    somes = lib.blocks_assigning_ret_variant(b, "Some")
    for bi, s in somes:
        raw |= R.get(bi, frozenset())
        if not bv._as_var(s["rv"]["ops"][0]):
            ident = False
    return b, bv, frozenset(raw), ident, len(somes)


def hex_char_table(F):
    """bytes accepted by parser::hex_char's verify closure and the number of bytes it takes."""
    b = F.fn("parser::hex_char")
    takes = [const_int(op_const(b.resolve_copy(c.args[0])) or {}) for c in lib.calls_named(b, r"nom::bytes::complete::take$")]
    cl = [x for x in F.closures_of(b.path)]
    acc = None
    for c in cl:
        for call in c.calls:
            if (call.fn or "").endswith("Iterator::all"):
                # predicate passed as fn item
                k = op_const(call.args[1]) if len(call.args) > 1 else None
                nm = (k or {}).get("fn", "") if k else ""
                short = nm.rsplit("::", 1)[-1]
                if short in byteset.STD_PRED:
                    acc = byteset.STD_PRED[short]
    radix = None
    for c in cl:
        for call in c.calls:
            if (call.fn or "").endswith("from_str_radix"):
                radix = const_int(op_const(c.resolve_copy(call.args[-1])) or {})
    return takes, acc, radix


def check_names(ctx, F, rule="R-TABLE"):
    wb, wbv, RAW_w, ESC_w, fmts = writer_name_tables(F)
    pb, pbv, RAW_p, ident, nsome = reader_name_tables(F)
    ctx.ob(rule, "names|writer-partition", (RAW_w | ESC_w) == FULL and not (RAW_w & ESC_w) and not wbv.unknown,
           "write_name: raw %s, escaped %s" % (fmt_set(RAW_w), fmt_set(ESC_w)), wb.where(),
           what="write_name's raw/escape split is not a partition of the byte values that the analysis can read (raw %s, escaped %s, unknown conditions %s)" % (fmt_set(RAW_w), fmt_set(ESC_w), wbv.unknown))
    ctx.ob(rule, "names|reader-evaluable", nsome == 1 and ident and not pbv.unknown, "parser::name accepts %s as themselves" % fmt_set(RAW_p), pb.where(),
           what="parser::name's regular-character branch is not an identity over an evaluable byte set")
    bad = RAW_w - RAW_p
    ctx.ob(rule, "names|raw-subset", not bad, "RAW_w ⊆ RAW_p (%d raw byte values)" % len(RAW_w), wb.where(),
           what="write_name emits %s raw, but parser::name does not read these bytes back as themselves: a name containing them changes on reload" % fmt_set(bad))
    ctx.ob(rule, "names|hash-escaped", 0x23 not in RAW_w, "'#' is escaped", wb.where(),
           what="write_name emits '#' raw: the reader takes it as the start of a #xx escape")
    # escape spelling
    ok = False
    how = "no format site"
    if len(fmts) == 1:
        pcs, args = fmts[0]["pieces"], fmts[0]["args"]
        how = "%s with %s" % (pcs, args)
        if (len(pcs) == 2 and pcs[0] == ("lit", b"#") and pcs[1][0] == "arg" and args and args[0] in (("upper_hex", "u8"), ("lower_hex", "u8"))
                and pcs[1][1]["width"] == 2 and pcs[1][1]["zero"] and not pcs[1][1]["alt"] and not pcs[1][1]["plus"]):
            ok = True
    ctx.ob(rule, "names|escape-spelling", ok, "escape is '#' + exactly two hex digits (%s)" % how, wb.where(),
           what="write_name's escape is not '#' followed by exactly two hex digits (%s): the reader's hex_char takes exactly two" % how)
    takes, acc, radix = hex_char_table(F)
    ctx.ob(rule, "names|hex_char", takes == [2] and acc is not None and HEX_UP <= acc and radix == 16,
           "hex_char takes %s bytes, accepts %s, radix %s" % (takes, fmt_set(acc), radix), F.fn("parser::hex_char").where(),
           what="parser::hex_char no longer reads exactly two hexadecimal digits of either case")
    # the reader's name parser uses '/' then alt(#hex, regular)
    nb = F.fn("parser::name")
    tags = [const_bytes(op_const(nb.resolve_copy(c.args[0])) or {}) or lib._const_bytes_through(nb, c.args[0]) for c in lib.calls_named(nb, r"nom::bytes::complete::tag$")]
    ctx.ob(rule, "names|reader-structure", b"/" in tags and b"#" in tags and any("hex_char" in n for n, _, _ in nb.fn_mentions()),
           "name = '/' (('#' hex_char) | regular)*  tags=%s" % tags, nb.where(), what="parser::name lost its '/' prefix or its '#' hex escape branch")
    ctx.sample({"table": "names", "RAW_w": fmt_set(RAW_w), "ESC_w": fmt_set(ESC_w), "RAW_p": fmt_set(RAW_p)})
    return RAW_w, ESC_w, RAW_p


# ----------------------------------------------------------------------------- literal strings

def escape_table(F):
    """reader's escape_sequence: ordered list of (kind, key, result) for the members of its alt."""
    b = F.fn("parser::escape_sequence")
    out = []
    for c in b.calls:
        if not re.search(r"nom::combinator::map$", c.fn or ""):
            continue
        a0, a1 = c.args[0], c.args[1]
        # parser member
        d0 = b.def_rv(a0)
        key = None
        if d0 and d0[2] == "call":
            nm = d0[3]["f"].get("fn") or ""
            if nm.endswith("complete::tag"):
                key = ("tag", lib._const_bytes_through(b, d0[3]["args"][0]))
            elif nm.endswith("complete::take"):
                key = ("take", const_int(op_const(b.resolve_copy(d0[3]["args"][0])) or {}))
        if key is None:
            k0 = op_const(b.resolve_copy(a0))
            if k0 and "fn" in k0:
                key = ("fn", (k0.get("res") or k0["fn"]).rsplit("::", 1)[-1])
        # mapper
        res = None
        k1 = op_const(b.resolve_copy(a1))
        if k1 and "fn" in k1:
            res = ("fn", k1["fn"].rsplit("::", 1)[-1])
        else:
            cd = None
            p = op_place(b.resolve_copy(a1))
            if p is not None:
                d1 = b.single_def(p["l"])
                if d1 and d1[2] == "rv" and d1[3]["k"] == "agg" and d1[3]["kind"].get("a") == "closure":
                    cd = F.bodies.get(d1[3]["kind"]["def"])
            if cd is not None:
                res = closure_const_result(F, cd)
        out.append((c.ln, key, res))
    return b, out


def closure_const_result(F, cb):
    """what a tiny mapper closure returns: ('some', byte) | ('none',) | ('some-first-byte',) | None."""
    somes = lib.blocks_assigning_ret_variant(cb, "Some")
    nones = lib.blocks_assigning_ret_variant(cb, "None")
    if len(somes) == 1 and not nones:
        o = somes[0][1]["rv"]["ops"][0]
        k = op_const(cb.resolve_copy(o))
        if k is not None and const_int(k) is not None:
            return ("some", const_int(k) & 0xFF)
        if re.search(r"\[0\]$", cb.oname(o, 4)):
            return ("some-first-byte",)
        # the byte looked up in a table of (letter, byte) pairs kept in data, itself when it is not there:
        # TABLE.iter().find(|(l, _)| *l == c[0]).map_or(c[0], |&(_, b)| b)
        tl = lib.table_lookups(F, cb)
        d = cb.def_rv(o)
        if len(tl) == 1 and d and d[2] == "call" and (d[3]["f"].get("fn") or "").endswith("Option::<T>::map_or") and len(d[3]["args"]) == 3:
            lk = tl[0]
            from_lookup = lib.switch_on_operand(cb, d[3]["args"][0], lk["call"].dest["l"])
            dflt_first = re.search(r"\[0\]$", cb.oname(d[3]["args"][1], 4)) is not None
            keyed_first = lk["key_operand"] is not None and re.search(r"\[0\]$|^\W*\w+$", cb.oname(lk["key_operand"], 4)) is not None
            c2 = cb.def_rv(d[3]["args"][2])
            j = None
            if c2 and c2[2] == "rv" and c2[3]["k"] == "agg" and c2[3]["kind"].get("a") == "closure":
                b2 = F.bodies.get(c2[3]["kind"]["def"])
                if b2 is not None:
                    for bi, si, st_ in b2.stmts():
                        if "lhs" in st_ and st_["lhs"]["l"] == 0 and not st_["lhs"]["p"] and st_["rv"]["k"] == "use":
                            q = op_place(st_["rv"]["o"])
                            rp = b2.root_place(q, through_names=True) if q is not None else None
                            if rp is not None and rp["l"] == b2.argc:
                                fl = [e["f"] for e in rp["p"] if isinstance(e, dict) and "f" in e]
                                if len(fl) == 1:
                                    j = fl[0]
            if from_lookup and dflt_first and keyed_first and j is not None and all(r[lk["key_field"]][0] == "int" and r[j][0] == "int" for r in lk["rows"]):
                return ("table", {r[lk["key_field"]][1] & 0xFF: r[j][1] & 0xFF for r in lk["rows"]})
        return None
    if len(nones) == 1 and not somes:
        return ("none",)
    return None


def oct_table(F):
    b = F.fn("parser::oct_char")
    c = lib.calls_named(b, r"take_while_m_n$")
    if len(c) != 1:
        return None
    lo = const_int(op_const(b.resolve_copy(c[0].args[0])) or {})
    hi = const_int(op_const(b.resolve_copy(c[0].args[1])) or {})
    k = op_const(b.resolve_copy(c[0].args[2]))
    pred = (k or {}).get("fn", "").rsplit("::", 1)[-1]
    return lo, hi, byteset.STD_PRED.get(pred)


def eol_set(F):
    b = F.fn("parser::eol")
    return [lib._const_bytes_through(b, c.args[0]) for c in lib.calls_named(b, r"complete::tag$")]


def writer_string_tables(F):
    b = F.fn("Writer::write_string")
    # first pass: which bytes are recorded for escaping / as parentheses
    bv = ByteVar(F, b, named_var(b, "byte", 0))
    R = bv.reach_sets()
    esc = set()
    opn = set()
    cls = set()
    for c in b.calls:
        if re.search(r"Vec::<.*>::push$|(BTreeSet|HashSet)::<.*>::insert$", c.fn or ""):
            t = b.oname(c.args[0], 2)
            if "parentheses" in t:
                opn |= R.get(c.bb, frozenset())
            elif "escape_indice" in t:
                esc |= R.get(c.bb, frozenset())
        if re.search(r"Vec::<.*>::pop$", c.fn or "") and "parentheses" in b.oname(c.args[0], 2):
            cls |= R.get(c.bb, frozenset())
    return b, bv, frozenset(esc), frozenset(opn), frozenset(cls)


def writer_escape_spelling(F):
    """second loop of write_string: spelling of an escaped byte: {byte: spelled byte} exceptions, identity otherwise.
    Looks at the one-element write that follows each backslash literal: its element is a constant (that spelling, for the
    byte values that reach the write), the byte itself, or a temporary chosen between the two on different paths."""
    b = F.fn("Writer::write_string")
    bv = ByteVar(F, b, named_var(b, "byte", 1))
    R = bv.reach_sets()
    exc = {}
    writes = lib.calls_named(b, r"io::Write::write_all$")
    bs = [c for c in writes if lib._const_bytes_through(b, c.args[1]) == b"\\"]
    wbb = {c.bb for c in writes}

    def element(c):
        o = c.args[1]
        for _ in range(6):
            p = op_place(o)
            if p is None:
                return None
            d = b.single_def(p["l"])
            if d is None or d[2] != "rv":
                return None
            rv = d[3]
            if rv["k"] in ("use", "cast"):
                o = rv["o"]
            elif rv["k"] == "ref":
                o = {"c": {"l": rv["p"]["l"], "p": []}}
            elif rv["k"] == "agg" and rv["kind"].get("a") == "array" and len(rv["ops"]) == 1:
                return rv["ops"][0]
            else:
                return None
        return None
    for c0 in bs:
        # the next write on each path
        seen, work = set(), [c0.to] if c0.to is not None else []
        while work:
            x = work.pop()
            if x in seen:
                continue
            seen.add(x)
            if x in wbb:
                for c in writes:
                    if c.bb != x:
                        continue
                    kb = lib._const_bytes_through(b, c.args[1])
                    if kb is not None and len(kb) == 1 and kb != b"\\":
                        for v in R.get(c.bb, frozenset()):
                            exc[v] = kb[0]
                        continue
                    e = element(c)
                    if e is None:
                        continue
                    k = op_const(e)
                    if k is not None and const_int(k) is not None:
                        for v in R.get(c.bb, frozenset()):
                            exc[v] = const_int(k) & 0xFF
                    elif not bv._as_var(e):
                        q = op_place(e)
                        for d in (b.defs.get(q["l"], []) if q is not None and not q["p"] else []):
                            if d[2] == "rv" and d[3]["k"] == "use":
                                kk = op_const(d[3]["o"])
                                if kk is not None and const_int(kk) is not None:
                                    for v in R.get(d[0], frozenset()):
                                        exc[v] = const_int(kk) & 0xFF
                continue
            work.extend(b.succ[x])
    exc = {v: k for v, k in exc.items() if v != k}
    return b, exc, len(bs), bv


def check_strings(ctx, F, rule="R-TABLE", cr_required=False):
    wb, wbv, ESC, OPN, CLS = writer_string_tables(F)
    ctx.ob(rule, "strings|writer-evaluable", not wbv.unknown and OPN == frozenset([0x28]) and CLS == frozenset([0x29]) and ESC <= frozenset([0x0D, 0x29, 0x5C, 0x28, 0x0A]),
           "write_string: escapes %s, tracks '(' %s and ')' %s" % (fmt_set(ESC), fmt_set(OPN), fmt_set(CLS)), wb.where(),
           what="write_string's first pass is not evaluable or no longer tracks parentheses (escape %s, open %s, close %s)" % (fmt_set(ESC), fmt_set(OPN), fmt_set(CLS)))
    ctx.ob(rule, "strings|backslash-escaped", 0x5C in ESC, "'\\' is escaped", wb.where(),
           what="write_string does not escape the backslash: the reader consumes it together with the following byte as an escape sequence")
    if cr_required:
        ctx.ob(rule, "strings|cr-escaped", 0x0D in ESC, "CR is escaped", wb.where(),
               what="write_string writes a raw CR inside a literal string: a conforming reader normalises an unescaped end-of-line to LF, so the string changes for every other PDF consumer")
    sb, exc, nbs, sbv = writer_escape_spelling(F)
    ctx.ob(rule, "strings|escape-prefix", nbs >= 1, "escaped bytes are preceded by a backslash literal", sb.where(), what="write_string no longer writes a backslash before an escaped byte")
    eb, tab = escape_table(F)
    lo_hi_oct = oct_table(F)
    eols = eol_set(F)
    # decode(x): what the reader makes of backslash + x (first matching alt member)
    def decode(x):
        for ln, key, res in tab:
            if key is None or res is None:
                return ("unknown",)
            if key[0] == "fn" and key[1] == "oct_char":
                if lo_hi_oct and lo_hi_oct[2] is not None and x in lo_hi_oct[2]:
                    return ("octal",)
                continue
            if key[0] == "fn" and key[1] == "eol":
                if any(e and e[0] == x for e in eols):
                    return ("none",)
                continue
            if key[0] == "tag" and key[1] is not None and len(key[1]) == 1:
                if key[1][0] == x:
                    return res
                continue
            if key[0] == "take" and key[1] == 1:
                if res[0] == "table":
                    return ("some", res[1].get(x, x))
                return ("some", x) if res == ("some-first-byte",) else res
            return ("unknown",)
        return ("reject",)
    ctx.ob(rule, "strings|reader-escape-table", all(k is not None and r is not None for _, k, r in tab) and len(tab) >= 3,
           "escape_sequence members: %s" % [(k, r) for _, k, r in tab], eb.where(), what="parser::escape_sequence has a member the table extraction cannot read")
    for e in sorted(ESC | OPN | CLS):
        sp = exc.get(e, e)
        got = decode(sp)
        ctx.ob(rule, "strings|escape-roundtrip|%02X" % e, got == ("some", e), "byte %02X is spelled '\\' %02X and read back as %s" % (e, sp, got), sb.where(),
               what="an escaped byte %02X is written as backslash + %02X, which the reader decodes as %s" % (e, sp, got))
    # raw bytes are taken verbatim: direct set, or the eol arm (which pushes the matched bytes)
    direct = predicate_set(F, F.fn("parser::is_direct_literal_string"))
    eol_first = frozenset(e[0] for e in eols if e)
    raws = FULL - ESC - OPN - CLS
    ok_raw = direct is not None and raws <= (direct | eol_first)
    ctx.ob(rule, "strings|raw-accepted", ok_raw, "raw bytes %s ⊆ direct %s ∪ eol %s" % (fmt_set(raws), fmt_set(direct), fmt_set(eol_first)), wb.where(),
           what="write_string writes %s raw, which the reader's literal-string grammar does not take verbatim" % fmt_set(raws - ((direct or frozenset()) | eol_first)))
    # Eol arm pushes the matched bytes
    pb = F.fn("InnerLiteralString::push")
    ext = lib.calls_named(pb, r"Vec::<.*>::extend_from_slice$")
    ctx.ob(rule, "strings|eol-verbatim", len(ext) >= 1, "InnerLiteralString::push extends the output with the matched slice", pb.where(),
           what="the reader no longer keeps raw end-of-line bytes inside literal strings verbatim")
    ctx.sample({"table": "strings", "ESC_w": fmt_set(ESC), "spelling": {("%02X" % k): ("%02X" % v) for k, v in exc.items()},
                "reader escapes": [str((k, r)) for _, k, r in tab]})
    return ESC


def check_nesting(ctx, F, rule="R-GUARD"):
    """the writer's raw-parenthesis nesting must be bounded by the reader's MAX_BRACKET."""
    import guard
    b = F.fn("Writer::write_string")
    mb = F.consts.get("reader::MAX_BRACKET")
    if mb is None or "int" not in mb:
        raise AnchorLost("reader::MAX_BRACKET not found")
    limit = int(mb["int"])
    pushes = [c for c in b.calls if re.search(r"Vec::<.*>::push$", c.fn or "") and "parentheses" in b.oname(c.args[0], 2)]
    ok = bool(pushes)
    how = ""
    for c in pushes:
        env = guard.Env(b)
        found = False
        for fx, _ in env.dominating_edge_facts(c.bb):
            x, y, k = fx
            if x.base and x.base.startswith("len(") and "parentheses" in x.base and y.base is None and (y.off + k + 1) <= limit:
                found = True
                how = "parentheses.len() <= %d before the push" % (y.off + k)
        ok = ok and found
    ctx.ob(rule, "strings|nesting-bounded", ok, how or "no bound", b.where(),
           what="write_string writes balanced parentheses raw to any depth, but the reader cuts literal-string nesting off at MAX_BRACKET = %d: a string with deeper balanced parentheses cannot be read back" % limit)
    # reader side: depth starts at MAX_BRACKET
    ls = F.fn("parser::literal_string")
    # (the call may stand in a closure of literal_string, and the counter may be any of the callee's parameters)
    starts = [(x, c) for x in F.with_closures(ls) for c in x.calls if c.local and c.cname.endswith("inner_literal_string")]
    oks = len(starts) == 1 and any("MAX_BRACKET" in starts[0][0].oname(a, 3) or starts[0][0].oname(a, 3) == str(limit) for a in starts[0][1].args)
    ctx.ob(rule, "strings|reader-depth-start", oks, "literal_string starts inner_literal_string at MAX_BRACKET", ls.where(),
           what="parser::literal_string no longer starts the nesting counter at MAX_BRACKET")


# ----------------------------------------------------------------------------- hex strings, numbers, references

def fmt_sites_of(F, fn):
    """format_args! sites of a function and of the closures defined in it (a loop turned into an iterator adaptor moves
    its body into a closure)."""
    b = F.fn(fn)
    out = []
    for body in F.with_closures(b):
        out.extend(lib.format_sites(body))
    return b, out


def check_hex_and_numbers(ctx, F, rule="R-TABLE"):
    b, sites = fmt_sites_of(F, "Writer::write_string")
    hexs = [s for s in sites if s["args"] and s["args"][0][0] in ("upper_hex", "lower_hex")]
    ok = len(hexs) == 1 and hexs[0]["args"][0][1] == "u8" and [p for p in hexs[0]["pieces"] if p[0] == "lit"] == [] and hexs[0]["pieces"][0][1]["width"] == 2 and hexs[0]["pieces"][0][1]["zero"]
    ctx.ob(rule, "hexstring|two-digits-per-byte", ok, "hex strings are written with {:02X} per byte", b.where(),
           what="hexadecimal strings are not written as exactly two hex digits per byte (an odd digit count shifts every following byte)")
    lits = [lib._const_bytes_through(b, c.args[1]) for c in lib.calls_named(b, r"io::Write::write_all$")]
    ctx.ob(rule, "hexstring|delimiters", b"<" in lits and b">" in lits and b"(" in lits and b")" in lits, "string delimiters ( ) < > are written", b.where(),
           what="write_string lost one of its delimiters")
    # write_object: Real is Display without exponent/alternate, Reference is `{} {} R`
    wo, sites = fmt_sites_of(F, "Writer::write_object")
    real = [s for s in sites if s["args"] and s["args"][0][1] in ("f32", "f64", "&f32", "&f64")]
    okr = len(real) == 1 and real[0]["args"][0][0] == "display" and [p for p in real[0]["pieces"] if p[0] == "lit"] == [] and real[0]["pieces"][0][1]["precision"] is None and not real[0]["pieces"][0][1]["plus"]
    ctx.ob(rule, "numbers|real-display", okr, "Real is written with plain Display (no exponent form, no sign flag)", wo.where(),
           what="Real objects are not written with plain `{}`: the reader's real grammar has no exponent, no leading '+' flag handling beyond sign")
    ref = [s for s in sites if len(s["args"]) == 2]
    okf = len(ref) == 1 and [a for a in ref[0]["args"]] == [("display", "u32"), ("display", "u16")] and [p[1] for p in ref[0]["pieces"] if p[0] == "lit"] == [b" ", b" R"]
    ctx.ob(rule, "numbers|reference-spelling", okf, "Reference is `{} {} R` of (u32, u16)", wo.where(), what="references are not written as `<num> <gen> R`")
    ito = lib.calls_named(wo, r"itoa::Buffer::format$")
    ctx.ob(rule, "numbers|integer-decimal", len(ito) == 1, "Integer is written through itoa (decimal)", wo.where(), what="integers are no longer written in decimal through itoa")
    # the reader converts the WHOLE matched span (sign and digits together): converting the digits and applying the sign
    # afterwards cannot represent i64::MIN, which the writer does produce
    for fn, ty in (("parser::integer", "i64"), ("parser::real", "f32")):
        pb = F.fn(fn)
        fs = [c for c in pb.calls if re.search(r"<%s as (std|core)::str::FromStr>::from_str$" % ty, c.full or "")]
        span = False
        if len(fs) == 1:
            with pb.alpha(args=True):
                r = pb.sname(fs[0].args[0], 14).replace("&", "").replace("*", "")
            span = re.search(r"index\((?:<[^()]*>::deref\()?arg1\)?,RangeTo::RangeTo\{Sub\(len\(", r) is not None or "recognize(" in r
        ctx.ob(rule, "numbers|%s-whole-span" % fn.rsplit("::", 1)[-1], span, "%s::from_str is applied to the whole consumed prefix of the input" % ty, pb.where(),
               what="%s no longer converts the whole matched text (sign included) with %s::from_str: a value the writer can produce (e.g. i64::MIN, "
                    "whose magnitude alone does not fit) is rejected, and everything after it in a content stream is silently dropped" % (fn, ty))
    # Display of f32 never uses an exponent and prints an integral value without a decimal point, with as many digits as
    # it takes (3.0e38 is a run of 39 digits): among the number alternatives of the object parser and of the content-operand
    # parser there must be one that converts a plain run of digits (no '.' required) with f32::from_str, or such a Real is
    # written but cannot be read back (i64::from_str overflows)
    for fn in ("parser::_direct_objects", "parser::operand"):
        pb = F.fn(fn)
        got = []
        for body in F.with_closures(pb):
            for n, _k, _w in body.fn_mentions():
                cb = F.bodies.get(n)
                if cb is None or cb.kind == "Closure":
                    continue
                near = F.with_closures(cb)
                f32s = [c for x in near for c in x.calls if re.search(r"<f32 as (std|core)::str::FromStr>::from_str$", c.full or "")]
                dots = [c for x in near for c in lib.calls_named(x, r"complete::tag$") if lib._const_bytes_through(x, c.args[0]) == b"."]
                if f32s and not dots:
                    got.append(F.canon_of(cb))
        ctx.ob(rule, "numbers|digit-run-beyond-i64-read-as-real|%s" % fn.rsplit("::", 1)[-1], bool(got), "a run of digits that overflows i64 is converted with f32::from_str (%s)" % sorted(set(got)), pb.where(),
               what="%s has no alternative that reads a plain run of digits as a real number: Real values of 2^63 and above are written without a decimal point (Display of f32) and cannot be read back, the enclosing object is dropped on load" % fn)
    # a text that one number parser cannot convert must be left to the next alternative: the conversion helper reports a
    # recoverable nom error (Err::Error), not Err::Failure, which would end the whole `alt`
    cr = F.fn("parser::convert_result") if F.has_fn("parser::convert_result") else None
    if cr is not None:
        vs = [st["rv"]["kind"].get("var") for x in F.with_closures(cr) for bi, si, st in x.stmts()
              if st.get("rv") and st["rv"]["k"] == "agg" and st["rv"]["kind"].get("adt", "").endswith("nom::Err")]
        ctx.ob(rule, "numbers|conversion-failure-is-recoverable", bool(vs) and all(v == "Error" for v in vs), "convert_result reports nom::Err::%s" % sorted(set(vs)), cr.where(),
               what="the number parsers report a failed conversion as nom::Err::%s: the alternatives after them (a digit run beyond i64 read as a real) are never tried and the whole object or content stream fails to parse" % sorted(set(v for v in vs if v != "Error")))
    lits = [lib._const_bytes_through(wo, c.args[1]) for c in lib.calls_named(wo, r"io::Write::write_all$")]
    ctx.ob(rule, "keywords", b"null" in lits and b"true" in lits and b"false" in lits, "null/true/false keywords", wo.where(), what="write_object lost a keyword spelling")


# ----------------------------------------------------------------------------- separators

REGULAR_START = {"Null", "Boolean", "Integer", "Real", "Reference"}


def variant_set_true(F, fn, enum="Object"):
    """variants of the matched enum for which a `matches!`-style fn returns true."""
    b = F.fn(fn)
    names = None
    sw = None
    for bi in range(b.n):
        t = b.term(bi)
        if t["k"] == "switch":
            d = b.def_rv(t["d"])
            if d and d[2] == "rv" and d[3]["k"] == "discr" and d[3]["vars"]:
                names = {v: n for v, n in d[3]["vars"]}
                sw = (bi, t)
    if sw is None:
        raise AnchorLost("%s does not switch on an enum discriminant" % fn)
    bi, t = sw
    out = set()
    def ret_true(bb):
        for s in b.blocks[bb]["st"]:
            if "lhs" in s and s["lhs"]["l"] == 0 and s["rv"]["k"] == "use":
                k = op_const(s["rv"]["o"])
                if k is not None:
                    return const_int(k) == 1
        return None
    listed = set()
    for v, bb in t["tg"]:
        listed.add(v)
        if ret_true(bb):
            out.add(names.get(v, v))
    if ret_true(t["else"]):
        for v, n in names.items():
            if v not in listed:
                out.add(n)
    return b, out


def check_separators(ctx, F, rule="R-TABLE"):
    b, S = variant_set_true(F, "Writer::need_separator")
    ctx.ob(rule, "separators|need_separator", REGULAR_START <= S, "need_separator is true for %s" % sorted(S), b.where(),
           what="need_separator is false for %s, whose spelling starts with a regular character: it fuses with a preceding name/number/keyword" % sorted(REGULAR_START - S))
    # every back-to-back writer consults it
    for fn in ("Writer::write_array", "Writer::write_dictionary"):
        wb = F.fn(fn)
        ns = [c for c in wb.calls if c.local and c.cname.endswith("need_separator")]
        wo = [c for c in wb.calls if c.local and c.cname.endswith("write_object")]
        sp = [c for c in lib.calls_named(wb, r"io::Write::write_all$") if lib._const_bytes_through(wb, c.args[1]) == b" "]
        ok = bool(ns) and bool(wo) and bool(sp)
        how = ""
        if ok:
            for w in wo:
                same = [n for n in ns if wb.oname(n.args[0], 3) == wb.oname(w.args[1], 3) and wb.can_reach(n.bb, w.bb)]
                # ... or the value cannot follow another value without the question having been asked: every way from a
                # write_object to this one passes need_separator(this value) (the first element after `[` needs none)
                after = [n.bb for n in same]
                fenced = all(not wb.can_reach(w2.bb, w.bb, avoid=after) for w2 in wo) if wo else False
                ok = ok and (bool(same) or fenced)
                if not same and not fenced:
                    ok = False
            for s in sp:
                # the space is written only on the true edge of need_separator
                okk = False
                for n in ns:
                    if n.to is not None and wb.term(n.to)["k"] == "switch" and wb.dominates(wb.term(n.to)["else"], s.bb):
                        okk = True
                ok = ok and okk
            how = "need_separator(value) decides the space before write_object(value)"
        ctx.ob(rule, "separators|consulted|%s" % fn, ok, how, wb.where(),
               what="%s writes consecutive values without consulting need_separator for the value it is about to write" % fn)
    # write_indirect_object: separator after `obj\n` and before endobj
    wi = F.fn("Writer::write_indirect_object")
    ns = [c for c in wi.calls if c.local and c.cname.endswith("need_separator")]
    ctx.ob(rule, "separators|indirect-object", len(ns) == 1, "write_indirect_object consults need_separator", wi.where(), what="write_indirect_object no longer consults need_separator")


# ----------------------------------------------------------------------------- reader lexical classes against ISO 32000-1 (C02)

ISO_WS = frozenset([0x00, 0x09, 0x0A, 0x0C, 0x0D, 0x20])
ISO_DELIM = frozenset(b"()<>[]{}/%")
ISO_ESC = {ord("n"): 0x0A, ord("r"): 0x0D, ord("t"): 0x09, ord("b"): 0x08, ord("f"): 0x0C}


def check_iso_tables(ctx, F, rule="R-TABLE"):
    ws = predicate_set(F, F.fn("parser::is_whitespace"))
    dl = predicate_set(F, F.fn("parser::is_delimiter"))
    rg = predicate_set(F, F.fn("parser::is_regular"))
    ctx.ob(rule, "iso|white-space", ws == ISO_WS, "is_whitespace = %s" % fmt_set(ws), F.fn("parser::is_whitespace").where(),
           what="the reader's white-space set %s differs from ISO 32000-1 Table 1 %s" % (fmt_set(ws), fmt_set(ISO_WS)))
    ctx.ob(rule, "iso|delimiters", dl == ISO_DELIM, "is_delimiter = %s" % fmt_set(dl), F.fn("parser::is_delimiter").where(),
           what="the reader's delimiter set %s differs from ISO 32000-1 Table 2 %s" % (fmt_set(dl), fmt_set(ISO_DELIM)))
    ctx.ob(rule, "iso|regular", rg == FULL - ISO_WS - ISO_DELIM, "is_regular = complement of white-space and delimiters", F.fn("parser::is_regular").where(),
           what="is_regular is not the complement of white-space ∪ delimiters")
    eols = eol_set(F)
    ctx.ob(rule, "iso|eol", set(eols) == {b"\r\n", b"\n", b"\r"} and eols.index(b"\r\n") < eols.index(b"\r"), "eol accepts CRLF, LF, CR (CRLF tried before CR): %s" % eols,
           F.fn("parser::eol").where(), what="the reader's end-of-line marker set %s is not {CRLF, LF, CR} with CRLF first" % eols)
    eb, tab = escape_table(F)
    got = {}
    has_oct = has_eol = has_ident = False
    for ln, key, res in tab:
        if key and key[0] == "tag" and key[1] and len(key[1]) == 1 and res and res[0] == "some":
            got[key[1][0]] = res[1]
        if key == ("fn", "oct_char") and res == ("fn", "Some"):
            has_oct = True
        if key == ("fn", "eol") and res == ("none",):
            has_eol = True
        if key == ("take", 1) and res == ("some-first-byte",):
            has_ident = True
        if key == ("take", 1) and res and res[0] == "table":
            # letters looked up in a table kept in data, every other byte standing for itself
            has_ident = True
            for k_, v_ in res[1].items():
                got.setdefault(k_, v_)
    ctx.ob(rule, "iso|string-escapes", got == ISO_ESC and has_oct and has_eol and has_ident,
           "escapes %s + octal + line continuation + identity" % {chr(k): "%02X" % v for k, v in got.items()}, eb.where(),
           what="the literal-string escape table %s (octal %s, line continuation %s, identity %s) differs from ISO 32000-1 Table 3" % ({chr(k): "%02X" % v for k, v in got.items()}, has_oct, has_eol, has_ident))
    ot = oct_table(F)
    ctx.ob(rule, "iso|octal", ot is not None and ot[0] == 1 and ot[1] == 3 and ot[2] == byteset.STD_PRED["is_oct_digit"], "octal escape takes 1..3 octal digits", F.fn("parser::oct_char").where(),
           what="the octal escape no longer takes one to three octal digits")
    takes, acc, radix = hex_char_table(F)
    ctx.ob(rule, "iso|name-hash", takes == [2] and acc == HEX_ANY and radix == 16, "#xx takes two hex digits of either case", F.fn("parser::hex_char").where(),
           what="#xx in names no longer takes exactly two hexadecimal digits")
    # xref entry terminators
    xb = F.fn("parser::xref")
    tags = [lib._const_bytes_through(xb, c.args[0]) for c in lib.calls_named(xb, r"complete::tag$")]
    need = {b" \r", b" \n", b"\r\n"}
    ctx.ob(rule, "iso|xref-eol", need <= set(tags), "xref entry terminators %s" % sorted(need), xb.where(),
           what="the 20-byte xref entry terminator set lost one of SP CR, SP LF, CR LF")
    one = [c for c in lib.calls_named(xb, r"character::complete::one_of$")]
    kinds = [lib._const_bytes_through(xb, c.args[0]) for c in one]
    ctx.ob(rule, "iso|xref-kind", b"nf" in kinds or b"fn" in kinds, "entry kind is one of n, f", xb.where(), what="xref entries no longer accept exactly the kinds n and f")
    ctx.sample({"table": "iso", "whitespace": fmt_set(ws), "delimiters": fmt_set(dl), "eol": [repr(e) for e in eols]})
