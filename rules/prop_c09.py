"""C09 — stream filters decode as specified; compression is lossless and never lengthens; Length tracks content (DESIGN §4 C09)."""
import re
import lib, guard
from mir import op_place, op_const, const_int, AnchorLost

LEVEL = dict(
    level="other",
    rule_text="who-may-write Stream.content and every writer sets Length from the new content; compress() replaces content only under "
              "`compressed.len() + k < content.len()` with k >= 19 and only when no Filter is present; decompress()/set_plain_content() "
              "remove every key decompressed_content() consults; filter dispatch table; PNG row filters have the index shape of the PNG "
              "specification (Sub/Up/Average/Paeth with left = Raw(x-bpp), above = Prior(x), upper-left = Prior(x-bpp)) and the "
              "encoder/decoder siblings agree; Paeth tie-break order; LZW and ASCII85 spec constants; PNG frame row discipline (every emitted row is `current` after decode_row and is swapped into `previous` before the next row); predictor values reaching png::decode_frame are exactly 10..=15 (value-set analysis)",
    explanation="Decides: the structural conditions without which Length bookkeeping, never-longer compression, lossless "
                "compress/decompress and spec-conformant predictors are impossible. Does not decide: numerical results of the "
                "third-party inflate/LZW decoders, or of the row filters beyond their operand/operation shape.",
    trusted_base=["rustc MIR", "PNG specification §6 filter definitions and ISO 32000-1 §7.4 constants embedded in the rule"],
)


def role_names(b, roles_by_arg):
    """rename-invariant debug names: arguments by position, derived locals by their defining expression."""
    names = {}
    for i, r in roles_by_arg.items():
        names[i] = r
    return names


def with_roles(b, names):
    class _Ctx:
        def __enter__(self_):
            self_.old = b.names
            b.names = names
        def __exit__(self_, *a):
            b.names = self_.old
    return _Ctx()


def png_roles(b):
    names = {1: "filter", 2: "bpp_in", 3: "prev", 4: "cur"}
    old = b.names
    b.names = dict(names)
    try:
        changed = True
        while changed:
            changed = False
            for l in range(b.argc + 1, len(b.locals)):
                if l in b.names or l not in old:
                    continue
                d = b.single_def(l)
                if d is None:
                    continue
                t = b.lname(l, 3) if False else None
                if d[2] == "call":
                    f = d[3]["f"].get("fn") or ""
                    args = [b.oname(a, 3) for a in d[3]["args"]]
                    if f.endswith("::len") and "cur" in args[0]:
                        b.names[l] = "len"; changed = True
                    elif f.rsplit("::", 1)[-1] == "min" and set(args) == {"bpp_in", "len"}:
                        b.names[l] = "bpp"; changed = True
                elif d[2] == "rv" and d[3]["k"] == "use":
                    p = op_place(d[3]["o"])
                    if p is not None and len(p["p"]) == 2 and isinstance(p["p"][0], dict) and p["p"][0].get("down") == "Some":
                        b.names[l] = "i"; changed = True
        return dict(b.names)
    finally:
        b.names = old


def _split_on_loop_var(b, s, iv):
    """if the value stored by statement s depends on locals with exactly two definitions that sit on the two sides of a
    comparison of the loop variable iv with one and the same bound (`if i < bpp { .. } else { .. }`, also inside helpers that
    were inlined): [('below' | 'above', rendered bound, {local: def})] — one entry per side; else []."""
    from mir import op_place
    import lib
    seen, work, cands = set(), [], []
    rv = s["rv"]

    def ops_of(rv):
        if rv["k"] in ("use", "cast", "un", "repeat"):
            return [rv["o"]]
        if rv["k"] == "bin":
            return [rv["a"], rv["b"]]
        if rv["k"] == "agg":
            return rv["ops"]
        return []
    work = ops_of(rv)
    depth = 0
    while work and depth < 80:
        depth += 1
        o = work.pop()
        p = op_place(o)
        if p is None or p["l"] in seen:
            continue
        seen.add(p["l"])
        ds = b.defs.get(p["l"], [])
        if len(ds) == 2 and all(d[2] in ("rv", "call") for d in ds):
            cands.append(p["l"])
            for d in ds:
                work.extend(ops_of(d[3]) if d[2] == "rv" else d[3]["args"])
            continue
        if len(ds) == 1:
            d = ds[0]
            if d[2] == "rv":
                work.extend(ops_of(d[3]))
            elif d[2] == "call":
                work.extend(d[3]["args"])

    def side_of(d):
        side, bound = None, None
        for g, s2 in lib.taken_edges(b, d[0]):
            t = b.term(g)
            if t["dty"] != "bool":
                continue
            dd = b.def_rv(t["d"])
            if not (dd and dd[2] == "rv" and dd[3]["k"] == "bin" and dd[3]["op"] in ("Lt", "Ge", "Le", "Gt")):
                continue
            a, c = dd[3]["a"], dd[3]["b"]
            pa, pc = op_place(a), op_place(c)
            la = b.root_place(pa)["l"] if pa is not None else None
            lc = b.root_place(pc)["l"] if pc is not None else None
            truth = (t["else"] == s2)
            op = dd[3]["op"]
            if la == iv and op in ("Lt", "Ge"):
                below = (op == "Lt") == truth
                side, bound = ("below" if below else "above"), re.sub(r"#\d+", "", b.oname(c, 2))
            elif lc == iv and op in ("Gt", "Le"):
                below = (op == "Gt") == truth
                side, bound = ("below" if below else "above"), re.sub(r"#\d+", "", b.oname(a, 2))
        return side, bound
    choice = {"below": {}, "above": {}}
    bounds = set()
    for l in cands:
        sides = {}
        for d in b.defs[l]:
            side, bound = side_of(d)
            if side is None:
                sides = None
                break
            sides[side] = d
            bounds.add(bound)
        if not sides or set(sides) != {"below", "above"}:
            continue        # a two-definition local that is not chosen by the loop variable: rendered as it is
        for side, d in sides.items():
            choice[side][l] = d
    if not choice["below"] or len(bounds) != 1:
        return []
    bound = bounds.pop()
    return [("below", bound, choice["below"]), ("above", bound, choice["above"])]


def stores_with_range(b, names):
    """[(store term, (lo, hi) of the loop variable)] for every element store, rendered with role names."""
    out = []
    old = b.names
    b.names = names
    try:
        env = guard.Env(b)
        ranges = {}
        for fx, dpos, v in env.loop_var_facts():
            x, y, c = fx
            if x.base and x.base.startswith("i#") or (x.base and re.match(r"^i#\d+$", x.base)):
                ranges.setdefault(v, {})["hi"] = (repr(y), c)
            else:
                ranges.setdefault(v, {})["lo"] = repr(x)
        for bi, si, s in b.stmts():
            if "lhs" in s and s["lhs"]["p"] and any(isinstance(e, dict) and "idx" in e for e in s["lhs"]["p"]):
                idx = [e["idx"] for e in s["lhs"]["p"] if isinstance(e, dict) and "idx" in e][0]
                iv = b.root_place({"l": idx, "p": []})["l"]
                r = ranges.get(iv, {})
                lo = re.sub(r"#\d+", "", r.get("lo", "?"))
                hi = re.sub(r"#\d+", "", r.get("hi", ("?", 0))[0])
                variants = _split_on_loop_var(b, s, iv)
                if variants:
                    # the stored value is chosen by a comparison of the loop variable (`if i < bpp { .. } else { .. }`):
                    # one update per sub-range, as if the loop had been written as two loops
                    for (side, bound, sel) in variants:
                        saved = {l: b.defs[l] for l in sel}
                        for l, d in sel.items():
                            b.defs[l] = [d]
                        try:
                            t = wide("%s = %s" % (b.pname(s["lhs"], 2), b.rvname(s["rv"], 12)))
                        finally:
                            for l, ds in saved.items():
                                b.defs[l] = ds
                        out.append((t, (lo, bound) if side == "below" else (bound, hi)))
                    continue
                # a store that stands under a comparison of the loop variable with a bound (`if i < bpp { A } else { B }` in one
                # loop over lo..hi) is the update of the sub-range that comparison selects
                import inv as _inv
                ivn = b.pname({"l": iv, "p": []}, 1)
                for g_, tr_ in _inv.rendered_guards(b, bi):
                    m_ = re.match(r"^(Lt|Ge|Le|Gt)\((\w+),(\w+)\)$", g_)
                    if not m_:
                        continue
                    op_, x_, y_ = m_.groups()
                    if y_ == ivn and x_ != ivn:      # bound OP i  ->  i OP' bound
                        op_, x_, y_ = {"Lt": "Gt", "Gt": "Lt", "Le": "Ge", "Ge": "Le"}[op_], y_, x_
                    if x_ != ivn:
                        continue
                    below = (op_ == "Lt" and tr_) or (op_ == "Ge" and not tr_)
                    above = (op_ == "Ge" and tr_) or (op_ == "Lt" and not tr_)
                    if below:
                        hi = y_
                    elif above:
                        lo = y_
                out.append((wide("%s = %s" % (b.pname(s["lhs"], 2), b.rvname(s["rv"], 10))), (lo, hi)))
    finally:
        b.names = old
    return out


PNG_DECODE = {
    ("*cur[i] = wrapping_add(*cur[i],*cur[Sub(i,bpp)])", ("bpp", "len")): "Sub: Recon(x) = Filt(x) + Recon(a), a = x - bpp",
    ("*cur[i] = wrapping_add(*cur[i],*prev[i])", ("0", "len")): "Up: Recon(x) = Filt(x) + Recon(b)",
    ("*cur[i] = wrapping_add(*cur[i],Div(*prev[i],2))", ("0", "bpp")): "Average, first pixel: a = 0",
    ("*cur[i] = wrapping_add(*cur[i],Div(Add(*cur[Sub(i,bpp)] as W,*prev[i] as W),2) as u8)", ("bpp", "len")): "Average: floor((Recon(a) + Recon(b)) / 2) without overflow",
    ("*cur[i] = wrapping_add(*cur[i],paeth_predict(0,*prev[i],0))", ("0", "bpp")): "Paeth, first pixel: a = c = 0",
    ("*cur[i] = wrapping_add(*cur[i],paeth_predict(*cur[Sub(i,bpp)],*prev[i],*prev[Sub(i,bpp)]))", ("bpp", "len")): "Paeth(a = Recon(x-bpp), b = Prior(x), c = Prior(x-bpp))",
}


def wide(t):
    """a widening of a byte to any signed/unsigned type of at least 16 bits is written `as W` (the width does not matter as
    long as 2 * 255 fits)."""
    t = re.sub(r" as (i16|u16|i32|u32|i64|u64|isize|usize)\b", " as W", t)
    # identities over bytes: 0 + x = x; floor(widen(x) / k) narrowed again = x / k for a byte x
    for _ in range(3):
        t = re.sub(r"Add\(0(?: as W)?,([^(),]+(?:\[[^\]]*\])?(?: as W)?)\)", r"\1", t)
        t = re.sub(r"Add\(([^(),]+(?:\[[^\]]*\])?(?: as W)?),0(?: as W)?\)", r"\1", t)
        t = re.sub(r"Div\((\*?\w+\[[^\]]*\]) as W,(\d+)\) as u8", r"Div(\1,\2)", t)
    return t


def predictor_geometry(ctx, F, pr, png):
    """The two numbers handed to png::decode_frame, folded as integer expressions of the DecodeParms entries and compared with
    the definitions over the legal parameter space: bytes per pixel = Colors x BitsPerComponent / 8 (BitsPerComponent 8 or 16),
    pixels per row = Columns.  The roles of decode_frame's own parameters are fixed by the PNG shape table (png_rules)."""
    import symeval
    from mir import op_place
    if len(png) != 1:
        ctx.ob("R-TABLE", "predictor-geometry", False, "", pr.where(), what="decompress_predictor does not call png::decode_frame exactly once")
        return

    def key_of(b, t, depth=6):
        """the dictionary key whose integer value the call chain `get(b"Key").and_then(as_i64)...` yields"""
        if depth <= 0:
            return None
        fn = (t["f"].get("fn") or "")
        if fn.endswith("Dictionary::get") or fn.endswith("Dictionary::get_deref"):
            return lib._const_bytes_through(b, t["args"][1])
        if fn.rsplit("::", 1)[-1] in ("and_then", "map", "ok", "branch", "copied", "cloned") and t["args"]:
            q = op_place(t["args"][0])
            d = b.single_def(q["l"]) if q is not None else None
            if d and d[2] == "call":
                return key_of(b, d[3], depth - 1)
        return None

    def mk_leaf(env):
        def leaf(b, kind, x):
            if kind != "call":
                return None
            fn = (x["f"].get("fn") or "")
            if fn.rsplit("::", 1)[-1] in ("unwrap_or", "unwrap_or_default") and x["args"]:
                q = op_place(x["args"][0])
                d = b.single_def(q["l"]) if q is not None else None
                if d and d[2] == "call":
                    k = key_of(b, d[3])
                    if k in env:
                        return env[k]
            return None
        return leaf
    # which of decode_frame's parameters is the bytes-per-pixel one: the one it hands to decode_row as the left-neighbour distance
    # (by what it is used for, not by its name or position in the declaration)
    i_bpp, i_ppr = 1, 2
    df_ = F.fn("filters::png::decode_frame")
    drc_ = [c for c in df_.calls if c.local and c.cname.endswith("png::decode_row")]
    if len(drc_) == 1:
        o_ = lib.origin_local(F, df_, drc_[0].args[1])
        us_ = [i for i in range(1, df_.argc + 1) if df_.lty(i) == "usize"]
        if o_ is not None and o_[0] is df_ and not o_[2] and o_[1] in us_ and len(us_) == 2:
            i_bpp = o_[1] - 1
            i_ppr = [i for i in us_ if i != o_[1]][0] - 1
    bad = []
    n = 0
    for columns in (1, 2, 5, 31, 1000):
        for colors in (1, 2, 3, 4):
            for bits in (8, 16):
                env = {b"Columns": columns, b"Colors": colors, b"BitsPerComponent": bits, b"Predictor": 12}
                ev = symeval.Eval(F, pr, mk_leaf(env))
                bpp = ev.val(png[0].args[i_bpp])
                ppr = ev.val(png[0].args[i_ppr])
                n += 1
                if bpp != colors * bits // 8 or ppr != columns:
                    bad.append((columns, colors, bits, bpp, ppr))
    ctx.ob("R-TABLE", "predictor-geometry", not bad, "decode_frame(data, Colors*BitsPerComponent/8, Columns) at %d points of the legal parameter space" % n, pr.where(png[0].ln),
           what="decompress_predictor hands png::decode_frame the wrong geometry: for Columns=%s Colors=%s BitsPerComponent=%s it passes bytes-per-pixel=%s, pixels-per-row=%s (expected %s and %s)"
                % ((bad[0][0], bad[0][1], bad[0][2], bad[0][3], bad[0][4], bad[0][1] * bad[0][2] // 8, bad[0][0]) if bad else ("",) * 7))


def _filter_types_by_table(F, tf):
    """`TABLE.get(usize::from(n)).copied().ok_or(())` — the byte indexes a constant array of filter types and anything
    beyond its end is refused: {byte: variant}; None when try_from is not of that form."""
    gets = [c for c in tf.calls if re.search(r"slice::<impl \[.*\]>::get$", c.fn or c.name) and len(c.args) == 2]
    if len(gets) != 1 or any(st_.get("rv") and st_["rv"]["k"] == "agg" and (st_["rv"]["kind"].get("adt") or "").endswith("FilterType") for _, _, st_ in tf.stmts()):
        return None
    g = gets[0]
    names = lib.enum_array_behind(F, tf, g.args[0])
    if names is None:
        return None
    # the index is the byte itself, widened
    o = g.args[1]
    for _ in range(4):
        q = op_place(o)
        if q is None or q["p"]:
            return None
        if q["l"] == 1:
            break
        d = tf.single_def(q["l"])
        if d is None:
            return None
        if d[2] == "rv" and d[3]["k"] == "use":
            o = d[3]["o"]
        elif d[2] == "rv" and d[3]["k"] == "cast" and d[3]["ty"] in ("usize", "u16", "u32", "u64"):
            o = d[3]["o"]
        elif d[2] == "call" and re.search(r"From<u8>>::from$", d[3]["f"].get("full") or "") and d[3]["args"]:
            o = d[3]["args"][0]
        else:
            return None
    else:
        return None
    # the answer of `get` is what is returned: through copied / cloned / ok_or / ok_or_else only
    cur = g
    for _ in range(4):
        if cur.dest["l"] == 0 and not cur.dest["p"]:
            return dict(enumerate(names))
        nxt = [c for c in tf.calls if c.args and op_place(c.args[0]) and op_place(c.args[0])["l"] == cur.dest["l"] and not op_place(c.args[0])["p"]
               and re.search(r"Option::<.*>::(copied|cloned|ok_or|ok_or_else)$", c.fn or c.name)]
        if len(nxt) != 1:
            return None
        cur = nxt[0]
    return None


def png_rules(ctx, F):
    R = "R-TABLE"
    # the filter type byte in front of each row: PNG (ISO/IEC 15948) 9.2 — 0 None, 1 Sub, 2 Up, 3 Average, 4 Paeth
    tf = F.fn("<FilterType as TryFrom>::try_from")
    tagmap = _filter_types_by_table(F, tf) or {}
    for bi in range(tf.n):
        t = tf.term(bi)
        if t["k"] == "switch" and t["dty"] == "u8":
            for v, x in t["tg"]:
                vs = [st_["rv"]["kind"].get("var") for bj, sj, st_ in tf.stmts() if (bj == x or tf.dominates(x, bj)) and st_.get("rv") and st_["rv"]["k"] == "agg" and (st_["rv"]["kind"].get("adt") or "").endswith("FilterType")]
                if len(set(vs)) == 1:
                    tagmap[int(v)] = vs[0]
    want_tags = {0: "None", 1: "Sub", 2: "Up", 3: "Avg", 4: "Paeth"}
    ctx.ob(R, "png-filter-type-bytes", tagmap == want_tags, "filter type bytes %s" % tagmap, tf.where(),
           what="the PNG filter type byte is read as %s, the PNG specification says %s: rows written with the swapped types are reconstructed with the wrong formula" % (tagmap, want_tags))
    b = F.fn("filters::png::decode_row")
    names = png_roles(b)
    got = stores_with_range(b, names)
    gset = {}
    for t, r in got:
        gset[(t, r)] = gset.get((t, r), 0) + 1
    ctx.floor(R, "element stores in decode_row", len(got), 6)
    for key, why in PNG_DECODE.items():
        ctx.ob(R, "png-decode|%s" % why.split(":")[0].replace(",", ""), key in gset, "%s  [%s over %s..%s]" % (why, key[0], key[1][0], key[1][1]), b.where(),
               what="decode_row has no update of the PNG-specified shape for %s (expected `%s` for i in %s..%s)" % (why, key[0], key[1][0], key[1][1]))
    for key in gset:
        if key not in PNG_DECODE:
            ctx.finding(R, "png-decode|unspecified|%s" % key[0], "decode_row contains the update `%s` for i in %s..%s, which is not one of the PNG filter reconstruction formulas" % (key[0], key[1][0], key[1][1]), b.where())
    # row discipline of decode_frame: every row that reaches the output was reconstructed by decode_row(filter, bpp, previous,
    # current) and becomes `previous` for the next row (Up/Average/Paeth of row k+1 read row k, whatever its filter type was)
    df = F.fn("filters::png::decode_frame")
    dr = [c for c in df.calls if c.local and c.cname.endswith("png::decode_row")]
    okd, whyd = False, "decode_row is not called exactly once"
    if len(dr) == 1:
        # a row buffer is a local, or a field of a local that groups the two buffers
        def _id(o_):
            r_ = lib.origin_local(F, df, o_)
            return None if r_ is None or r_[0] is not df else (r_[1],) + tuple(e["f"] for e in r_[2] if isinstance(e, dict) and "f" in e)
        prev_l, cur_l = _id(dr[0].args[2]), _id(dr[0].args[3])
        loops = [(h, bl) for h, bl in df.loops().items() if dr[0].bb in bl]
        whyd = "decode_row is not inside the row loop"
        if loops and prev_l is not None and cur_l is not None and prev_l != cur_l:
            head, blocks = min(loops, key=lambda x: len(x[1]))
            swaps = [c for c in df.calls if c.bb in blocks and (c.fn or "").endswith("mem::swap")
                     and {_id(a) for a in c.args} == {prev_l, cur_l}]
            outs = []
            for c in df.calls:
                if c.bb in blocks and re.search(r"(write_all|extend_from_slice|extend|push|append)$", c.fn or "") and c.args:
                    o = lib.origin_local(F, df, c.args[0])
                    if o is not None and o[0] is df and _id(c.args[0]) not in (prev_l, cur_l) and not o[2] and df.lty(o[1]).startswith("std::vec::Vec<u8"):
                        outs.append(c)
            okd, whyd = bool(outs) and bool(swaps), "no output write / no swap(previous, current) in the row loop"
            for c in outs:
                src = _id(c.args[1]) if len(c.args) > 1 else None
                if not df.dominates(dr[0].bb, c.bb) or src is None or src != cur_l:
                    okd, whyd = False, "a row is appended to the output (line %d) that is not `current` after decode_row" % c.ln
                    break
                # from the write, the loop head cannot be reached again without the swap
                seen, st, esc = set(), [c.bb], False
                sw = {x.bb for x in swaps}
                while st:
                    x = st.pop()
                    if x in seen or x in sw:
                        continue
                    seen.add(x)
                    for y in df.succ[x]:
                        if y == head:
                            esc = True
                        elif y in blocks:
                            st.append(y)
                if esc:
                    okd, whyd = False, "after the output write at line %d the next row can start without swap(previous, current)" % c.ln
                    break
    ctx.ob("R-ORDER", "png-row-discipline", okd, "every emitted row is `current` after decode_row and becomes `previous` (swap) before the next row", df.where(),
           what="decode_frame: %s — the row above is wrong for the next Up/Average/Paeth row" % whyd)
    # filter type dispatch 0..4
    tf = F.fn("<FilterType as TryFrom>::try_from")
    sw = [tf.term(bi) for bi in range(tf.n) if tf.term(bi)["k"] == "switch"]
    vals = sorted(int(v) for t in sw for v, _ in t["tg"]) if sw else sorted(_filter_types_by_table(F, tf) or {})
    ctx.ob(R, "png-filter-types", vals == [0, 1, 2, 3, 4], "filter type bytes 0..4 are accepted", tf.where(), what="the PNG filter-type byte mapping is not 0..=4 (got %s)" % vals)
    # paeth_predict: p = a + b - c; order of preference a, b, c with <= comparisons
    pp = F.fn("filters::png::paeth_predict")
    pn = {1: "a", 2: "b", 3: "c"}
    old = pp.names
    try:
        pp.names = dict(pn)
        # derived names
        conds = []
        for bi in range(pp.n):
            t = pp.term(bi)
            if t["k"] == "switch":
                conds.append(pp.oname(t["d"], 8))
        rets = {}
        for bi, si, s in pp.stmts():
            if "lhs" in s and s["lhs"]["l"] == 0 and not s["lhs"]["p"]:
                rets[bi] = pp.rvname(s["rv"], 3)
    finally:
        pp.names = old
    pa = "abs(Sub(Sub(Add(a as W,b as W),c as W),a as W))"
    pb = "abs(Sub(Sub(Add(a as W,b as W),c as W),b as W))"
    pc = "abs(Sub(Sub(Add(a as W,b as W),c as W),c as W))"
    conds = [wide(c) for c in conds]
    want = ["Le(%s,%s)" % (pa, pb), "Le(%s,%s)" % (pa, pc), "Le(%s,%s)" % (pb, pc)]
    ctx.ob(R, "paeth-predictor", conds == want and sorted(rets.values()) == ["a", "b", "c"],
           "p = a + b - c; a if pa <= pb && pa <= pc; else b if pb <= pc; else c", pp.where(),
           what="paeth_predict is not the PNG Paeth predictor (comparisons %s, results %s)" % (conds, sorted(rets.values())))
    # encoder sibling: same operand shapes with wrapping_sub
    e = F.fn("filters::png::encode_row")
    en = png_roles(e)
    egot = set(t for t, r in stores_with_range(e, en))
    for t in ("*cur[i] = wrapping_sub(*cur[i],*cur[Sub(i,bpp)])", "*cur[i] = wrapping_sub(*cur[i],*prev[i])",
              "*cur[i] = wrapping_sub(*cur[i],paeth_predict(*cur[Sub(i,bpp)],*prev[i],*prev[Sub(i,bpp)]))", "*cur[i] = wrapping_sub(*cur[i],paeth_predict(0,*prev[i],0))"):
        ctx.ob("R-SIB", "png-encode|%s" % t[:60], t in egot, "encode_row mirrors decode_row: %s" % t, e.where(), what="encode_row no longer mirrors decode_row for `%s`" % t)


def length_rules(ctx, F):
    R = "R-WHO"
    # 1. who writes Stream.content
    allowed_w = {"Stream::set_content", "Stream::set_plain_content"}
    allowed_lit = {"Stream::new", "Stream::with_position", "<Stream as Clone>::clone", "Document::write_cross_reference_stream"}
    nacc = 0
    for p, b in sorted(F.bodies.items()):
        fn = F.canon_of(b)
        kinds = set(k for bi, k, ln, s in lib.field_accesses(b, "Stream", "content") if k in ("write", "borrow_mut"))
        if kinds:
            nacc += 1
            ctx.ob(R, "content-writer|%s" % fn, fn in allowed_w, "%s is a reviewed setter of Stream.content" % fn, b.where(),
                   what="%s assigns or mutably borrows Stream.content outside the reviewed setters: Length can no longer be guaranteed to equal the content length" % fn)
        for bi, s, fields in lib.struct_literals(b, "Stream"):
            if "content" in fields:
                nacc += 1
                ctx.ob(R, "stream-literal|%s" % fn, fn in allowed_lit, "%s builds a Stream by literal" % fn, b.where(s["ln"]),
                       what="%s builds a Stream by struct literal outside the reviewed constructors: Length is not set from the content" % fn)
    ctx.floor(R, "writers/literals of Stream.content", nacc, 4)
    # 2. each setter / constructor sets Length from the content it installs, on every path
    for fn, src in (("Stream::new", "content"), ("Stream::set_content", "content"), ("Stream::set_plain_content", "content")):
        b = F.fn(fn)
        sets = [c for c in b.calls if c.local and c.cname.endswith("Dictionary::set") and lib._const_bytes_through(b, c.args[1]) in (b"Length",)
                or (c.local and c.cname.endswith("Dictionary::set") and "Length" in b.oname(c.args[1], 4))]
        ok = False
        how = "no Dictionary::set(\"Length\", ..)"
        # a setter may hand its content on to another reviewed setter (set_plain_content -> set_content): Length is then set there
        for c in b.calls:
            if c.local and re.search(r"Stream::(set_content|new)$", c.cname) and c.cname != fn and len(c.args) >= 2:
                o_ = lib.origin_local(F, b, c.args[-1])
                rets_ = [x for x in b.reachable() if b.term(x)["k"] == "return"]
                if o_ is not None and o_[0] is b and 1 <= o_[1] <= b.argc and all(b.dominates(c.bb, r) for r in rets_):
                    ok, how = True, "delegates to %s with its own content argument" % c.cname.rsplit("::", 1)[-1]
        for c in sets:
            t = b.oname(c.args[2], 5)
            how = "Length = %s" % t
            rets = [x for x in b.reachable() if b.term(x)["k"] == "return"]
            on_all = all(c.bb in b.pdom.get(0, set()) or b.dominates(c.bb, r) for r in rets)
            if re.search(r"len\(&?\*?(self\.)?%s\)" % src, t) and on_all:
                ok = True
        ctx.ob("R-ORDER", "length-set|%s" % fn, ok, how, b.where(), what="%s does not set Length to the length of the content it installs on every path (%s)" % (fn, how))
    wx = F.fn("Document::write_cross_reference_stream")
    ls = [c for c in wx.calls if c.local and c.cname.endswith("Dictionary::set") and "Length" in wx.oname(c.args[1], 4)]
    # the value comes out of create_xref_steam as a component of its result (a tuple or a struct, it does not matter): there it
    # is the length of the serialised table
    okl, howl = False, "?"
    if len(ls) == 1:
        comp = lib.call_component(F, wx, ls[0].args[2])
        if comp is not None:
            g, o = comp
            howl = "%s: %s" % (F.canon_of(g), g.sname(o, 4))
            okl = F.canon_of(g).endswith("create_xref_steam") and re.match(r"^len\(", g.sname(o, 4).lstrip("&*")) is not None
    ctx.ob("R-ORDER", "length-set|write_cross_reference_stream", okl, "trailer Length = %s" % howl, wx.where(),
           what="the cross-reference stream's Length is not set from the serialised table's length (it is %s)" % howl)


def run(ctx):
    F = ctx.facts("default")
    length_rules(ctx, F)
    R = "R-WHO"
    # 3. compress
    cp = F.fn("Stream::compress")
    sc = [c for c in cp.calls if c.local and c.cname.endswith("Stream::set_content")]
    sf = [c for c in cp.calls if c.local and c.cname.endswith("Dictionary::set") and "Filter" in cp.oname(c.args[1], 4)]
    ok = len(sc) == 1 and len(sf) == 1
    how = ""
    if ok:
        env = guard.Env(cp)
        new = env.op_term(sc[0].args[1], (sc[0].bb, 10**6))
        newlen = guard.Term("len(%s)" % guard.strip_ref(repr(new)), 0, guard.len_reads(new.reads), "usize")
        oldlen = None
        S, used, okt = guard.knowledge(env, sc[0].bb, 10**6, [newlen])
        margin = None
        for n in S.nodes:
            if n and n.startswith("len(") and "content" in n:
                for k in range(64, -1, -1):
                    if S.implies(newlen, guard.Term(n, 0), -k - 1):
                        margin = k
                        break
        ok = margin is not None and margin >= 19
        how = "set_content(compressed) only under compressed.len() + %s < content.len()" % margin
        gd = [c for c, tr in __import__("inv").rendered_guards(cp, sc[0].bb)]
        okf = any(re.match(r"^is_err\(&?get\(.*Filter", g) for g in gd)
        ctx.ob("R-GUARD", "compress-only-unfiltered", okf, "compress acts only when no Filter entry exists", cp.where(),
               what="Stream::compress no longer skips streams that already carry a Filter: the existing filter chain would be lost or doubled")
        fv = lib._const_bytes_through(cp, sf[0].args[2]) or cp.oname(sf[0].args[2], 5)
        ctx.ob("R-SIB", "compress-filter-name", b"FlateDecode" in (fv if isinstance(fv, bytes) else fv.encode()), "Filter is set to FlateDecode", cp.where(),
               what="compress labels its zlib output with a filter name other than FlateDecode")
    ctx.ob("R-GUARD", "compress-never-longer", ok, how, cp.where(),
           what="Stream::compress can replace the content although the compressed bytes plus the 19 bytes of `/Filter/FlateDecode` are not shorter than the original (%s)" % how)
    # 4. decompress / set_plain_content remove every key the decoder consults
    dc = F.fn("Stream::decompressed_content")
    consulted = set()
    for body in [dc, F.fn("Stream::filters")]:
        for c in body.calls:
            if c.local and c.cname.endswith("Dictionary::get"):
                k = lib._const_bytes_through(body, c.args[1])
                if k:
                    consulted.add(k)
    ctx.floor("R-SIB", "dictionary keys consulted by decompressed_content", len(consulted), 2)
    for fn in ("Stream::decompress", "Stream::set_plain_content"):
        b = F.fn(fn)
        removed = set(lib._const_bytes_through(b, c.args[1]) for c in b.calls if c.local and c.cname.endswith("Dictionary::remove"))
        ctx.ob("R-SIB", "decoded-keys-removed|%s" % fn, consulted <= removed, "%s removes %s" % (fn, sorted(x.decode() for x in removed if x)), b.where(),
               what="%s leaves %s in the dictionary although the content is now plain: a later compress() or save produces a stream whose parameters no longer describe its data"
                    % (fn, sorted(x.decode() for x in consulted - removed)))
    d = F.fn("Stream::decompress")
    dcall = [c for c in d.calls if c.local and c.cname.endswith("Stream::decompressed_content")]
    scall = [c for c in d.calls if c.local and c.cname.endswith("Stream::set_content")]
    ctx.ob("R-ORDER", "decompress-through-setter", len(dcall) == 1 and len(scall) == 1 and d.dominates(dcall[0].bb, scall[0].bb) and d.oname(scall[0].args[1], 2) == "data",
           "decompress installs decompressed_content()? through set_content", d.where(), what="Stream::decompress no longer installs the decoded bytes through set_content")
    filter_rules(ctx, F)


def _feeds(b, rv, outs, depth=10):
    """does this rvalue denote (a reference to / a view of) one of the locals in outs?"""
    from mir import op_place as _opl

    def loc(l, depth):
        if l in outs:
            return True
        if depth <= 0:
            return False
        d = b.single_def(l)
        if d is None:
            return False
        if d[2] == "rv":
            return _feeds(b, d[3], outs, depth - 1)
        if d[2] == "call" and d[3]["args"] and (d[3]["f"].get("fn") or "").rsplit("::", 1)[-1] in ("deref", "as_slice", "as_ref", "borrow", "index"):
            q = _opl(d[3]["args"][0])
            return q is not None and loc(q["l"], depth - 1)
        return False
    if rv["k"] == "ref":
        return loc(rv["p"]["l"], depth)
    if rv["k"] in ("use", "cast"):
        q = _opl(rv["o"])
        return q is not None and loc(q["l"], depth)
    return False


def filter_rules(ctx, F):
    """what the decoders of structural and content streams must get right whatever the caller: dispatch by filter name, predictor
    parameters and range, PNG reconstruction, LZW and ASCII85 constants and defaults."""
    dc = F.fn("Stream::decompressed_content")
    # 5. dispatch table
    table = {}
    for c in dc.calls:
        if c.local and re.search(r"Stream::(decompress_zlib|decompress_lzw|decode_ascii85)$", c.cname):
            m = lib.slice_matches(dc, c.bb)
            for k, v in m.items():
                table[v] = c.name.rsplit("::", 1)[-1]
    # ... or the dispatch is a lookup of the filter name in a table of (name, decoder) pairs kept in data
    tdc = lib.table_dispatch_calls(F, dc)
    for c, lk, j in tdc:
        for row in lk["rows"]:
            if row[lk["key_field"]][0] == "bytes" and row[j][0] == "fn":
                table[row[lk["key_field"]][1]] = lib.fn_behind(F, row[j][1]).rsplit("::", 1)[-1]
    want = {b"FlateDecode": "decompress_zlib", b"LZWDecode": "decompress_lzw", b"ASCII85Decode": "decode_ascii85"}
    ctx.ob("R-TABLE", "filter-dispatch", table == want, "dispatch %s" % {k.decode(): v for k, v in table.items()}, dc.where(),
           what="the filter dispatch table is %s, expected %s" % ({k.decode(): v for k, v in table.items()}, {k.decode(): v for k, v in want.items()}))
    # 5a. a cascade of filters: each stage decodes what the previous stage produced.  The operand of the decoders is a variable
    # assigned from the stream content before the loop and from the result of the stage on every turn of the loop.
    import term as _term
    stages = [c for c in dc.calls if c.local and re.search(r"Stream::(decompress_zlib|decompress_lzw|decode_ascii85)$", c.cname)]
    stages += [c for c, lk, j in tdc]
    okp, whyp = False, "no decoder calls"
    loops_dc = dc.loops()
    if stages:
        from mir import op_place as _opl
        ins_ = set()
        for c in stages:
            q = _opl(c.args[0])
            rp = dc.root_place(q, through_names=False) if q is not None else None
            ins_.add(rp["l"] if rp is not None and not [e for e in rp["p"] if e != "*"] else None)
        inl = [(h, bl) for h, bl in loops_dc.items() if all(c.bb in bl for c in stages)]
        if len(ins_) != 1 or None in ins_ or not inl:
            whyp = "the decoders do not read one common variable inside one loop over the filters"
        else:
            iv = ins_.pop()
            head, blocks = min(inl, key=lambda t: len(t[1]))
            dsts = {c.dest["l"] for c in stages}
            outs = set(dsts)
            # the result variable: what the stage results are moved into (through `?`)
            for _ in range(6):
                for _b, _s, st_ in dc.stmts():
                    if "lhs" in st_ and not st_["lhs"]["p"] and st_["rv"]["k"] == "use" and _opl(st_["rv"]["o"]) is not None and _opl(st_["rv"]["o"])["l"] in outs:
                        outs.add(st_["lhs"]["l"])
                for c2 in dc.calls:
                    if (c2.fn or "").endswith("ops::Try::branch") and c2.args and _opl(c2.args[0]) is not None and _opl(c2.args[0])["l"] in outs:
                        outs.add(c2.dest["l"])
            inside = [d for d in dc.defs.get(iv, []) if d[0] in blocks and d[2] == "rv"]
            outside = [d for d in dc.defs.get(iv, []) if d[0] not in blocks]
            fed = [d for d in inside if _feeds(dc, d[3], outs)]
            if not outside:
                whyp = "the decoder input is not initialised from the stream content before the loop"
            elif not fed:
                whyp = "inside the loop the decoder input is never re-assigned from the output of the stage: every filter of a cascade decodes the raw stream content"
            elif not _term.every_cycle_passes(dc, head, blocks, [d[0] for d in fed]):
                whyp = "a turn of the loop can go round again without handing the stage's output on"
            else:
                okp, whyp = True, "input = content before the loop, input = &output on every turn"
    ctx.ob("R-ORDER", "filter-cascade-feeds-forward", okp, whyp, dc.where(),
           what="Stream::decompressed_content: %s (a stream with /Filter [/ASCII85Decode /FlateDecode] is inflated from its ASCII85 text)" % whyp)
    # 5b. both filters that can carry a predictor (ISO 32000-1 Table 8: LZWDecode and FlateDecode) undo it: what they return is
    # the result of decompress_predictor(decoded, params)
    for fn_ in ("Stream::decompress_zlib", "Stream::decompress_lzw"):
        fb_ = F.fn(fn_)
        pcs = [(x, c) for x in lib.local_scope(F, fb_) for c in x.calls if c.local and c.cname.endswith("Stream::decompress_predictor")]
        okq = False
        if len(pcs) == 1 and pcs[0][0] is fb_:
            c = pcs[0][1]
            # its own DecodeParms parameter (the Option<&Dictionary> one), wherever it stands in either list
            own = [i for i in range(1, fb_.argc + 1) if "Dictionary" in fb_.lty(i) and fb_.lty(i).startswith("std::option::Option")]
            okq = c.dest["l"] == 0 and not c.dest["p"] and len(own) == 1 and any(lib.same_origin(F, fb_, a_, fb_, own[0]) for a_ in c.args)
        ctx.ob("R-SIB", "predictor-undone|%s" % fn_.rsplit("::", 1)[-1], okq, "%s returns decompress_predictor(decoded, params)" % fn_, fb_.where(),
               what="%s does not return decompress_predictor(decoded data, its DecodeParms): a stream of this filter with /Predictor >= 2 comes out with the filter-type bytes and the deltas still in it" % fn_)
    # 5bb. a filter chain is a sequence: the same filter may be applied twice ([/FlateDecode /FlateDecode]); what Stream::filters
    # returns keeps order and repeats (a Vec, not a set)
    fl_ = F.fn("Stream::filters")
    rt_ = fl_.lty(0)
    ctx.ob("R-TABLE", "filter-chain-is-a-sequence", "Vec<" in rt_ and not re.search(r"Set<|Map<", rt_), "Stream::filters returns %s" % rt_[:70], fl_.where(),
           what="Stream::filters returns %s: a filter named twice in /Filter is applied once, and the stream decodes one layer short" % rt_[:90])
    # 5c. the inflater's whole output is taken: read_to_end on the decoder, with no length-limiting adaptor in between (`take(n)`
    # reports a normal end of data at its limit: the rest of a highly compressible stream is dropped without an error)
    zb = F.fn("Stream::decompress_zlib")
    zsc = lib.local_scope(F, zb)
    rte = [c for x in zsc for c in x.calls if re.search(r"io::Read::(read_to_end|read_to_string)$", c.fn or "")]
    lim = [(x, c) for x in zsc for c in x.calls if re.search(r"io::Read::(take|chain)$|io::Take::<.*>::set_limit$", c.fn or "")]
    ctx.ob("R-ORDER", "inflate-reads-to-the-end", len(rte) >= 1 and not lim, "decompress_zlib reads the decoder to its end (%d read_to_end, no take/chain)" % len(rte), zb.where(),
           what="decompress_zlib limits what it reads from the inflater (%s): data beyond the limit is dropped silently, the stream decodes to a prefix of its content and Stream::decompress makes the loss permanent"
                % ([("%s at line %d" % ((c.fn or "").rsplit("::", 1)[-1], c.ln)) for x, c in lim] or "no read_to_end"))
    # 6. predictor geometry
    pr = F.fn("Stream::decompress_predictor")
    import byteset
    from mir import op_place
    # the variable: the local that receives .get(b"Predictor")....unwrap_or(1); the PNG path: the block calling decode_frame.
    # Value-set analysis over the window 0..=255 of that variable: the PNG path is taken for exactly {10..15}.
    pvar = None
    for c in pr.calls:
        if c.local and c.cname.endswith("Dictionary::get") and lib._const_bytes_through(pr, c.args[1]) == b"Predictor" and not c.dest["p"]:
            cur = c.dest["l"]
            for _ in range(8):
                if cur in pr.names:
                    break
                nxt = [c2 for c2 in pr.calls if c2.args and op_place(c2.args[0]) is not None and op_place(c2.args[0]) == {"l": cur, "p": []}]
                mv = [st_["lhs"]["l"] for _bi, _si, st_ in pr.stmts() if "lhs" in st_ and not st_["lhs"]["p"] and st_["rv"]["k"] == "use"
                      and op_place(st_["rv"]["o"]) == {"l": cur, "p": []}]
                if len(nxt) == 1 and not nxt[0].dest["p"] and not mv:
                    cur = nxt[0].dest["l"]
                elif len(mv) == 1 and not nxt:
                    cur = mv[0]
                else:
                    break
            if cur in pr.names and pr.lty(cur) == "i64":
                pvar = cur
    png = [c for c in pr.calls if c.local and c.cname.endswith("png::decode_frame")]
    got = None
    if pvar is not None and len(png) == 1:
        aliases = {pvar}
        for bi, si, st_ in pr.stmts():
            if "lhs" in st_ and not st_["lhs"]["p"] and st_["rv"]["k"] == "use":
                q = op_place(st_["rv"]["o"])
                if q is not None and not q["p"] and q["l"] in aliases and len(pr.defs.get(st_["lhs"]["l"], [])) == 1:
                    aliases.add(st_["lhs"]["l"])
        def is_var(o):
            q = op_place(o)
            return q is not None and not q["p"] and q["l"] in aliases
        bv = byteset.ByteVar(F, pr, is_var)
        R = bv.reach_sets()
        got = R.get(png[0].bb, frozenset())
        if bv.unknown:
            got = None
    ctx.ob("R-TABLE", "predictor-range", got == frozenset(range(10, 16)), "PNG predictors are 10..=15 (value set reaching png::decode_frame)", pr.where(),
           what="decompress_predictor does not treat exactly the predictor values 10..=15 as PNG predictors (values reaching png::decode_frame: %s)"
                % (byteset.fmt_set(got) if got is not None else "undetermined"))
    keys = set(lib._const_bytes_through(b2, c.args[1]) for b2 in F.with_closures(pr) for c in b2.calls if c.local and c.cname.endswith("Dictionary::get"))
    ctx.ob("R-TABLE", "predictor-params", {b"Predictor", b"Columns", b"Colors", b"BitsPerComponent"} <= keys, "Predictor, Columns, Colors, BitsPerComponent are read", pr.where(),
           what="decompress_predictor no longer reads all of Predictor, Columns, Colors, BitsPerComponent")
    predictor_geometry(ctx, F, pr, png)
    png_rules(ctx, F)
    # 7. LZW / ASCII85 constants
    lz = F.fn("Stream::decompress_lzw")
    dec = [c for c in lz.calls if re.search(r"weezl::decode::Decoder::(new|with_tiff_size_switch)$", c.fn or "")]
    okl = len(dec) == 2 and all(lz.oname(c.args[1], 3) in ("8", "Sub(9,1)") for c in dec) and all("Msb" in lz.oname(c.args[0], 3) for c in dec)
    ctx.ob("R-TABLE", "lzw-constants", okl, "LZW: MSB-first, minimum code size 8 (9-bit codes), both EarlyChange variants", lz.where(),
           what="the LZW decoder is not configured MSB-first with 9-bit initial codes for both EarlyChange settings")
    ek = set(lib._const_bytes_through(b2, a) for b2 in F.with_closures(lz) for c in b2.calls if c.local and c.cname.endswith("Dictionary::get") for a in c.args[1:])
    ctx.ob("R-TABLE", "lzw-earlychange", b"EarlyChange" in ek, "EarlyChange is read", lz.where(), what="EarlyChange is no longer read")
    a85 = F.fn("Stream::decode_ascii85")
    # structural renderings (names and helper boundaries do not matter): x.checked_mul(85), a digit `ch - 33`, the padding digit 84
    mul85 = any((c.fn or "").endswith("checked_mul") and a85.sname(c.args[1], 4) == "85" for c in a85.calls)
    adds = [a85.sname(c.args[1], 6) for c in a85.calls if (c.fn or "").endswith("checked_add")]
    terms = [a85.sname({"c": s["lhs"]}, 6) if False else a85.rvname(s["rv"], 4) for bi, si, s in a85.stmts() if "lhs" in s and s["rv"]["k"] != "agg"]
    pad84 = "84" in adds or any(re.search(r"Add\(.*,84\)", t) for t in terms)
    sub33 = any(re.search(r"Sub\([^,()]+,33\)", t) for t in terms + adds)
    ok85 = mul85 and pad84 and sub33
    ctx.ob("R-TABLE", "ascii85-constants", ok85, "base 85, digit = ch - '!', padding digit 84", a85.where(), what="ASCII85 decoding lost one of its constants (base 85, offset 33, padding 84)")
    # EarlyChange defaults to 1 when the entry (or DecodeParms) is absent: the value that selects the decoder comes out of
    # `unwrap_or(true)` / `map_or(true, ..)`, not of a combinator whose default is false
    sel = [c for c in lz.calls if re.search(r"option::Option::<.*>::(unwrap_or|map_or|is_some_and|is_none_or|unwrap_or_default|unwrap_or_else)$", c.fn or "")
           and lz.lty(c.dest["l"]) == "bool" and not c.dest["p"]]
    okd = False
    for c in sel:
        short = (c.fn or "").rsplit("::", 1)[-1]
        if short == "unwrap_or":
            okd = lz.oname(c.args[1], 2) == "1"
        elif short == "map_or":
            okd = lz.oname(c.args[1], 2) == "1"
        elif short == "is_none_or":
            okd = True
    if not sel:
        # the selector is a two-valued private enum instead of a bool: the default variant is the one whose arm builds the
        # early-change decoder
        def _fieldless(t_):
            a_ = F.adts.get(t_)
            return a_ is not None and a_.get("enum") and not any(v_["fields"] for v_ in a_["variants"]) and all("discr" in v_ for v_ in a_["variants"])
        sel = [c for c in lz.calls if re.search(r"option::Option::<.*>::(unwrap_or|map_or)$", c.fn or "") and _fieldless(lz.lty(c.dest["l"])) and not c.dest["p"]]
        for c in sel:
            dv = lz.def_rv(c.args[1])
            dv = dv[3] if dv and dv[2] == "rv" else None
            if not (dv and dv["k"] == "agg" and dv["kind"].get("adt") == lz.lty(c.dest["l"])):
                continue
            want_d = [v_["discr"] for v_ in F.adts[lz.lty(c.dest["l"])]["variants"] if v_["name"] == dv["kind"].get("var")]
            for bi in range(lz.n):
                t_ = lz.term(bi)
                if t_["k"] != "switch" or not want_d:
                    continue
                dd = lz.def_rv(t_["d"])
                dd = dd[3] if dd and dd[2] == "rv" else None
                if not (dd and dd["k"] == "discr" and not dd["p"]["p"] and dd["p"]["l"] == c.dest["l"]):
                    continue
                tgt = [x for v, x in t_["tg"] if int(v) == want_d[0]] or [t_["else"]]
                others = {x for v, x in t_["tg"]} | {t_["else"]}
                seen_, st_, hit = set(), [tgt[0]], set()
                while st_:
                    x = st_.pop()
                    if x in seen_ or (x in others and x != tgt[0]):
                        continue
                    seen_.add(x)
                    cs_ = lz.callsite_at(x)
                    if cs_ is not None and re.search(r"weezl::decode::Decoder::(new|with_tiff_size_switch)$", cs_.fn or cs_.name):
                        hit.add((cs_.fn or cs_.name).rsplit("::", 1)[-1])
                        continue
                    st_.extend(y for y in lz.succ[x] if not lz.blocks[y].get("cleanup"))
                okd = hit == {"with_tiff_size_switch"}
    ctx.ob("R-TABLE", "lzw-earlychange-default", len(sel) == 1 and okd, "a missing EarlyChange means 1 (early change)", lz.where(),
           what="decompress_lzw treats a missing /EarlyChange (or missing DecodeParms) as 0: the standard's default is 1, so streams of more than 253 codes written by other producers decode to garbage "
                "(object and cross-reference streams with /LZWDecode silently lose their objects)")
