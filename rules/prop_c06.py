"""C06 — the standard security handler agrees with the ISO 32000 algorithms (DESIGN §4 C06): spec constants and primitive
choices only, plus the data-flow rule R-DEAD (the block handed to a cipher is the block that is kept)."""
import re
import lib
from mir import op_place, op_const, const_int, const_bytes, AnchorLost

LEVEL = dict(
    level="other",
    rule_text="one obligation per constant or primitive choice the standard fixes (Algorithms 1, 1.A, 2, 2.A, 2.B, 3-13): the fact is "
              "read from the MIR of the named algorithm function (constants, loop ranges, resolved callees, rendered branch "
              "conditions, argument terms); R-DEAD: a compiler temporary that is mutably borrowed for an in-place transformation "
              "and never read afterwards; revision dispatch by value-set analysis (a *_r2/_r3_r4/_r4/_r6 method is selected for exactly those revisions); set-before-read for the PasswordAlgorithm under construction (Algorithm 9 needs U before O); SHA-256/384/512 selection by (sum of E[..16]) mod 3",
    explanation="Decides that the constants and primitive choices ISO 32000 fixes are the ones the code uses, and that no in-place "
                "cipher call works on a discarded copy. Does not decide that the algorithms compose correctly or that any ciphertext "
                "matches another implementation: agreement with the standard beyond these facts is outside static reach.",
    trusted_base=["rustc MIR and callee resolution", "ISO 32000-1 §7.6 / ISO 32000-2 §7.6 constants embedded in the rule table"],
)
LEVEL["rule_text"] += '; Algorithm 2(h) re-hashes the first n bytes of each MD5 output, Algorithms 3(c) and 7 the whole 16; a method called on a security handler under construction computes from no field that still holds the placeholder of ..Default::default() (Algorithm 9 needs the U string)'

PAD = "28bf4e5e4e758a4164004e56fffa01082e2e00b6d0683e802f0ca9fe6453697a"


def nz(x):
    return x.replace("&", "").replace("*", "")


def facts_of(F, fn, raw=False):
    """rendered facts of an algorithm function.  Renderings are structural (a local assigned once shows as its defining
    expression), parameters show by position (arg1 = self), other names as $n, and borrow/deref markers are dropped — so
    that renaming a variable, introducing a `let`, or changing `&x` to `x` does not change any fact."""
    out = {"conds": [], "ranges": [], "calls": [], "consts": [], "stores": []}
    for b in F.fns(fn):
        # the function, its closures and the crate-local helpers it calls (a refactoring into a helper keeps the facts visible)
        scope = [F.bodies[q] for q in sorted(F.reach([b.path])) if not re.search(r"Document::|Dictionary::|Object::|Stream::", F.canon_of(F.bodies[q]))]
        if b not in scope:
            scope.append(b)
        for body in scope:
            def R(o, d=12):
                if raw:
                    return body.oname(o, 6)
                with body.alpha(args=True):
                    return nz(body.sname(o, d))
            for bi in range(body.n):
                t = body.term(bi)
                if t["k"] == "switch":
                    out["conds"].append(R(t["d"]))
            for c in body.calls:
                n = lib.canon_callee(F, c)
                short = n.rsplit("::", 1)[-1]
                args = [R(a) for a in c.args]
                out["calls"].append("%s(%s)" % (short, ", ".join(args)))
                if (c.fn or "").endswith("IntoIterator::into_iter") and "Range" in (c.full or ""):
                    if raw:
                        out["ranges"].append(R(c.args[0]))
                    else:
                        # a bound chosen between two constants by one test shows as that conditional expression
                        with body.alpha(args=True):
                            rs = nz(body.sname(c.args[0], 12))
                            am = dict(body._alpha)
                        for l, nm in am.items():
                            if isinstance(l, int) and re.search(re.escape(nm) + r"\b", rs):
                                sel = lib.sel_consts(body, l)
                                if sel is not None:
                                    rs = re.sub(re.escape(nm) + r"\b", lambda m_: sel, rs)
                        out["ranges"].append(rs)
                for a in c.args:
                    k = lib._const_bytes_through(body, a)
                    if k is not None:
                        out["consts"].append(k)
            for bi, si, s in body.stmts():
                rv = s.get("rv")
                if rv and rv["k"] == "use":
                    k = op_const(rv["o"])
                    if k is not None and const_bytes(k) is not None:
                        out["consts"].append(const_bytes(k))
                if "lhs" in s and s["lhs"]["p"]:
                    out["stores"].append("%s = %s" % (body.pname(s["lhs"], 3), body.rvname(s["rv"], 5)))
    if not F.fns(fn):
        raise AnchorLost("function %s not found" % fn)
    return out


def has(lst, rx):
    r = re.compile(rx)
    return sum(1 for x in lst if r.search(x))


# (id, function, kind, regex or bytes, minimum count, what it means)
TABLE = [
    ("alg2.pad-32", "PasswordAlgorithm::compute_file_encryption_key_r4", "calls", r"^min\(len\(.+\), 32\)$", 1, "Algorithm 2(a): pad or truncate the password to exactly 32 bytes"),
    ("alg2.pad-rest", "PasswordAlgorithm::compute_file_encryption_key_r4", "calls", r"^index\(.*RangeTo::RangeTo\{Sub\(32,.+\)\}\)$", 1, "Algorithm 2(a): append the first 32 - len bytes of the padding string"),
    ("alg2.O", "PasswordAlgorithm::compute_file_encryption_key_r4", "calls", r"^update\(.+, arg1\.owner_value\)$", 1, "Algorithm 2(c): pass the O entry to MD5"),
    ("alg2.P-le32", "PasswordAlgorithm::compute_file_encryption_key_r4", "calls", r"^to_le_bytes\(p_value\(arg1\.permissions\) as u32\)$", 1, "Algorithm 2(d): P as an unsigned 32-bit value, low-order byte first"),
    ("alg2.fileid", "PasswordAlgorithm::compute_file_encryption_key_r4", "calls", r"^update\(.+, .*\bfirst\(.*\)$", 1, "Algorithm 2(e): first element of the file identifier"),
    ("alg2.metadata-ff", "PasswordAlgorithm::compute_file_encryption_key_r4", "consts", b"\xff\xff\xff\xff", 1, "Algorithm 2(f): 0xFFFFFFFF when metadata is not encrypted"),
    ("alg2.metadata-rev4", "PasswordAlgorithm::compute_file_encryption_key_r4", "conds", r"^Ge\(arg1\.revision,4\)$", 1, "Algorithm 2(f): only for revision 4 or greater"),
    ("alg2.metadata-flag", "PasswordAlgorithm::compute_file_encryption_key_r4", "conds", r"^arg1\.encrypt_metadata$", 1, "Algorithm 2(f): only if EncryptMetadata is false"),
    ("alg2.md5-50", "PasswordAlgorithm::compute_file_encryption_key_r4", "ranges", r"^Range::Range\{0,50\}$", 1, "Algorithm 2(h): 50 further MD5 rounds"),
    ("alg2.rev3", "PasswordAlgorithm::compute_file_encryption_key_r4", "conds", r"^Ge\(arg1\.revision,3\)$", 2, "Algorithm 2(h,i): revision 3 or greater"),
    ("alg2.keylen-16", "PasswordAlgorithm::compute_file_encryption_key_r4", "conds", r"^Gt\((?:\$\d+|arg\d+),16\)$", 1, "Algorithm 2(i): at most 16 bytes of the hash"),
    ("alg2.md5-first-n", "PasswordAlgorithm::compute_file_encryption_key_r4", "calls", r"^digest\(index\(.*RangeTo::RangeTo\{.+\}\)\)$", 1, "Algorithm 2(h): each of the 50 rounds hashes the first n bytes of the previous output"),
    ("alg3.md5-whole", "PasswordAlgorithm::compute_hashed_owner_password_r4", "calls", r"^digest\((?!.*Range(?!Full)).*\)$", 1, "Algorithm 3(c): each of the 50 rounds hashes the whole 16-byte output of the previous one (not its first n bytes, which is Algorithm 2's rule)"),
    ("alg7.md5-whole", "PasswordAlgorithm::recover_user_password_r4", "calls", r"^digest\((?!.*Range(?!Full)).*\)$", 1, "Algorithm 7(a) = 3(a)-(d): each of the 50 rounds hashes the whole 16-byte output of the previous one"),
    ("alg3.md5-50", "PasswordAlgorithm::authenticate_owner_password_r4", "ranges", r"^Range::Range\{0,50\}$", 1, "Algorithm 3(c)/7: 50 further MD5 rounds"),
    ("alg7.rc4-19-down", "PasswordAlgorithm::authenticate_owner_password_r4", "ranges", r"^rev\(new\((1,19|0,sel\(19 if Ge\(arg1\.revision,3\) else 0\))\)\)$", 1, "Algorithm 7(b): RC4 with keys XOR 19 down to 1 (followed by the plain key, which is counter 0: 19 down to 0 for revision 3 or greater, 0 alone otherwise)"),
    ("alg7.rev3", "PasswordAlgorithm::recover_user_password_r4", "conds", r"^Ge\(arg1\.revision,3\)$", 3, "Algorithm 3(c),(d) / 7(b): the 50 MD5 rounds, the key length and the 19 RC4 passes each depend on revision 3 or greater"),
    ("alg7.pad-32", "PasswordAlgorithm::recover_user_password_r4", "calls", r"^update\(.+, index\(.+,RangeTo::RangeTo\{min\(len\(.+\),32\)\}\)\)$", 1, "Algorithm 3(a)/7(a): the first min(len, 32) bytes of the owner password are hashed"),
    ("alg7.pad-rest", "PasswordAlgorithm::recover_user_password_r4", "calls", r"^update\(.+, index\(.+RangeTo::RangeTo\{Sub\(32,min\(len\(.+\),32\)\)\}\)\)$", 1, "Algorithm 3(a)/7(a): followed by the first 32 - len bytes of the padding string"),
    ("pkcs5.unpad-range", "<Pkcs5 as RawPadding>::raw_unpad", "conds", r"^Gt\(.+ as usize,len\((arg1|\$\d+)\)\)$", 1, "RFC 8018 / ISO 32000-1 7.6.2: the padding length n is valid for 1 <= n <= block size (a whole block of padding is legal): rejected only if n > block size"),
    ("pkcs5.unpad-zero", "<Pkcs5 as RawPadding>::raw_unpad", "conds", r"^Eq\(.+,0\)$", 1, "a padding length of 0 is invalid"),
    ("alg5.pad", "PasswordAlgorithm::compute_hashed_user_password_r3_r4", "calls", r"^update\(.+, encryption::algorithms::PAD_BYTES\)$", 1, "Algorithm 5(b): MD5 of the padding string"),
    ("alg5.round-key-length", "PasswordAlgorithm::compute_hashed_user_password_r3_r4", "calls", r"^(?:new|encrypt)\(.*from_elem\(0,len\(.*compute_file_encryption_key_r4\(", 1, "Algorithm 5(e): the key of each of the 19 rounds is the file encryption key XOR the counter, byte for byte: exactly as long as the file encryption key (n bytes, not 16)"),
    ("alg5.rc4-19-up", "PasswordAlgorithm::compute_hashed_user_password_r3_r4", "ranges", r"^new\(1,19\)$", 1, "Algorithm 5(e): RC4 with keys XOR 1 to 19"),
    ("alg1.objnum-3le", "<Rc4CryptFilter as CryptFilter>::compute_key", "calls", r"^index\(to_le_bytes\(arg3\.0\), RangeTo::RangeTo\{3\}\)$", 1, "Algorithm 1(b): low-order 3 bytes of the object number, low-order byte first"),
    ("alg1.gen-2le", "<Rc4CryptFilter as CryptFilter>::compute_key", "calls", r"^index\(to_le_bytes\(arg3\.1\), RangeTo::RangeTo\{2\}\)$", 1, "Algorithm 1(b): low-order 2 bytes of the generation number, low-order byte first"),
    ("alg1.keylen", "<Rc4CryptFilter as CryptFilter>::compute_key", "calls", r"^min\(Add\(len\(arg2\),5\), 16\)$", 1, "Algorithm 1(d): first min(n + 5, 16) bytes"),
    ("alg1a.objnum-3le", "<Aes128CryptFilter as CryptFilter>::compute_key", "calls", r"^index\(to_le_bytes\(arg3\.0\), RangeTo::RangeTo\{3\}\)$", 1, "Algorithm 1(b) for AES: low-order 3 bytes of the object number"),
    ("alg1a.gen-2le", "<Aes128CryptFilter as CryptFilter>::compute_key", "calls", r"^index\(to_le_bytes\(arg3\.1\), RangeTo::RangeTo\{2\}\)$", 1, "Algorithm 1(b) for AES: low-order 2 bytes of the generation number"),
    ("alg1a.salt", "<Aes128CryptFilter as CryptFilter>::compute_key", "consts", b"sAlT", 1, "Algorithm 1(c): the bytes 73 41 6C 54"),
    ("alg1a.keylen", "<Aes128CryptFilter as CryptFilter>::compute_key", "calls", r"^min\(Add\(len\(arg2\),5\), 16\)$", 1, "Algorithm 1(d): first min(n + 5, 16) bytes"),
    ("alg2a.truncate-127", "PasswordAlgorithm::compute_file_encryption_key_r6", "conds", r"^Gt\(len\(.+\),127\)$", 1, "Algorithm 2.A(a): truncate the password to 127 bytes"),
    ("alg2a.owner-salts", "PasswordAlgorithm::compute_file_encryption_key_r6", "calls", r"RangeFrom::RangeFrom\{(32|40)\}", 4, "Algorithm 2.A: validation salt at 32..40 and key salt at 40..48 of O and U"),
    ("alg2b.sha-mod3", "PasswordAlgorithm::compute_hash", "conds", r"^Rem\(.+,3\)$", 1, "Algorithm 2.B(d): the sum of the first 16 bytes of E modulo 3 selects SHA-256/384/512"),
    ("alg2b.64-rounds", "PasswordAlgorithm::compute_hash", "conds", r"^Ge\(next\(.*RangeFrom::RangeFrom\{1\}\)\)@Some\.0,64\)$", 1, "Algorithm 2.B(e,f): at least 64 rounds"),
    ("alg2b.exit-le", "PasswordAlgorithm::compute_hash", "conds", r"^Le\(.*last\(.* as u32,Sub\(next\(.*RangeFrom::RangeFrom\{1\}\)\)@Some\.0,32\)\)$", 1, "Algorithm 2.B(f): stop when the last byte of E is <= round - 32 (less than or EQUAL)"),
    ("alg2b.64-copies", "PasswordAlgorithm::compute_hash", "ranges", r"^Range::Range\{0,64\}$", 1, "Algorithm 2.B(a): 64 repetitions of password || K || user key"),
    ("alg2b.k1-user-key", "PasswordAlgorithm::compute_hash", "calls", r"^extend_from_slice\(\$\d+, arg\d+@Some\.0\)$", 1, "Algorithm 2.B(a): K1 is password || K || the 48-byte user key when the owner values are computed"),
    ("alg2b.key-iv", "PasswordAlgorithm::compute_hash", "calls", r"RangeFrom::RangeFrom\{16\}", 1, "Algorithm 2.B(b): key = K[0..16], IV = K[16..32]"),
    ("alg2b.first16", "PasswordAlgorithm::compute_hash", "calls", r"^index\((?:\$\d+|arg\d+), RangeTo::RangeTo\{16\}\)$", 1, "Algorithm 2.B(c): the first 16 bytes of E"),
    ("alg11.truncate-127", "PasswordAlgorithm::authenticate_user_password_r6", "conds", r"^Gt\(len\(.+\),127\)$", 1, "Algorithm 11: truncate to 127 bytes"),
    ("alg12.truncate-127", "PasswordAlgorithm::authenticate_owner_password_r6", "conds", r"^Gt\(len\(.+\),127\)$", 1, "Algorithm 12: truncate to 127 bytes"),
    ("alg10.P-le64", "PasswordAlgorithm::compute_permissions", "calls", r"^to_le_bytes\(p_value\(arg1\.permissions\)\)$", 1, "Algorithm 10(a): P extended to 64 bits, little endian"),
    ("alg10.metadata-flag", "PasswordAlgorithm::compute_permissions", "conds", r"^arg1\.encrypt_metadata$", 1, "Algorithm 10(c): byte 8 is T or F"),
]


def sha_dispatch(F, b):
    """the 3-way selection of Algorithm 2.B(d): (mapping residue -> SHA variant, description of the selector) or None."""
    import guard
    env = guard.Env(b)
    for bi in range(b.n):
        t = b.term(bi)
        if t["k"] != "switch" or t["dty"] == "bool":
            continue
        p = op_place(t["d"])
        if p is None or p["p"]:
            continue
        d = b.single_def(p["l"])
        if not (d and d[2] == "rv" and d[3]["k"] == "bin" and d[3]["op"] == "Rem"):
            continue
        k = op_const(d[3]["b"])
        if k is None or const_int(k) != 3:
            continue
        mapping = {}
        for v, x in t["tg"]:
            seen = set()
            while x not in seen:
                seen.add(x)
                tt = b.term(x)
                if tt["k"] == "call":
                    m = re.search(r"OidSha(\d+)>> as \w+::Digest>::digest", tt["f"].get("full") or "")
                    if m:
                        mapping[int(v)] = int(m.group(1))
                        break
                ns = [y for y in b.succ[x] if not b.blocks[y].get("cleanup")]
                if len(ns) != 1:
                    break
                x = ns[0]
        X = d[3]["a"]
        with b.alpha(args=True):
            r = nz(b.sname(X, 12))
        sel = None
        if re.search(r"^sum\(.*RangeTo::RangeTo\{16\}", r):
            sel = "sum over [..16]"
        else:
            xp = op_place(X)
            l = xp["l"] if xp is not None and not xp["p"] else None
            for _ in range(4):
                if l is None or len(b.defs.get(l, [])) != 1:
                    break
                dd = b.single_def(l)
                if dd[2] == "rv" and dd[3]["k"] == "use" and op_place(dd[3]["o"]) is not None and not op_place(dd[3]["o"])["p"]:
                    l = op_place(dd[3]["o"])["l"]
                else:
                    break
            if l is not None and env.accumulator_bound(l) == 16 * 255:
                sel = "accumulator over 16 bytes"
        return mapping, sel, r
    return None


REV_SETS = {"r2": {2}, "r3_r4": {3, 4}, "r4": {2, 3, 4}, "r5": {5}, "r6": {5, 6}}


def revision_dispatch(ctx, F):
    """every revision-specific method (`*_r2`, `*_r3_r4`, `*_r4`, `*_r6`) that a general method of PasswordAlgorithm
    selects is reached for exactly the revisions its algorithm is defined for (value-set analysis over self.revision)."""
    import byteset
    n = 0
    for pth, b in sorted(F.bodies.items()):
        fn = F.canon_of(b)
        if not fn.startswith("PasswordAlgorithm::") or b.kind == "Closure" or re.search(r"_r\d(_r\d)*$", fn):
            continue
        tgt = [c for c in b.calls if c.local and re.search(r"PasswordAlgorithm::\w+?_(r\d(?:_r\d)*)$", c.cname)]
        if not tgt:
            continue

        def is_var(o, b=b):
            p = op_place(o)
            if p is None:
                return False
            rp = b.root_place(p, through_names=True)
            pr = [e for e in rp["p"] if e != "*"]
            return rp["l"] == 1 and len(pr) == 1 and isinstance(pr[0], dict) and pr[0].get("n") == "revision"
        bv = byteset.ByteVar(F, b, is_var)
        R = bv.reach_sets()
        for c in tgt:
            suf = re.search(r"_(r\d(?:_r\d)*)$", c.cname).group(1)
            want = REV_SETS.get(suf)
            got = set(R.get(c.bb, frozenset())) & set(range(0, 16))
            n += 1
            ctx.ob("R-TABLE", "revision-dispatch|%s|%s" % (fn, c.cname.rsplit("::", 1)[-1]), want is not None and got == want and not bv.unknown,
                   "%s calls %s for revisions %s" % (fn, c.cname.rsplit("::", 1)[-1], sorted(got)), b.where(c.ln),
                   what="%s selects %s for revisions %s; the algorithm it implements is defined for revisions %s"
                        % (fn, c.cname.rsplit("::", 1)[-1], sorted(got), sorted(want or [])))
    ctx.floor("R-TABLE", "revision dispatch sites", n, 8)


def identity_only_by_name(ctx, F, R="R-TABLE"):
    # ... and ONLY that name: wherever the fallback makes an IdentityCryptFilter, the comparison of the name with `Identity` was
    # true (an empty StmF/StrF — every V 1 / V 2 handler — must still get RC4, or `encrypt` leaves the document in plaintext)
    import inv as _inv
    nid = 0
    for q in sorted(F.reach([F.fn("EncryptionState::get_stream_filter").path, F.fn("EncryptionState::get_string_filter").path])):
        qb = F.bodies[q]
        if "encryption" not in qb.file:          # src/encryption.rs and the modules below it
            continue
        for c in qb.calls:
            if re.search(r"sync::Arc::<.*IdentityCryptFilter.*>::new$|sync::Arc::<T>::new$", c.fn or "") and "IdentityCryptFilter" in (c.full or ""):
                nid += 1
                gs = _inv.rendered_guards(qb, c.bb)
                okid = any("Identity" in g and tr for g, tr in gs)
                ctx.ob(R, "identity-only-by-name|%s" % F.canon_of(qb), okid, "the identity filter is chosen under the test of the name against `Identity`", qb.where(c.ln),
                       what="%s chooses the identity crypt filter without the name having been found equal to `Identity` (dominating tests: %s): handlers without crypt filter names (V 1, V 2) then encrypt nothing" % (F.canon_of(qb), [("" if tr else "!") + g for g, tr in gs]))
    ctx.floor(R, "places where the fallback makes an IdentityCryptFilter", nid, 1)


def revision_not_version(ctx, F):
    """The algorithms of the standard security handler are selected by the *revision* (R) of the handler; V only says which
    crypt-filter machinery applies.  No revision-specific method of PasswordAlgorithm (`*_r2`, `*_r3_r4`, `*_r4`, `*_r6`)
    branches on `self.version`."""
    n = 0
    for pth, b in sorted(F.bodies.items()):
        fn = F.canon_of(b)
        if not re.match(r"^PasswordAlgorithm::\w+_r\d(_r\d)*$", fn.split("::{closure")[0]):
            continue
        n += 1
        with b.alpha(args=True):
            bad = [nz(b.sname(b.term(bi)["d"], 8)) for bi in range(b.n) if b.term(bi)["k"] == "switch"]
        bad = [t for t in bad if re.search(r"arg1\.version\b", t)]
        ctx.ob("R-SIB", "revision-not-version|%s" % fn, not bad, "%s does not branch on V" % fn, b.where(),
               what="%s decides a step of the algorithm by `self.version` (%s): the steps depend on the revision R (V 2 comes with R 3, V 4 with R 4), so a document of another V/R pairing is keyed differently by its own writer and reader" % (fn, bad[:2]))
    ctx.floor("R-SIB", "revision-specific methods of PasswordAlgorithm", n, 10)


def password_truncation(ctx, F):
    """ISO 32000-2 7.6.4.3.3: the UTF-8 password is truncated to 127 bytes before any of Algorithms 2.A, 8, 9, 11, 12 uses it.
    Sibling rule: every revision-6 method of PasswordAlgorithm that hands a caller-supplied password to compute_hash first cuts
    it with `[..127]` under `len() > 127` — the writer of U/UE/O/OE and the readers must agree, or a document encrypted with a
    longer password cannot be opened with it."""
    n = 0
    for pth, b in sorted(F.bodies.items()):
        fn = F.canon_of(b)
        if not re.match(r"^PasswordAlgorithm::\w+_r6$", fn) or b.kind == "Closure":
            continue
        ch = [c for c in b.calls if c.local and c.cname.endswith("PasswordAlgorithm::compute_hash")]
        if not ch:
            continue
        # does a parameter (other than self) reach compute_hash's password argument?
        takes_pw = False
        for c in ch:
            o = lib.origin_local(F, b, c.args[1])
            if o is not None and o[0] is b and 2 <= o[1] <= b.argc:
                takes_pw = True
            elif o is not None and o[0] is b:
                # a local that was cut from a parameter: follow its definitions
                for d in b.defs.get(o[1], []):
                    if d[2] == "call" and d[3]["args"]:
                        q = lib.origin_local(F, b, d[3]["args"][0])
                        if q is not None and q[0] is b and 2 <= q[1] <= b.argc:
                            takes_pw = True
                    elif d[2] == "rv" and d[3]["k"] in ("use", "ref", "cast"):
                        q = lib.origin_local(F, b, d[3]["o"] if d[3]["k"] != "ref" else {"c": d[3]["p"]})
                        if q is not None and q[0] is b and 2 <= q[1] <= b.argc:
                            takes_pw = True
        if not takes_pw:
            continue
        n += 1
        cuts = [c for c in b.calls if (c.fn or "").endswith("ops::Index::index") and re.search(r"RangeTo::RangeTo\{127\}", b.oname(c.args[1], 3))]
        tests = [g for bi in range(b.n) for g in [b.term(bi)] if g["k"] == "switch" and re.match(r"^Gt\(len\(.*\),127\)$", b.oname(g["d"], 4))]
        ctx.ob("R-SIB", "password-cut-to-127|%s" % fn, bool(cuts) and bool(tests), "%s cuts the password to 127 bytes before hashing it" % fn, b.where(),
               what="%s hashes the password without truncating it to 127 bytes, while its siblings (Algorithms 2.A, 8, 9, 11, 12) do: a document encrypted with a longer password is not opened by that password" % fn)
    ctx.floor("R-SIB", "revision-6 methods that hash a password", n, 5)


def fields_read_through_self(F, callee, adt_suffix, _memo={}):
    """names of the fields of `adt` that the callee or anything it calls touches."""
    key = (id(F), callee.path, adt_suffix)
    if key in _memo:
        return _memo[key]
    out = set()
    for q in F.reach([callee.path]):
        qb = F.bodies[q]

        def walk(x):
            if isinstance(x, dict):
                if "f" in x and "adt" in x and x["adt"].endswith(adt_suffix) and x.get("n"):
                    out.add(x["n"])
                for v in x.values():
                    walk(v)
            elif isinstance(x, list):
                for v in x:
                    walk(v)
        walk(qb.blocks)
    _memo[key] = out
    return out


# fields of the PasswordAlgorithm a method takes as INPUT (ISO 32000-2 Algorithms 8-10): Algorithm 9 hashes the owner password with
# the 48-byte U string; Algorithm 10 needs nothing but P and EncryptMetadata (given in the literal)
INPUT_FIELDS = {"compute_hashed_owner_password_r6": ("user_value",)}


def set_before_read(ctx, F, fn, adt_suffix="PasswordAlgorithm"):
    """in `fn`, a PasswordAlgorithm value is filled in step by step; a method called on it must not read a field that is
    only assigned later (Algorithm 9 computes O/OE from the 48-byte U string: U must be in place first)."""
    n = 0
    for b in F.fns(fn):
        for c in b.calls:
            if not (c.local and c.name in F.bodies and c.args):
                continue
            o = lib.origin_local(F, b, c.args[0])
            if o is None or o[0] is not b or o[2] or not b.lty(o[1]).endswith(adt_suffix):
                continue
            L = o[1]
            reads = fields_read_through_self(F, F.bodies[c.name], adt_suffix)
            late = []
            for bi, si, s_ in b.stmts():
                if "lhs" not in s_ or s_["lhs"]["l"] != L or not s_["lhs"]["p"]:
                    continue
                e = s_["lhs"]["p"][0]
                if isinstance(e, dict) and e.get("n") in reads and (b.can_reach(c.bb, bi) and not (bi == c.bb)):
                    late.append((e["n"], s_["ln"]))
            # ... nor one that still holds the placeholder of `..Default::default()`: a field the callee reads and the struct
            # literal takes from the default value must have been assigned on every way to the call
            unset = []
            ld = b.single_def(L)
            if ld is not None and ld[2] == "rv" and ld[3]["k"] == "agg" and ld[3]["kind"].get("a") == "adt" and ld[3]["kind"].get("fields"):
                for fname, fo in zip(ld[3]["kind"]["fields"], ld[3]["ops"]):
                    if fname not in reads:
                        continue
                    fp = op_place(fo)
                    if fp is None or not fp["p"]:
                        continue
                    dd = b.single_def(fp["l"])
                    if not (dd is not None and dd[2] == "call" and re.search(r"default::Default>?::default$", dd[3]["f"].get("fn") or dd[3]["f"].get("res") or "")):
                        continue
                    stores = [(bi, si) for bi, si, s_ in b.stmts() if "lhs" in s_ and s_["lhs"]["l"] == L and s_["lhs"]["p"]
                              and isinstance(s_["lhs"]["p"][0], dict) and s_["lhs"]["p"][0].get("n") == fname]
                    if not any(bi != c.bb and b.dominates(bi, c.bb) or bi == c.bb for bi, si in stores):
                        unset.append(fname)
            # only what the callee computes FROM: the results it is about to produce for the same value are not inputs
            late = late + [(x, 0) for x in unset if x in INPUT_FIELDS.get(c.cname.rsplit("::", 1)[-1], ())]
            n += 1
            ctx.ob("R-ORDER", "set-before-read|%s|%s@%d" % (fn, c.cname.rsplit("::", 1)[-1], n), not late,
                   "%s reads only fields that are already assigned" % c.cname.rsplit("::", 1)[-1], b.where(c.ln),
                   what="%s calls %s, which reads %s of the value under construction, before the assignment at line %s (0: it is never assigned and still holds the default placeholder): the value is "
                        "computed from the placeholder (e.g. Algorithm 9 hashes the owner password without the U string)"
                        % (fn, c.cname.rsplit("::", 1)[-1], sorted({x for x, _ in late}), sorted({l for _, l in late})))
    return n


def r_dead(F, b):
    """compiler temporaries mutably borrowed as a call argument and never read afterwards: [(callee, term, line)]."""
    out = []
    for bi, si, s in b.stmts():
        rv = s.get("rv")
        if not (rv and rv["k"] == "ref" and rv.get("mut") and not rv["p"]["p"]):
            continue
        tgt = rv["p"]["l"]
        if tgt in b.names or tgt <= b.argc:
            continue
        if b.lty(tgt).startswith("&"):
            continue
        tdef = b.single_def(tgt)
        if tdef is None:
            continue
        ref_local = s["lhs"]["l"]
        if s["lhs"]["p"]:
            continue
        # the reference must flow (possibly through a re-borrow) into a call argument
        sink = None
        frontier = [ref_local]
        seen = set()
        while frontier:
            x = frontier.pop()
            if x in seen:
                continue
            seen.add(x)
            for u in b.uses(x):
                if u["kind"] == "arg":
                    if u.get("argi", 0) >= 1:      # argument 0 is the cipher state itself; the data block comes after it
                        sink = b.callsite_at(u["bb"])
                elif u["kind"] in ("rv", "ref") and "stmt" in u and not u["stmt"]["lhs"]["p"]:
                    frontier.append(u["stmt"]["lhs"]["l"])
        if sink is None:
            continue
        n = sink.fn or sink.name
        if not re.search(r"(encrypt|decrypt)_block(s)?_mut$|apply_keystream$|(encrypt|decrypt)_padded_mut$|_in_place$", n):
            continue
        # any read of the temporary after the borrow?
        later = [u for u in b.uses(tgt) if u["kind"] not in ("drop",) and not (u["kind"] == "ref" and u["bb"] == bi and u["at"] == si)]
        reads_after = [u for u in later if b.can_reach(bi, u["bb"]) or (u["bb"] == bi and (u["at"] == "T" or u["at"] > si))]
        if not reads_after:
            out.append((n.rsplit("::", 1)[-1], b.lname(tgt, 3), s["ln"]))
    return out


def run(ctx):
    F = ctx.facts("default")
    R = "R-TABLE"
    pad = F.consts.get("encryption::algorithms::PAD_BYTES")
    ctx.ob(R, "pad-string", pad is not None and pad.get("raw") == PAD, "PAD_BYTES is the 32-byte padding string of Algorithm 2", "src/encryption/algorithms.rs",
           what="PAD_BYTES differs from the standard's 32-byte padding string")
    cache = {}
    for fid, fn, kind, pat, n, why in TABLE:
        if fn not in cache:
            cache[fn] = facts_of(F, fn)
        fx = cache[fn]
        if kind == "consts":
            got = sum(1 for c in fx["consts"] if c == pat)
            shown = repr(pat)
        else:
            got = has(fx[kind], pat)
            shown = pat
        ctx.ob(R, fid, got >= n, "%s  [%s ~ /%s/ x%d in %s]" % (why, kind, shown, got, fn), F.fns(fn)[0].where(),
               what="%s: the code of %s no longer shows this (looked for %s /%s/ at least %d time(s), found %d)" % (why, fn, kind, shown, n, got))
        if len(ctx.samples) < 8:
            ctx.sample({"fact": fid, "function": fn, "standard": why})
    sd = sha_dispatch(F, F.fn("PasswordAlgorithm::compute_hash"))
    ctx.ob(R, "alg2b.sha-dispatch", sd is not None and sd[0] == {0: 256, 1: 384, 2: 512} and sd[1] is not None,
           "Algorithm 2.B(d): residue 0/1/2 of the byte sum of E[..16] selects SHA-256/384/512 (%s)" % (sd[1] if sd else "-"), F.fn("PasswordAlgorithm::compute_hash").where(),
           what="Algorithm 2.B(d): the selection of SHA-256/384/512 by (sum of the first 16 bytes of E) mod 3 is not what the code does (mapping %s, selector %s)"
                % ((sd[0], sd[2][:120]) if sd else ("none", "none")))
    revision_dispatch(ctx, F)
    password_truncation(ctx, F)
    # Algorithms 2 and 3 convert the password with PDFDocEncoding: the table is the published one
    import prop_c16
    prop_c16.pdfdoc_table(ctx, F)
    # Algorithm 2(d) / 13 hash the P entry *of the file*: the permissions kept by PasswordAlgorithm are from_bits_truncate(P) of the
    # value read, with nothing ORed in or masked out on the way (a "normalised" P derives another key than the file's writer did)
    tf = F.fn("<PasswordAlgorithm as TryFrom>::try_from")
    lits_ = list(lib.struct_literals(tf, "PasswordAlgorithm"))
    perm = [tf.sname(x[2]["permissions"], 8) for x in lits_ if "permissions" in x[2]]
    okp = bool(perm) and all(re.match(r"^(?:\w+::)*from_bits_truncate\(", t) and not re.search(r"bitor|bitand|bitxor|union\(|insert\(|remove\(|difference\(|BitOr|BitAnd", t.split("(", 1)[0]) for t in perm)
    ctx.ob(R, "alg2.P-as-read", okp, "PasswordAlgorithm.permissions = from_bits_truncate(P as read)", tf.where(),
           what="the permissions value kept for the key derivation is not the /P entry as read (%s): Algorithm 2(d) and Algorithm 13 then hash another P than the producer of the file did, and the right password is rejected" % [t[:70] for t in perm])
    # 7.6.3.2 / 7.6.5: which objects are exempt (the cross-reference stream, an unencrypted Metadata stream, Identity-filtered
    # streams) is decided the same way when encrypting and when decrypting
    import prop_c05
    prop_c05.sibling(ctx, F, "encryption::encrypt_object", "encryption::decrypt_object", "object")
    revision_not_version(ctx, F)
    nsr = set_before_read(ctx, F, "<EncryptionState as TryFrom>::try_from")
    ctx.floor("R-ORDER", "method calls on the PasswordAlgorithm under construction", nsr, 4)
    # permission bits
    pv = F.fn("Permissions::p_value")
    ints = sorted(set(int(k["int"]) for bi, si, s in pv.stmts() if s.get("rv") for o in ([s["rv"].get("o")] if s["rv"]["k"] in ("use", "cast") else [s["rv"].get("a"), s["rv"].get("b")] if s["rv"]["k"] == "bin" else [])
                      if o is not None for k in [op_const(o)] if k is not None and "int" in k))
    ctx.ob(R, "P-reserved-bits", {3, 6, 15, 12, 65535, 16, 4294967295, 32} <= set(ints), "P sets bits 7-8, 13-32 and the high 32 bits (shifts/constants %s)" % ints, pv.where(),
           what="Permissions::p_value no longer sets the reserved bits the standard requires to be 1 (bits 7-8, 13-32, and the upper 32 bits for Perms)")
    # Perms layout: adb at 9..12, T/F at 8
    cp = cache.get("PasswordAlgorithm::compute_permissions") or facts_of(F, "PasswordAlgorithm::compute_permissions")
    st = " ".join(cp["stores"]) + " " + " ".join(cp["calls"])
    ctx.ob(R, "alg10.adb", all(x in cp["consts"] or x in st.encode() for x in (b"adb",)) or has(cp["calls"], r"adb"), "bytes 9-11 are 'adb'", F.fn("PasswordAlgorithm::compute_permissions").where(),
           what="compute_permissions no longer writes 'adb' into bytes 9-11")
    # CFM names
    names = set()
    for fn in ("<Rc4CryptFilter as CryptFilter>::method", "<Aes128CryptFilter as CryptFilter>::method", "<Aes256CryptFilter as CryptFilter>::method", "<IdentityCryptFilter as CryptFilter>::method"):
        fx = facts_of(F, fn)
        names |= set(fx["consts"])
    ctx.ob(R, "cfm-names", {b"V2", b"AESV2", b"AESV3", b"Identity"} <= names, "crypt filter methods V2, AESV2, AESV3, Identity: %s" % sorted(names), "src/encryption/crypt_filters.rs",
           what="a crypt filter method name differs from the standard's V2 / AESV2 / AESV3 / Identity")
    # R-DEAD over the whole crate
    nd = 0
    for p, b in sorted(F.bodies.items()):
        for callee, term, ln in r_dead(F, b):
            nd += 1
            ctx.finding("R-DEAD", "%s|%s" % (F.canon_of(b), callee), "%s hands `&mut <temporary %s>` to %s and never reads the temporary again: the transformed block is discarded (the caller keeps the untransformed bytes)"
                        % (F.canon_of(b), term, callee), b.where(ln))
    ctx.ob("R-DEAD", "scanned", True, "%d bodies scanned for in-place cipher calls on discarded temporaries; %d found" % (len(F.bodies), nd), "", nontrivial=False)
    # Identity crypt filter name resolves to no encryption; Length test limited to V 2-3
    for fn in ("EncryptionState::get_stream_filter", "EncryptionState::get_string_filter"):
        fx = facts_of(F, fn)
        ok = b"Identity" in fx["consts"] or has(fx["calls"], r"Identity")
        ctx.ob(R, "identity-predefined|%s" % fn, ok, "%s treats the predefined name Identity as no encryption" % fn, F.fn(fn).where(),
               what="%s resolves a filter name that is absent from CF to RC4, including the predefined name Identity: with StmF/StrF /Identity data is RC4-encrypted anyway (other readers see garbage; conforming files are mangled on decryption)" % fn)
    identity_only_by_name(ctx, F)
    # /Length: value-set analysis over the parsed key length (domain 0..=512; conditions on V are left open, so the set reaching
    # the code after the test is the union over all versions).  256 must be able to pass (V 5 dictionaries carry it), nothing
    # below 40 and no non-multiple of 8 may pass for any version (n = Length / 8 feeds hash[..n] and the RC4 key schedule).
    b = F.fn("<PasswordAlgorithm as TryFrom>::try_from")
    import byteset
    lvar = None
    for c in b.calls:
        if c.local and c.cname.endswith("Dictionary::get") and lib._const_bytes_through(b, c.args[1]) == b"Length":
            lvar = "found"
    lens = [l for l, n in b.names.items() if b.lty(l) in ("i64", "usize", "u32", "u64") and len(b.defs.get(l, [])) == 1 and b.defs[l][0][2] == "rv"
            and b.defs[l][0][3]["k"] == "use" and (op_place(b.defs[l][0][3]["o"]) or {"p": []})["p"]
            and isinstance(op_place(b.defs[l][0][3]["o"])["p"][0], dict) and op_place(b.defs[l][0][3]["o"])["p"][0].get("down") == "Some"
            and "usize" in b.lty(op_place(b.defs[l][0][3]["o"])["l"]) + b.lty(l)]
    after = [c for c in b.calls if c.local and c.cname.endswith("Dictionary::get") and lib._const_bytes_through(b, c.args[1]) == b"R"]
    okl, got = False, None
    if lvar and after:
        for L in lens:
            al = {L}
            for bi, si, st in b.stmts():
                if "lhs" in st and not st["lhs"]["p"] and st["rv"]["k"] == "use":
                    q = op_place(st["rv"]["o"])
                    if q is not None and not q["p"] and q["l"] in al and len(b.defs.get(st["lhs"]["l"], [])) == 1:
                        al.add(st["lhs"]["l"])
            bv = byteset.ByteVar(F, b, lambda o, al=al: (op_place(o) is not None and not op_place(o)["p"] and op_place(o)["l"] in al), domain=range(0, 513))
            Rs = bv.reach_sets(start=b.defs[L][0][0])      # only paths on which the length is present
            g = set(Rs.get(after[0].bb, frozenset()))
            if g and g != set(range(0, 513)):
                got = g
                okl = 256 in g and not any(x < 40 for x in g) and not any(x % 8 for x in g) and 128 in g and 40 in g
    ctx.ob(R, "length-only-for-v2-v3", okl, "key lengths that pass the /Length test (any V): %s" % (byteset.fmt_set(got) if got else "?"), b.where(),
           what="PasswordAlgorithm::try_from lets the /Length values %s pass: 256 (written by V 5 producers) must pass, and no value below 40 or not a multiple of 8 may (it would reach the RC4/MD5 key handling)"
                % (byteset.fmt_set(got) if got else "(undetermined)"))
