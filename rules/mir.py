"""mir.py — loader and generic analyses over the JSON written by engines/mirfacts.

Everything here is computed from the facts of the *current* /repo tree: CFG, dominators,
post-dominators, natural loops, def/use chains, provenance terms, call graph, SCCs, scopes.
No source text is matched and no line number is used as a key (lines are for reports only).
"""
import json, os, re, sys
from collections import defaultdict, deque

V = os.path.dirname(os.path.dirname(os.path.abspath(__file__)))

# ----------------------------------------------------------------------------- places / operands

def place_local(p):
    return p["l"]

def place_is_local(p):
    return not p["p"]

def op_place(o):
    if "c" in o:
        return o["c"]
    if "m" in o:
        return o["m"]
    return None

def op_const(o):
    return o.get("k")

def const_int(k):
    if k is not None and "int" in k:
        return int(k["int"])
    return None

def const_bytes(k):
    if k is not None and "bytes" in k:
        return bytes.fromhex(k["bytes"])
    return None

def short_ty(t):
    t = re.sub(r"\b(std|core|alloc)::([a-z_]+::)+", "", t)
    return t

def short_path(p):
    # drop module prefixes of well-known std paths, keep the last two segments of others
    return p

class CallSite:
    __slots__ = ("body", "bb", "f", "name", "fn", "full", "res", "local", "args", "dest", "to", "uw", "ln", "x", "ind")

    def __init__(self, body, bb, t):
        self.body = body
        self.bb = bb
        f = t["f"]
        self.f = f
        self.ind = "ind" in f
        self.fn = f.get("fn", "")
        self.full = f.get("full", "")
        self.res = f.get("res", "")
        self.local = f.get("loc", False)
        self.name = self.res or self.fn or "<indirect>"
        self.args = t["args"]
        self.dest = t["dest"]
        self.to = t["to"]
        self.uw = t["uw"]
        self.ln = t["ln"]
        self.x = t["x"]

    @property
    def cname(self):
        """canonical, module-independent and rename-resolved name of a crate-local callee (else the plain name)."""
        F = self.body.facts
        if self.local and self.name in F.bodies:
            F.canon  # make sure rename resolution ran
            return F.canon_of(F.bodies[self.name])
        return self.name

    def __repr__(self):
        return "Call(%s @%s:%d bb%d)" % (self.name, self.body.file, self.ln, self.bb)


def table_value(facts, k):
    """the decoded value of a table kept in data behind a constant operand: given inline (`table`), or the initialiser of the
    static / named constant it refers to; None when the constant is no such table."""
    if "table" in k:
        return k["table"]
    if "static" in k:
        return (facts.statics.get(k["static"]) or {}).get("val")
    if k.get("def"):
        return (facts.consts.get(k["def"]) or {}).get("val")
    return None


def l_not_in(seen, l):
    return not seen or l not in seen


class Body:
    def __init__(self, d, facts):
        self.d = d
        self.facts = facts
        self.path = d["path"]
        self.kind = d["kind"]
        self.parent = d["parent"]
        self.file = d["file"]
        self.lo = d["lo"]
        self.hi = d["hi"]
        self.argc = d["argc"]
        self.vis = d["vis"]
        self.reach = d["reach"]
        self.impl_of = d["impl_of"]
        self.self_ty = d["self_ty"]
        self.locals = d["locals"]
        self.blocks = d["blocks"]
        self.n = len(self.blocks)
        self.names = {}           # local -> debug name (whole-local debug entries)
        self.upvars = []          # (name, place) for projected debug entries (closure captures)
        self.upvar_ty = {}        # json(place) -> type
        for e in d["dbg"]:
            if not e["p"]["p"]:
                self.names.setdefault(e["p"]["l"], e["n"])
            else:
                self.upvars.append((e["n"], e["p"]))
                self.upvar_ty[json.dumps(e["p"], sort_keys=True)] = e.get("ty")
        self._succ = None
        self._pred = None
        self._dom = None
        self._pdom = None
        self._defs = None
        self._calls = None
        self._reach = None

    # ---- naming
    @property
    def key(self):
        return self.path

    def where(self, ln=None):
        return "%s:%d" % (self.file, ln if ln is not None else self.lo)

    def lty(self, l):
        return self.locals[l]["ty"]

    # ---- CFG
    def term(self, bb):
        return self.blocks[bb]["t"]

    def succs_of(self, bb, unwind=False):
        t = self.blocks[bb]["t"]
        k = t["k"]
        out = []
        if k == "goto" or k == "yield":
            out = [t["to"]]
        elif k == "switch":
            out = [b for _, b in t["tg"]] + [t["else"]]
        elif k in ("drop", "assert"):
            out = [t["to"]]
            if unwind and t.get("uw") is not None:
                out.append(t["uw"])
        elif k == "call":
            if t["to"] is not None:
                out = [t["to"]]
            if unwind and t.get("uw") is not None:
                out.append(t["uw"])
        return out

    @property
    def succ(self):
        if self._succ is None:
            self._succ = [self.succs_of(b) for b in range(self.n)]
        return self._succ

    @property
    def pred(self):
        if self._pred is None:
            p = [[] for _ in range(self.n)]
            for b, ss in enumerate(self.succ):
                for s in ss:
                    p[s].append(b)
            self._pred = p
        return self._pred

    def reachable(self):
        if self._reach is None:
            seen = {0}
            dq = deque([0])
            while dq:
                b = dq.popleft()
                for s in self.succ[b]:
                    if s not in seen:
                        seen.add(s)
                        dq.append(s)
            self._reach = seen
        return self._reach

    def _dominators(self, succ, roots):
        # iterative set-based dominators (bodies are small)
        n = self.n
        nodes = set()
        dq = deque(roots)
        nodes.update(roots)
        while dq:
            b = dq.popleft()
            for s in succ[b]:
                if s not in nodes:
                    nodes.add(s)
                    dq.append(s)
        pred = defaultdict(list)
        for b in nodes:
            for s in succ[b]:
                pred[s].append(b)
        dom = {b: set(nodes) for b in nodes}
        for r in roots:
            dom[r] = {r}
        order = list(nodes)
        changed = True
        while changed:
            changed = False
            for b in order:
                if b in roots:
                    continue
                ps = [dom[p] for p in pred[b] if p in dom]
                new = set.intersection(*ps) if ps else set()
                new = new | {b}
                if new != dom[b]:
                    dom[b] = new
                    changed = True
        return dom

    @property
    def dom(self):
        """dom[b] = set of blocks dominating b (normal edges only, from bb0)."""
        if self._dom is None:
            self._dom = self._dominators(self.succ, [0])
        return self._dom

    @property
    def pdom(self):
        """pdom[b] = set of blocks post-dominating b w.r.t. normal `return` exits."""
        if self._pdom is None:
            exits = [b for b in self.reachable() if self.blocks[b]["t"]["k"] == "return"]
            rsucc = [list(p) for p in self.pred]
            # virtual exit: use multiple roots
            self._pdom = self._dominators(rsucc, exits) if exits else {}
        return self._pdom

    def dominates(self, a, b):
        return b in self.dom and a in self.dom[b]

    def back_edges(self):
        out = []
        for b in self.reachable():
            for s in self.succ[b]:
                if self.dominates(s, b):
                    out.append((b, s))
        return out

    def loops(self):
        """natural loops: header -> set of blocks."""
        loops = {}
        for tail, head in self.back_edges():
            body = loops.setdefault(head, {head})
            st = [tail]
            while st:
                x = st.pop()
                if x in body:
                    continue
                body.add(x)
                st.extend(self.pred[x])
        return loops

    def can_reach(self, a, b, avoid=()):
        """is there a CFG path a ->+ b (normal edges) not passing through `avoid` blocks?"""
        seen = set()
        dq = deque(self.succ[a])
        avoid = set(avoid)
        while dq:
            x = dq.popleft()
            if x in seen or x in avoid:
                continue
            if x == b:
                return True
            seen.add(x)
            dq.extend(self.succ[x])
        return False

    def reach_set(self, a, avoid=()):
        seen = set()
        dq = deque(self.succ[a])
        avoid = set(avoid)
        while dq:
            x = dq.popleft()
            if x in seen or x in avoid:
                continue
            seen.add(x)
            dq.extend(self.succ[x])
        return seen

    # ---- statements
    def stmts(self):
        for bi, b in enumerate(self.blocks):
            for si, s in enumerate(b["st"]):
                yield bi, si, s

    @property
    def defs(self):
        """local -> list of (bb, idx or 'T', kind, payload) for whole-local assignments; projections recorded as kind 'proj'."""
        if self._defs is None:
            d = defaultdict(list)
            for bi, si, s in self.stmts():
                if "lhs" in s:
                    lhs = s["lhs"]
                    if not lhs["p"]:
                        d[lhs["l"]].append((bi, si, "rv", s["rv"]))
                    else:
                        d[lhs["l"]].append((bi, si, "proj", s))
                elif "setdiscr" in s:
                    d[s["setdiscr"]["l"]].append((bi, si, "proj", s))
            for bi in range(self.n):
                t = self.blocks[bi]["t"]
                if t["k"] == "call":
                    dst = t["dest"]
                    if not dst["p"]:
                        d[dst["l"]].append((bi, "T", "call", t))
                    else:
                        d[dst["l"]].append((bi, "T", "proj", t))
            self._defs = d
        return self._defs

    def single_def(self, l):
        ds = [x for x in self.defs.get(l, []) if x[2] != "proj"]
        if len(ds) == 1 and not [x for x in self.defs.get(l, []) if x[2] == "proj"]:
            return ds[0]
        return None

    @property
    def calls(self):
        if self._calls is None:
            cs = []
            for bi in range(self.n):
                t = self.blocks[bi]["t"]
                if t["k"] == "call":
                    cs.append(CallSite(self, bi, t))
            self._calls = cs
        return self._calls

    def calls_to(self, pred):
        """call sites whose callee name satisfies pred (a substring, regex object or callable)."""
        out = []
        for c in self.calls:
            if match_name(c, pred):
                out.append(c)
        return out

    def fn_mentions(self):
        """fn items / closures mentioned as values (potential call edges): yields (name, local, bb)."""
        for bi, b in enumerate(self.blocks):
            for s in b["st"]:
                rv = s.get("rv")
                if not rv:
                    continue
                ops = []
                if rv["k"] in ("use", "cast", "repeat", "un"):
                    ops = [rv["o"]]
                elif rv["k"] == "agg":
                    ops = rv["ops"]
                    kd = rv["kind"]
                    if kd.get("a") in ("closure", "coroutine", "coroutine_closure"):
                        yield kd["def"], True, bi
                elif rv["k"] == "bin":
                    ops = [rv["a"], rv["b"]]
                for o in ops:
                    k = o.get("k")
                    if k and "fn" in k:
                        yield (k.get("res") or k["fn"]), k.get("loc", False), bi
                    for nm in self._table_fns(k):
                        yield nm, True, bi
            t = b["t"]
            if t["k"] == "call":
                for o in t["args"]:
                    k = o.get("k")
                    if k and "fn" in k:
                        yield (k.get("res") or k["fn"]), k.get("loc", False), bi
                    for nm in self._table_fns(k):
                        yield nm, True, bi

    def _table_fns(self, k):
        """functions stored in a table kept in data that this constant operand denotes (a const / static array of tuples
        holding function pointers): whoever mentions the table may call them."""
        if not k:
            return []
        v = table_value(self.facts, k)
        if v is None:
            return []
        out = []

        def walk(x):
            if isinstance(x, dict):
                if "fn" in x and isinstance(x["fn"], str):
                    out.append(x["fn"])
                for y in x.values():
                    walk(y)
            elif isinstance(x, list):
                for y in x:
                    walk(y)
        walk(v)
        return out

    # ---- provenance terms
    def sname(self, o, depth=6):
        """structural rendering: user variable names are looked through (a named local that is assigned once renders as
        its defining expression)."""
        old = self.names
        self.names = {l: n for l, n in old.items() if len(self.defs.get(l, [])) != 1}
        try:
            return self.oname(o, depth)
        finally:
            self.names = old

    def _through_newtypes(self, p):
        """the place with the `.0` of a new integer wrapper (Facts.int_newtypes) dropped."""
        nt = self.facts.int_newtypes
        if not nt or not p["p"]:
            return p
        ty = self.lty(p["l"])
        out = []
        for e in p["p"]:
            if ty is not None:
                ty = re.sub(r"^&('[a-z_]+ )?(mut )?", "", ty) if e == "*" else ty
            if e == "*":
                out.append(e)
                continue
            if isinstance(e, dict) and "f" in e and ty in nt:
                ty = nt[ty]
                continue
            if isinstance(e, dict) and "f" in e and ty is not None:
                ty = self.facts.field_ty(ty, e["n"])
            else:
                ty = None
            out.append(e)
        return p if len(out) == len(p["p"]) else {"l": p["l"], "p": out}

    def pname(self, p, depth=4, seen=None):
        """render a place."""
        # flatten `tmp = copy P; ... (*tmp).f` and `tmp = &P; (*tmp).f` into one place, so that a captured variable that
        # is read through a temporary still matches its debug entry
        for _ in range(6):
            p = self._through_newtypes(p)
            l = p["l"]
            if l in self.names or l <= self.argc:
                break
            d = self.single_def(l)
            if d is None or d[2] != "rv":
                break
            rv = d[3]
            if rv["k"] == "use" and ("c" in rv["o"] or "m" in rv["o"]):
                q = rv["o"].get("c") or rv["o"].get("m")
                p = {"l": q["l"], "p": list(q["p"]) + list(p["p"])}
            elif rv["k"] == "ref" and p["p"] and p["p"][0] == "*":
                q = rv["p"]
                p = {"l": q["l"], "p": list(q["p"]) + list(p["p"][1:])}
            else:
                break
        # CONST[i] with a constant index renders as the element's value
        if len(p["p"]) == 1 and isinstance(p["p"][0], dict) and ("idx" in p["p"][0] or ("cidx" in p["p"][0] and not p["p"][0]["end"])) and p["l"] not in self.names:
            v = self._const_elem(p)
            if v is not None:
                return str(v)
        # (tmp.0) of a checked op renders as the op itself
        if p["p"] and isinstance(p["p"][0], dict) and p["p"][0].get("f") == 0 and p["l"] not in self.names:
            d = self.single_def(p["l"])
            if d and d[2] == "rv" and d[3]["k"] == "bin" and d[3]["op"].endswith("WithOverflow"):
                return self._proj(self.rvname(d[3], depth, seen), p["p"][1:], depth, seen)
        # (tmp.N) of a tuple built once (the scrutinee of a `match (a, b, c)`) renders as its N-th component
        # ... and so does a field of a struct value built once and never handed out mutably (named or not): `r.lo` of
        # `let r = CodeRange { lo: a, hi: b }` is `a`
        if p["p"] and isinstance(p["p"][0], dict) and "f" in p["p"][0] and p["l"] > self.argc and l_not_in(seen, p["l"]):
            ops = self._frozen_agg(p["l"])
            if ops is not None and p["p"][0]["f"] < len(ops):
                return self._proj(self.oname(ops[p["p"][0]["f"]], depth - 1, (seen or set()) | {p["l"]}), p["p"][1:], depth, seen)
        # captured variables of a closure carry their own debug names
        if p["l"] == 1 and self.kind == "Closure" and p["p"]:
            for nm, up in self.upvars:
                n = len(up["p"])
                if up["l"] == p["l"] and p["p"][:n] == up["p"]:
                    am = getattr(self, "_alpha", None)
                    if am is not None:
                        key = ("up", nm)
                        if key not in am:
                            am[key] = "$%d" % (len(am) + 1)
                        base = am[key]
                    else:
                        base = nm
                    return self._proj(base, p["p"][n:], depth, seen)
        base = self.lname(p["l"], depth, seen)
        return self._proj(base, p["p"], depth, seen)

    def _frozen_agg(self, l):
        """operands of the tuple / struct aggregate that is the only definition of local l, when l is never assigned by
        parts nor borrowed mutably (so that its fields are what it was built from); else None."""
        c = self.__dict__.setdefault("_frozen_cache", {})
        if l in c:
            return c[l]
        r = None
        d = self.single_def(l)
        if d and d[2] == "rv" and d[3]["k"] == "agg" and (d[3]["kind"].get("a") == "tuple" or (d[3]["kind"].get("a") == "adt" and d[3]["kind"].get("var") == d[3]["kind"].get("adt", "").rsplit("::", 1)[-1])):
            r = d[3]["ops"]
            for bi, si, st in self.stmts():
                rv = st.get("rv")
                if rv and ((rv["k"] == "ref" and rv.get("mut")) or rv["k"] == "rawptr") and rv["p"]["l"] == l:
                    r = None
                    break
        c[l] = r
        return r

    def _const_elem(self, p):
        """value of `K[i]` where the base local holds a named integer-array constant and i is a constant; else None."""
        d = self.single_def(p["l"])
        if not (d and d[2] == "rv" and d[3]["k"] == "use" and "k" in d[3]["o"]):
            return None
        k = d[3]["o"]["k"]
        c = self.facts.consts.get(k.get("def") or "") if k.get("def") else None
        if c is None or "raw" not in c:
            return None
        m = re.match(r"^\[(u8|i8|u16|i16|u32|i32|u64|i64|usize|isize); (\d+)\]$", c.get("ty", ""))
        if not m:
            return None
        n = int(m.group(2))
        raw = bytes.fromhex(c["raw"])
        if n == 0 or len(raw) % n:
            return None
        w = len(raw) // n
        e = p["p"][0]
        if "cidx" in e:
            i = e["cidx"]
        else:
            di = self.single_def(e["idx"])
            if not (di and di[2] == "rv" and di[3]["k"] == "use" and "k" in di[3]["o"] and "int" in di[3]["o"]["k"]):
                return None
            i = int(di[3]["o"]["k"]["int"])
        if not (0 <= i < n):
            return None
        return int.from_bytes(raw[i * w:(i + 1) * w], "little", signed=m.group(1).startswith("i"))

    def _proj(self, base, proj, depth, seen):
        p = {"p": proj}
        for e in p["p"]:
            if e == "*":
                base = "*" + base if not base.startswith("&") else base[1:]
            elif isinstance(e, dict):
                if "f" in e:
                    base = "%s.%s" % (base, e["n"])
                elif "idx" in e:
                    base = "%s[%s]" % (base, self.lname(e["idx"], depth - 1, seen))
                elif "cidx" in e:
                    base = "%s[%s%d]" % (base, "-" if e["end"] else "", e["cidx"])
                elif "sub" in e:
                    base = "%s[%d..%s%d]" % (base, e["sub"][0], "-" if e["end"] else "", e["sub"][1])
                elif "down" in e:
                    base = "%s@%s" % (base, e["down"])
            else:
                base += "?"
        return base

    def alpha(self, args=False):
        """context manager: while active, user variable names render as $1, $2, ... in order of first appearance,
        so that a rendering does not depend on what the variables are called.  With args=True parameters render by
        position (arg1, arg2, ...) instead, which keeps them distinguishable and is equally rename-proof."""
        body = self

        class _A:
            def __enter__(self_):
                self_.old = (getattr(body, "_alpha", None), getattr(body, "_alpha_args", False))
                body._alpha = {}
                body._alpha_args = args
                return body

            def __exit__(self_, *a):
                body._alpha, body._alpha_args = self_.old
        return _A()

    def lname(self, l, depth=4, seen=None):
        if 1 <= l <= self.argc and getattr(self, "_alpha", None) is not None and getattr(self, "_alpha_args", False) and self.kind != "Closure":
            return "arg%d" % l
        if l in self.names:
            am = getattr(self, "_alpha", None)
            if am is not None:
                if l not in am:
                    am[l] = "$%d" % (len(am) + 1)
                return am[l]
            return self.names[l]
        if l == 0:
            return "_ret"
        if 1 <= l <= self.argc:
            am = getattr(self, "_alpha", None)
            if am is not None:
                if l not in am:
                    am[l] = "$%d" % (len(am) + 1)
                return am[l]
            return "arg%d" % l
        if depth <= 0:
            return "_"
        seen = seen or set()
        if l in seen:
            return "_"
        d = self.single_def(l)
        if d is None:
            return "_t:%s" % short_ty(self.lty(l))
        seen = seen | {l}
        if d[2] == "call":
            c = d[3]
            f = c["f"]
            nm = f.get("res") or f.get("fn") or "ind"
            mconv = re.match(r"^<(\w+) as std::convert::(From|Into)<(\w+)>>::(from|into)$", f.get("full") or "")
            if mconv and len(c["args"]) == 1 and INT_TY.match(mconv.group(1)) and INT_TY.match(mconv.group(3)):
                # a conversion between integer types through From/Into is a (value-preserving) cast
                dst = mconv.group(1) if mconv.group(2) == "From" else mconv.group(3)
                inner = self.oname(c["args"][0], depth - 1, seen)
                return inner if re.match(r"^-?\d+$", inner) else "%s as %s" % (inner, dst)
            if nm.endswith("::len") and len(c["args"]) == 1:
                # the length of a constant byte string is a number (`MARK.len()` for `2`)
                cur_ = c["args"][0]
                for _h in range(4):
                    k_ = op_const(cur_)
                    if k_ is not None:
                        bs_ = k_.get("bytes")
                        if bs_ is None and k_.get("def"):
                            bs_ = (self.facts.consts.get(k_["def"]) or {}).get("bytes")
                        if bs_ is None and k_.get("def") and (self.facts.consts.get(k_["def"]) or {}).get("raw") and re.match(r"^\[u8; \d+\]$", (self.facts.consts.get(k_["def"]) or {}).get("ty", "")):
                            bs_ = self.facts.consts[k_["def"]]["raw"]
                        if bs_ is not None:
                            return str(len(bs_) // 2)
                        break
                    q_ = op_place(cur_)
                    d_ = self.single_def(q_["l"]) if q_ is not None and not [e for e in q_["p"] if e != "*"] else None
                    if d_ and d_[2] == "rv" and d_[3]["k"] in ("use", "cast"):
                        cur_ = d_[3]["o"]
                    elif d_ and d_[2] == "rv" and d_[3]["k"] == "ref" and not [e for e in d_[3]["p"]["p"] if e != "*"]:
                        cur_ = {"c": {"l": d_[3]["p"]["l"], "p": []}}
                    else:
                        break
            cb = self.facts.bodies.get(nm) if f.get("loc") else None
            if cb is not None and self.facts._canon is not None:
                nm = self.facts.canon_of(cb)      # rename-resolved name of a crate-local callee
            nm = nm.split("::")[-1] if not nm.startswith("<") else nm
            return "%s(%s)" % (nm, ",".join(self.oname(a, depth - 1, seen) for a in c["args"]))
        return self.rvname(d[3], depth, seen)

    def rvname(self, rv, depth=4, seen=None):
        k = rv["k"]
        if k == "use":
            return self.oname(rv["o"], depth, seen)
        if k == "ref":
            return "&" + self.pname(rv["p"], depth, seen)
        if k == "cast":
            if rv["kind"].startswith("IntToInt"):
                kc = op_const(rv["o"])
                if kc is not None and (const_int(kc) is not None or (kc.get("def") and "int" in (self.facts.consts.get(kc["def"]) or {}))):
                    return self.oname(rv["o"], depth - 1, seen)      # a cast of an integer constant is that constant
            if rv["kind"].startswith("IntToInt") or rv["kind"].startswith("PointerCoercion") or rv["kind"].startswith("Transmute"):
                return "%s as %s" % (self.oname(rv["o"], depth - 1, seen), short_ty(rv["ty"]))
            return "cast(%s)" % self.oname(rv["o"], depth - 1, seen)
        if k == "bin":
            op = rv["op"].replace("WithOverflow", "")
            ra, rb = self.oname(rv["a"], depth - 1, seen), self.oname(rv["b"], depth - 1, seen)
            if op in ("Add", "Sub", "Mul") and re.match(r"^-?\d+$", ra) and re.match(r"^-?\d+$", rb):
                # arithmetic on two constants renders as its value (`BASE - 1` is `84`)
                return str({"Add": int(ra) + int(rb), "Sub": int(ra) - int(rb), "Mul": int(ra) * int(rb)}[op])
            return "%s(%s,%s)" % (op, ra, rb)
        if k == "un":
            if rv["op"] == "PtrMetadata":
                return "len(%s)" % self.oname(rv["o"], depth - 1, seen)
            return "%s(%s)" % (rv["op"], self.oname(rv["o"], depth - 1, seen))
        if k == "discr":
            return "discr(%s)" % self.pname(rv["p"], depth - 1, seen)
        if k == "agg":
            kd = rv["kind"]
            a = kd.get("a")
            if a == "adt" and kd.get("adt") in self.facts.int_newtypes and len(rv["ops"]) == 1:
                return self.oname(rv["ops"][0], depth, seen)
            if a == "adt":
                return "%s::%s{%s}" % (kd["adt"].split("::")[-1], kd["var"], ",".join(self.oname(o, depth - 1, seen) for o in rv["ops"]))
            if a in ("closure", "coroutine"):
                return "closure(%s)" % kd["def"]
            return "%s(%s)" % (a, ",".join(self.oname(o, depth - 1, seen) for o in rv["ops"]))
        if k == "repeat":
            return "[%s;%s]" % (self.oname(rv["o"], depth - 1, seen), rv["n"])
        return k

    def oname(self, o, depth=4, seen=None):
        k = o.get("k")
        if k is not None:
            if "int" in k:
                return k["int"]
            if "bytes" in k:
                b = bytes.fromhex(k["bytes"])
                return repr(b)
            if "fn" in k:
                return "fn:" + (k.get("res") or k["fn"])
            if "refint" in k:
                return k["refint"]
            if k.get("def"):
                # a named constant renders as its value when that is an integer or a byte string (hoisting a literal
                # into a `const` must not change any rendering)
                c = self.facts.consts.get(k["def"])
                if c is not None and "int" in c:
                    return c["int"]
                if c is not None and "bytes" in c:
                    return repr(bytes.fromhex(c["bytes"]))
                if c is not None and c.get("ty") in self.facts.int_newtypes and "raw" in c:
                    return str(int.from_bytes(bytes.fromhex(c["raw"]), "little", signed=self.facts.int_newtypes[c["ty"]].startswith("i")))
            return k.get("s", "?")
        p = op_place(o)
        # (tmp.0) of a checked op renders as the op itself
        if len(p["p"]) == 1 and isinstance(p["p"][0], dict) and "f" in p["p"][0] and p["l"] not in self.names:
            d = self.single_def(p["l"])
            if d and d[2] == "rv" and d[3]["k"] == "bin" and d[3]["op"].endswith("WithOverflow") and p["p"][0]["f"] == 0:
                return self.rvname(d[3], depth, seen)
        return self.pname(p, depth, seen)

    # ---- uses
    def uses(self, l):
        """every syntactic use of local `l`: dicts with bb, at ('T' or stmt index), kind, whole (bool), and context."""
        out = []
        def chk_op(o, bi, at, kind, **kw):
            p = op_place(o)
            if p is not None and p["l"] == l:
                out.append(dict(bb=bi, at=at, kind=kind, whole=not p["p"], place=p, moved="m" in o, **kw))
            if p is not None:
                for e in p["p"]:
                    if isinstance(e, dict) and e.get("idx") == l:
                        out.append(dict(bb=bi, at=at, kind="index", whole=True, place=p, moved=False, **kw))
        for bi, si, s in self.stmts():
            if "lhs" in s:
                lhs = s["lhs"]
                if lhs["l"] == l and lhs["p"]:
                    out.append(dict(bb=bi, at=si, kind="store-proj", whole=False, place=lhs, moved=False, stmt=s))
                for e in lhs["p"]:
                    if isinstance(e, dict) and e.get("idx") == l:
                        out.append(dict(bb=bi, at=si, kind="index", whole=True, place=lhs, moved=False, stmt=s))
                rv = s["rv"]
                k = rv["k"]
                if k in ("use", "cast", "un", "repeat"):
                    chk_op(rv["o"], bi, si, "rv", stmt=s)
                elif k == "bin":
                    chk_op(rv["a"], bi, si, "rv", stmt=s)
                    chk_op(rv["b"], bi, si, "rv", stmt=s)
                elif k == "agg":
                    for o in rv["ops"]:
                        chk_op(o, bi, si, "rv", stmt=s)
                elif k in ("ref", "rawptr"):
                    if rv["p"]["l"] == l:
                        out.append(dict(bb=bi, at=si, kind="ref", whole=not rv["p"]["p"], place=rv["p"], moved=False, mut=rv.get("mut", False), stmt=s))
                elif k == "discr":
                    if rv["p"]["l"] == l:
                        out.append(dict(bb=bi, at=si, kind="discr", whole=not rv["p"]["p"], place=rv["p"], moved=False, stmt=s))
        for bi in range(self.n):
            t = self.blocks[bi]["t"]
            k = t["k"]
            if k == "call":
                for i, a in enumerate(t["args"]):
                    chk_op(a, bi, "T", "arg", argi=i, term=t)
                if "ind" in t["f"]:
                    chk_op(t["f"]["ind"], bi, "T", "callee", term=t)
            elif k == "switch":
                chk_op(t["d"], bi, "T", "switch", term=t)
            elif k == "assert":
                chk_op(t["cond"], bi, "T", "assert", term=t)
                for o in t["ops"]:
                    chk_op(o, bi, "T", "assert", term=t)
            elif k == "drop":
                if t["p"]["l"] == l:
                    out.append(dict(bb=bi, at="T", kind="drop", whole=not t["p"]["p"], place=t["p"], moved=False, term=t))
        return out

    def callsite_at(self, bb):
        for c in self.calls:
            if c.bb == bb:
                return c
        return None

    # ---- value tracing
    def resolve_copy(self, o, limit=8):
        """follow plain copies/moves/same-width casts of an operand back to its origin operand."""
        for _ in range(limit):
            p = op_place(o)
            if p is None or p["p"] or p["l"] in self.names:
                return o
            d = self.single_def(p["l"])
            if d is None or d[2] != "rv":
                return o
            rv = d[3]
            if rv["k"] == "use":
                o = rv["o"]
                continue
            return o
        return o

    def root_place(self, p, through_names=False, limit=10):
        """rewrite a place so that its base local is a named local / argument: unnamed single-assignment temporaries that
        merely copy or borrow another place are substituted (`*(&x)` cancels)."""
        p = {"l": p["l"], "p": list(p["p"])}
        for _ in range(limit):
            l = p["l"]
            if (l in self.names and not through_names) or 1 <= l <= self.argc or l == 0:
                if not (through_names and l in self.names and not (1 <= l <= self.argc)):
                    return p
            ds = self.defs.get(l, [])
            if len(ds) != 1 or ds[0][2] != "rv":
                return p
            rv = ds[0][3]
            if rv["k"] == "use":
                ip = op_place(rv["o"])
                if ip is None:
                    return p
                p = {"l": ip["l"], "p": list(ip["p"]) + p["p"]}
            elif rv["k"] in ("ref", "rawptr"):
                if p["p"] and p["p"][0] == "*":
                    p = {"l": rv["p"]["l"], "p": list(rv["p"]["p"]) + p["p"][1:]}
                elif not p["p"]:
                    # the pointer value itself: denote what it points to (used for lengths of slices behind raw pointers)
                    p = {"l": rv["p"]["l"], "p": list(rv["p"]["p"])}
                else:
                    return p
            else:
                return p
        return p

    def def_rv(self, o):
        """the defining rvalue/call of an operand that is an unnamed single-def temporary, else None."""
        o = self.resolve_copy(o)
        p = op_place(o)
        if p is None or p["p"]:
            return None
        d = self.single_def(p["l"])
        return d


INT_TY = re.compile(r"^(u8|u16|u32|u64|u128|usize|i8|i16|i32|i64|i128|isize)$")


def _remap(x, loff, boff):
    """shift every local and block number inside a MIR JSON fragment (used by Facts.inlined)."""
    if isinstance(x, dict):
        if set(x.keys()) == {"l", "p"}:
            x["l"] += loff
            for e in x["p"]:
                if isinstance(e, dict) and "idx" in e:
                    e["idx"] += loff
            return
        for k, v in x.items():
            if k in ("to", "uw", "else") and isinstance(v, int):
                x[k] = v + boff
            elif k == "tg":
                x[k] = [[a, bb + boff] for a, bb in v]
            else:
                _remap(v, loff, boff)
    elif isinstance(x, list):
        for v in x:
            _remap(v, loff, boff)


def match_name(c, pred):
    names = [c.name, c.fn, c.full, c.res]
    if callable(pred):
        return pred(c)
    if isinstance(pred, str):
        return any(pred in n for n in names if n)
    return any(pred.search(n) for n in names if n)


class Facts:
    def __init__(self, path):
        with open(path) as f:
            self.d = json.load(f)
        self.path = path
        self.data_renames = self._resolve_data_renames()
        self.split_locals = self._split_new_struct_locals()
        self.bodies = {}
        self.dups = []
        for bd in self.d["bodies"]:
            b = Body(bd, self)
            if b.path in self.bodies:
                self.dups.append(b.path)
                b.path = "%s@%s:%d" % (b.path, b.file, b.lo)
            self.bodies[b.path] = b
        self._canon = None
        self._alias = {}
        self.consts = {c["name"]: c for c in self.d["consts"]}
        self.statics = {c["name"]: c for c in self.d.get("statics", [])}
        self.adts = {a["name"]: a for a in self.d["adts"]}
        # a struct of one integer field that the reviewed tree does not have (tables/adts.json) is a wrapper put around a
        # number after the review: renderings look through it (`Depth(d.0 - 1)` is `d - 1`)
        self.int_newtypes = {}
        try:
            with open(os.path.join(V, "tables", "adts.json")) as f_:
                reviewed_ = set(json.load(f_))
        except Exception:
            reviewed_ = None
        self.reviewed_adts = reviewed_
        if reviewed_ is not None:
            for n_, a_ in self.adts.items():
                if n_ not in reviewed_ and not a_.get("enum") and len(a_["variants"]) == 1 and len(a_["variants"][0]["fields"]) == 1 \
                        and re.match(r"^(u8|u16|u32|u64|u128|usize|i8|i16|i32|i64|i128|isize|bool)$", a_["variants"][0]["fields"][0]["ty"]):
                    self.int_newtypes[n_] = a_["variants"][0]["fields"][0]["ty"]
        self.impls = self.d["impls"]
        self._cg = None
        self._closures_of = None
        self._rec = None
        self._inl = {}
        self.new_helpers = {}
        self.hidden = {}
        self._apply_reviewed_view()

    def _new_structs(self):
        """structs of two or more fields that the reviewed tree does not have (tables/adts.json): {name: fields}; None when the
        list of reviewed types is not available."""
        if getattr(self, "_new_structs_cache", None) is not None:
            return self._new_structs_cache or None
        try:
            with open(os.path.join(V, "tables", "adts.json")) as f_:
                reviewed = set(json.load(f_))
        except Exception:
            self._new_structs_cache = {}
            return None
        structs = {}
        for a in self.d["adts"]:
            if a["name"] not in reviewed and not a.get("enum") and len(a["variants"]) == 1 and len(a["variants"][0]["fields"]) >= 2:
                structs[a["name"]] = a["variants"][0]["fields"]
        self._new_structs_cache = structs
        return structs or None

    def _split_new_struct_locals(self):
        """A local of a struct type that the reviewed tree does not have (tables/adts.json), which the function only ever
        touches field by field (plus whole assignments from a struct literal or a constant of known field values), is a
        bundle of independent variables that were grouped after the review: it is split back into one local per field
        (`pending.len` becomes a variable of its own, named `pending.len`), so that every rule sees the variables it was
        written for.  Nothing else is a candidate: a struct that is copied, moved or handed to a call as a whole stays as
        it is.  (A reference to the whole value that is only used to reach its fields — what is left of `&mut self` once a
        method of the new type has been inlined — counts as touching it field by field: `inlined` runs the split again on
        its result.)  Returns {body path: [(local, struct)]} for the evidence."""
        structs = self._new_structs()
        if not structs:
            return {}
        done = {}
        for bd in self.d["bodies"]:
            r = self._split_body(bd, structs)
            if r:
                done[bd["path"]] = r
        return done

    @staticmethod
    def _split_body(bd, structs):
        INT = re.compile(r"^(u8|u16|u32|u64|u128|usize|i8|i16|i32|i64|i128|isize|bool)$")

        def is_place(x):
            return isinstance(x, dict) and set(x.keys()) == {"l", "p"} and isinstance(x["p"], list) and isinstance(x["l"], int)

        def places(x, out):
            if is_place(x):
                out.append(x)
                return
            if isinstance(x, dict):
                for v in x.values():
                    places(v, out)
            elif isinstance(x, list):
                for v in x:
                    places(v, out)

        def fld0(q, skip=0):
            return len(q["p"]) > skip and isinstance(q["p"][skip], dict) and "f" in q["p"][skip]
        named = {e["p"]["l"] for e in bd["dbg"] if not e["p"]["p"]}
        ndefs = {}
        defstmt = {}
        for blk in bd["blocks"]:
            for st in blk["st"]:
                if "lhs" in st and not st["lhs"]["p"]:
                    ndefs[st["lhs"]["l"]] = ndefs.get(st["lhs"]["l"], 0) + 1
                    defstmt[st["lhs"]["l"]] = st
            if blk["t"]["k"] == "call" and not blk["t"]["dest"]["p"]:
                ndefs[blk["t"]["dest"]["l"]] = ndefs.get(blk["t"]["dest"]["l"], 0) + 1
        done = []
        cands = [l for l, loc in enumerate(bd["locals"]) if loc["ty"] in structs and l > bd["argc"]]
        for L in cands:
            sty = bd["locals"][L]["ty"]
            flds = structs[sty]
            # references to the whole value held in single-assignment temporaries (and copies / re-borrows of those)
            alias = set()
            grew = True
            while grew:
                grew = False
                for blk in bd["blocks"]:
                    for st in blk["st"]:
                        if "lhs" not in st or st["lhs"]["p"]:
                            continue
                        T = st["lhs"]["l"]
                        if T in alias or T in named or T <= bd["argc"] or ndefs.get(T, 0) != 1:
                            continue
                        rv = st["rv"]
                        src = None
                        if rv["k"] == "ref":
                            src = rv["p"]
                            if (src["l"] == L and not src["p"]) or (src["l"] in alias and src["p"] == ["*"]):
                                alias.add(T)
                                grew = True
                        elif rv["k"] == "use" and ("c" in rv["o"] or "m" in rv["o"]):
                            src = rv["o"].get("c") or rv["o"].get("m")
                            if src["l"] in alias and not src["p"]:
                                alias.add(T)
                                grew = True

            def whole(q):
                """does the place denote the whole value (not a field of it)?"""
                if q["l"] == L:
                    return not fld0(q)
                if q["l"] in alias:
                    return not (q["p"] and q["p"][0] == "*" and fld0(q, 1))
                return False

            def is_alias_def(st):
                return "lhs" in st and not st["lhs"]["p"] and st["lhs"]["l"] in alias

            def whole_target(q):
                return (q["l"] == L and not q["p"]) or (q["l"] in alias and q["p"] == ["*"])
            def behind(rv):
                """the struct literal / constant a whole assignment takes its value from, through unnamed single-assignment
                temporaries of the struct type (the result slot of an inlined constructor)."""
                for _ in range(4):
                    if rv["k"] == "use" and ("c" in rv["o"] or "m" in rv["o"]):
                        q = rv["o"].get("c") or rv["o"].get("m")
                        if not q["p"] and q["l"] not in named and q["l"] > bd["argc"] and ndefs.get(q["l"], 0) == 1 and q["l"] in defstmt \
                                and bd["locals"][q["l"]]["ty"] == sty and q["l"] != L:
                            rv = defstmt[q["l"]]["rv"]
                            continue
                    break
                return rv
            ok = True
            for blk in bd["blocks"]:
                for st in blk["st"]:
                    if "lhs" not in st:
                        ps = []
                        places(st, ps)
                        if any(q["l"] == L or q["l"] in alias for q in ps):
                            ok = False
                        continue
                    if is_alias_def(st):
                        continue
                    rv = behind(st["rv"]) if whole_target(st["lhs"]) else st["rv"]
                    if whole_target(st["lhs"]):
                        if rv["k"] == "use" and "k" in rv["o"] and isinstance(rv["o"]["k"].get("struct"), dict):
                            fv = rv["o"]["k"]["struct"].get("fields", {})
                            if not all(f["n"] in fv and INT.match(f["ty"]) and re.match(r"^-?\d+$", str(fv[f["n"]])) for f in flds):
                                ok = False
                        elif rv["k"] == "agg" and rv["kind"].get("adt") == sty and len(rv["ops"]) == len(flds) and rv["kind"].get("fields") is not None:
                            pass
                        else:
                            ok = False
                        ps = []
                        places(rv, ps)
                        if any(q["l"] == L or q["l"] in alias for q in ps):
                            ok = False
                        continue
                    ps = []
                    places(st, ps)
                    if any(whole(q) for q in ps):
                        ok = False
                ps = []
                places(blk["t"], ps)
                # (the drop of the whole value at the end of its scope is the drop of its fields: it stays where it is)
                if any(whole(q) for q in ps) and not (blk["t"]["k"] == "drop" and blk["t"]["p"]["l"] == L and not blk["t"]["p"]["p"]):
                    ok = False
                if not ok:
                    break
            if not ok:
                continue
            # split
            base = len(bd["locals"])
            new_of = {}
            lname = next((e["n"] for e in bd["dbg"] if e["p"]["l"] == L and not e["p"]["p"]), None)
            for i, f in enumerate(flds):
                new_of[f["n"]] = base + i
                bd["locals"].append({"ty": f["ty"]})
                if lname is not None:
                    bd["dbg"].append({"n": "%s.%s" % (lname, f["n"]), "p": {"l": base + i, "p": []}, "ty": f["ty"]})
            for blk in bd["blocks"]:
                out = []
                for st in blk["st"]:
                    if is_alias_def(st):
                        continue
                    if "lhs" in st and whole_target(st["lhs"]):
                        rv = behind(st["rv"])
                        if rv["k"] == "use":
                            fv = rv["o"]["k"]["struct"]["fields"]
                            for f in flds:
                                out.append({"lhs": {"l": new_of[f["n"]], "p": []}, "rv": {"k": "use", "o": {"k": {"int": str(fv[f["n"]]), "ty": f["ty"]}}}, "ln": st["ln"], "x": st.get("x", False)})
                        else:
                            for n_, o_ in zip(rv["kind"]["fields"], rv["ops"]):
                                out.append({"lhs": {"l": new_of[n_], "p": []}, "rv": {"k": "use", "o": o_}, "ln": st["ln"], "x": st.get("x", False)})
                        continue
                    out.append(st)
                blk["st"] = out
                ps = []
                places(blk["st"], ps)
                places(blk["t"], ps)
                for q in ps:
                    if q["l"] == L and q["p"]:
                        q["l"] = new_of[q["p"][0]["n"]]
                        q["p"] = q["p"][1:]
                    elif q["l"] in alias and len(q["p"]) >= 2:
                        q["l"] = new_of[q["p"][1]["n"]]
                        q["p"] = q["p"][2:]
            done.append((L, sty))
        return done

    def _resolve_data_renames(self):
        """private struct fields and named constants of the reviewed tree (tables/data_anchors.json) that were renamed:
        a struct whose fields have the recorded types in the recorded order but other names for some private fields; a
        recorded constant that is gone while exactly one new constant of the same module, type and value exists.  The facts
        are rewritten to the recorded names, so every rule keeps working."""
        p = os.path.join(V, "tables", "data_anchors.json")
        if not os.path.exists(p) or os.environ.get("VERIF_NO_INLINE"):
            return {}
        with open(p) as f:
            anch = json.load(f)
        fmap = {}
        for a in self.d["adts"]:
            rec = anch["adts"].get(a["name"])
            if rec is None or len(rec) != len(a["variants"]):
                continue
            for v, rv in zip(a["variants"], rec):
                cur = v["fields"]
                if len(cur) != len(rv) or [f["ty"] for f in cur] != [r[1] for r in rv]:
                    continue
                curnames = {f["n"] for f in cur}
                for f, r in zip(cur, rv):
                    if f["n"] != r[0] and r[0] not in curnames and f["vis"] != "Public":
                        fmap[(a["name"], f["n"])] = r[0]
        cmap = {}
        cur = {c["name"]: c for c in self.d["consts"]}
        missing = [n for n in anch["consts"] if n not in cur]
        if missing:
            extra = [c for n, c in cur.items() if n not in anch["consts"] and "::{" not in n]
            for n in missing:
                r = anch["consts"][n]
                mod = n.rsplit("::", 1)[0]
                cands = [c for c in extra if c["name"].rsplit("::", 1)[0] == mod and c.get("ty") == r["ty"]
                         and (c.get("raw") or c.get("int") or c.get("bytes")) == r["val"]]
                if len(cands) == 1:
                    cmap[cands[0]["name"]] = n
        if not fmap and not cmap:
            return {}

        def walk(x):
            if isinstance(x, dict):
                if "f" in x and "adt" in x and (x["adt"], x.get("n")) in fmap:
                    x["n"] = fmap[(x["adt"], x["n"])]
                if x.get("a") == "adt" and "fields" in x:
                    x["fields"] = [fmap.get((x["adt"], n), n) for n in x["fields"]]
                if "def" in x and x["def"] in cmap:
                    x["def"] = cmap[x["def"]]
                for v in x.values():
                    walk(v)
            elif isinstance(x, list):
                for v in x:
                    walk(v)
        walk(self.d["bodies"])
        for a in self.d["adts"]:
            for v in a["variants"]:
                for f in v["fields"]:
                    f["n"] = fmap.get((a["name"], f["n"]), f["n"])
        for c in self.d["consts"]:
            c["name"] = cmap.get(c["name"], c["name"])
        return {"fields": {"%s.%s" % k: v for k, v in fmap.items()}, "consts": cmap}

    def _apply_reviewed_view(self):
        """The rules are written against the decomposition into functions of the reviewed tree (tables/anchors.json lists
        every function of it).  A private, non-recursive function that is not in that list (and is not a renamed one) is
        part of some reviewed function that was split: it is inlined into its callers and disappears as a body of its
        own, so that every rule — call multisets, order rules, guards, the panic inventory in the caller's context — sees
        the code as before the split."""
        p = os.path.join(V, "tables", "anchors.json")
        if not os.path.exists(p) or os.environ.get("VERIF_NO_INLINE"):
            return
        with open(p) as f:
            anchors = json.load(f)
        self.canon
        new = {}
        for path, b in self.bodies.items():
            if b.kind == "Closure" or self.canon_of(b) in anchors:
                continue
            # (a trait method of a type that was introduced after the review — `impl From<bool> for NewEnum` — is such a piece too)
            new_type_method = bool(b.impl_of) and getattr(self, "reviewed_adts", None) is not None and b.self_ty in self.adts and b.self_ty not in self.reviewed_adts
            if not (b.vis.startswith("Restricted") or new_type_method) or b.n > 160:
                continue          # (pub(crate) counts: a new crate-internal function is still a piece of reviewed code that moved)
            new[path] = b
        if not new:
            return
        rec = set()
        for comp in self.sccs():
            if len(comp) > 1 or comp[0] in self.callgraph.get(comp[0], ()):
                rec.update(comp)
        new = {k: v for k, v in new.items() if k not in rec}
        for path, b in self.bodies.items():
            for name, loc, _ in b.fn_mentions():
                if loc and name in new:
                    new.pop(name, None)      # used as a value (passed as fn item): keep it a function of its own
        if not new:
            return
        self.new_helpers = new
        repl = {}
        for path, b in self.bodies.items():
            if path in new:
                continue
            if any(c.local and c.name in new for c in b.calls):
                repl[path] = self.inlined(b)
        for path, nb in repl.items():
            self.bodies[path] = nb
        for path in new:
            self.hidden[path] = self.bodies.pop(path)
        self._cg = None
        self._closures_of = None
        self._canon = None
        self._rec = None

    def body(self, path):
        return self.bodies.get(path)

    def field_ty(self, adt, field):
        """declared type of `adt.field` for a crate-local ADT (adt may carry a ::Variant suffix)."""
        a = self.adts.get(adt)
        var = None
        if a is None and "::" in adt:
            base, var = adt.rsplit("::", 1)
            a = self.adts.get(base)
        if a is None:
            return None
        for v in a["variants"]:
            if var is not None and v["name"] != var:
                continue
            for f in v["fields"]:
                if f["n"] == field:
                    return f["ty"]
        return None

    def find(self, suffix):
        """bodies whose path ends with `suffix` at a `::` boundary."""
        out = []
        for p, b in self.bodies.items():
            if p == suffix or p.endswith("::" + suffix):
                out.append(b)
        return out

    def one(self, suffix):
        bs = self.find(suffix)
        if len(bs) != 1:
            raise AnchorLost("expected exactly one body named %r, found %d: %s" % (suffix, len(bs), [b.path for b in bs][:5]))
        return bs[0]

    # ---- canonical, module-independent names:  Type::method, <Type as Trait>::method, module::free_fn, ...::{closure#n}
    def canon_of(self, b):
        al = getattr(self, "_alias", None)
        if al and b.path in al:
            return al[b.path]
        if b.kind == "Closure":
            # nearest enclosing non-closure
            root = b.path
            suffix = ""
            while "::{closure" in root and root not in () and (self.bodies.get(root) is None or self.bodies[root].kind == "Closure"):
                root, _, tail = root.rpartition("::{closure")
                suffix = "::{closure" + tail + suffix
            rb = self.bodies.get(root)
            return (self.canon_of(rb) if rb else root) + suffix
        if b.kind == "AssocFn" and b.self_ty:
            ty = strip_generics(b.self_ty).split("::")[-1]
            if b.self_ty.startswith("&"):
                ty = "&" + ty
            name = b.d["path"].rsplit("::", 1)[-1]
            if b.impl_of:
                return "<%s as %s>::%s" % (ty, b.impl_of.split("::")[-1], name)
            return "%s::%s" % (ty, name)
        return b.d["path"]

    @property
    def canon(self):
        if self._canon is None:
            self._alias = {}
            m = defaultdict(list)
            for b in self.bodies.values():
                m[self.canon_of(b)].append(b)
            alias = self._resolve_renames(m)
            if alias:
                self._alias = alias
                m = defaultdict(list)
                for b in self.bodies.values():
                    m[self.canon_of(b)].append(b)
            self._canon = m
        return self._canon

    def _resolve_renames(self, m):
        """a function recorded in tables/anchors.json that no longer exists under its name, while exactly one new
        function with the same impl type and signature (and the most similar callers) exists: treat as renamed."""
        p = os.path.join(V, "tables", "anchors.json")
        if not os.path.exists(p):
            return {}
        with open(p) as f:
            anchors = json.load(f)
        missing = [a for a in anchors if a not in m]
        if not missing:
            return {}
        extra = [c for c, bs in m.items() if c not in anchors and len(bs) == 1 and bs[0].kind != "Closure"]
        if not extra:
            return {}
        # callers of the extras
        cg_callers = defaultdict(set)
        for pth, b in self.bodies.items():
            root = b
            while root.kind == "Closure":
                par = self.bodies.get(root.path.rsplit("::{closure", 1)[0])
                if par is None:
                    break
                root = par
            for c in b.calls:
                if c.local and c.name in self.bodies:
                    cg_callers[self.canon_of(self.bodies[c.name])].add(self.canon_of(root))
            for name, loc, _ in b.fn_mentions():
                if loc and name in self.bodies:
                    cg_callers[self.canon_of(self.bodies[name])].add(self.canon_of(root))
        alias = {}
        taken = set()
        for a in sorted(missing):
            info = anchors[a]
            cands = []
            for e in extra:
                if e in taken:
                    continue
                b = m[e][0]
                if b.kind != info["kind"] or strip_generics(b.self_ty) != strip_generics(info["self_ty"]) or b.impl_of != info["impl_of"]:
                    continue
                if [b.lty(i) for i in range(0, b.argc + 1)] != info["sig"]:
                    continue
                cs = cg_callers.get(e, set())
                want = set(info["callers"])
                j = len(cs & want) / float(len(cs | want) or 1)
                cands.append((j, e))
            cands.sort(reverse=True)
            if cands and (len(cands) == 1 or cands[0][0] > cands[1][0]) and (cands[0][0] > 0 or not info["callers"]):
                alias[m[cands[0][1]][0].path] = a
                taken.add(cands[0][1])
        # second pass: the function moved to another type / became a free function (or the reverse): same signature
        # (parameter and return types) and mostly the same callers; stricter on the callers because less else is compared
        for a in sorted(missing):
            if a in alias.values():
                continue
            info = anchors[a]
            cands = []
            for e in extra:
                if e in taken:
                    continue
                b = m[e][0]
                if b.kind not in ("Fn", "AssocFn") or info["kind"] not in ("Fn", "AssocFn"):
                    continue
                if [b.lty(i) for i in range(0, b.argc + 1)] != info["sig"]:
                    continue
                cs = cg_callers.get(e, set())
                want = set(info["callers"])
                j = len(cs & want) / float(len(cs | want) or 1)
                cands.append((j, e))
            cands.sort(reverse=True)
            if cands and cands[0][0] >= 0.5 and (len(cands) == 1 or cands[0][0] > cands[1][0]):
                alias[m[cands[0][1]][0].path] = a
                taken.add(cands[0][1])
        # third pass: the function kept its own name but its parameter list was reworked (parameters reordered, a field
        # passed instead of `self`, a method turned into a free function): same last path segment, same return type and
        # mostly the same callers
        for a in sorted(missing):
            if a in alias.values():
                continue
            info = anchors[a]
            own = a.rsplit("::", 1)[-1]
            cands = []
            for e in extra:
                if e in taken:
                    continue
                b = m[e][0]
                if b.kind not in ("Fn", "AssocFn") or info["kind"] not in ("Fn", "AssocFn") or e.rsplit("::", 1)[-1] != own:
                    continue
                if not info["sig"] or b.lty(0) != info["sig"][0]:
                    continue
                cs = cg_callers.get(e, set())
                # a recursive function calls itself under its new name
                cs = {a if x == e else x for x in cs}
                want = set(info["callers"])
                j = len(cs & want) / float(len(cs | want) or 1)
                cands.append((j, e))
            cands.sort(reverse=True)
            if cands and cands[0][0] >= 0.5 and (len(cands) == 1 or cands[0][0] > cands[1][0]):
                alias[m[cands[0][1]][0].path] = a
                taken.add(cands[0][1])
        return alias

    def fn(self, name):
        """exactly one body with canonical name `name` (fails closed otherwise)."""
        bs = self.canon.get(name, [])
        if len(bs) != 1:
            raise AnchorLost("expected exactly one function %r, found %d %s" % (name, len(bs), [b.path for b in bs][:4]))
        return bs[0]

    def fns(self, name):
        return self.canon.get(name, [])

    def fni(self, name):
        """the function `name` with its private helpers inlined (see inlined)."""
        return self.inlined(self.fn(name))

    def has_fn(self, name):
        return len(self.canon.get(name, [])) == 1

    def forbid_unsafe(self):
        for a in self.d["crate_attrs"]:
            if '"forbid"' in a and "unsafe_code" in a:
                return True
        return False

    def closures_of(self, path):
        if self._closures_of is None:
            m = defaultdict(list)
            for b in self.bodies.values():
                if b.kind == "Closure":
                    # direct syntactic parent = path minus the last ::{closure#n}
                    par = b.path.rsplit("::{closure", 1)[0]
                    m[par].append(b)
            # closures defined inside an inlined helper belong to the function it was inlined into
            for b in self.bodies.values():
                for h in getattr(b, "inlined", ()):
                    for c in list(m.get(h, [])):
                        if c not in m[b.path]:
                            m[b.path].append(c)
            self._closures_of = m
        return self._closures_of.get(path, [])

    def with_closures(self, body):
        """body plus (transitively) the closures defined inside it (and inside the helpers inlined into it)."""
        out = [body]
        i = 0
        while i < len(out):
            for c in self.closures_of(out[i].path):
                if c not in out:
                    out.append(c)
            i += 1
        return out

    # ---- inlining of private helpers (analysis-time only)
    def inlinable(self, caller, callee):
        """a new private helper (see _apply_reviewed_view) of the same file."""
        return callee.path in self.new_helpers and callee.path != caller.path

    def inlined(self, body, depth=3, _stack=()):
        """a synthetic Body in which every call to an inlinable helper is replaced by the helper's blocks (parameters are
        assigned from the arguments, `return` stores into the destination and jumps to the call's target).  Rules that
        look at the shape of "one function" use this view, so that extracting part of a function into a private helper,
        or inlining such a helper, leaves the view unchanged.  The Body keeps the original path, names and file."""
        if isinstance(body, str):
            body = self.fn(body)
        key = (body.path, depth)
        if not _stack and key in self._inl:
            return self._inl[key]
        import copy
        d = copy.deepcopy(body.d)
        blocks, locals_, dbg = d["blocks"], d["locals"], d["dbg"]
        inl = []
        nb0 = len(blocks)
        for bi in range(nb0):
            t = blocks[bi]["t"]
            if t["k"] != "call" or "ind" in t["f"] or not t["f"].get("loc"):
                continue
            tgt = t["f"].get("res") or t["f"].get("fn")
            cb = self.bodies.get(tgt) or self.hidden.get(tgt)
            if cb is None or depth <= 0 or cb.path in _stack or not self.inlinable(body, cb):
                continue
            if len(t["args"]) != cb.argc:
                continue
            cbi = self.inlined(cb, depth - 1, _stack + (body.path,))
            cd = copy.deepcopy(cbi.d)
            loff, boff = len(locals_), len(blocks)
            locals_.extend(cd["locals"])
            for e in cd["dbg"]:
                # the helper's parameters are plain copies of the caller's arguments: they carry no name in the view, so
                # that renderings show the argument expression itself (`self.owner_value`, not `value`)
                if not e["p"]["p"] and 1 <= e["p"]["l"] <= cb.argc:
                    continue
                e2 = copy.deepcopy(e)
                _remap(e2["p"], loff, 0)
                dbg.append(e2)
            for blk in cd["blocks"]:
                _remap(blk, loff, boff)
                tt = blk["t"]
                if tt["k"] == "return":
                    blk["st"].append({"lhs": copy.deepcopy(t["dest"]), "rv": {"k": "use", "o": {"m": {"l": loff, "p": []}}}, "ln": tt["ln"], "x": tt.get("x", False)})
                    blk["t"] = {"k": "goto", "to": t["to"], "ln": tt["ln"], "x": tt.get("x", False)} if t["to"] is not None else {"k": "unreachable", "ln": tt["ln"], "x": tt.get("x", False)}
                elif tt["k"] == "resume" and t.get("uw") is not None:
                    blk["t"] = {"k": "goto", "to": t["uw"], "ln": tt["ln"], "x": tt.get("x", False)}
            for i, a in enumerate(t["args"]):
                blocks[bi]["st"].append({"lhs": {"l": loff + 1 + i, "p": []}, "rv": {"k": "use", "o": a}, "ln": t["ln"], "x": t.get("x", False)})
            blocks[bi]["t"] = {"k": "goto", "to": boff, "ln": t["ln"], "x": t.get("x", False)}
            blocks.extend(cd["blocks"])
            inl.append(cb.path)
            inl.extend(getattr(cbi, "inlined", ()))
        if inl and not _stack:
            structs_ = self._new_structs()
            if structs_:
                self._split_body(d, structs_)      # what is left of `&mut self` of an inlined method of a new struct type
        nb = Body(d, self)
        nb.inlined = inl
        nb.origin = body
        if not _stack:
            self._inl[key] = nb
        return nb

    # ---- call graph (crate-local)
    @property
    def callgraph(self):
        if self._cg is None:
            cg = {}
            for p, b in self.bodies.items():
                e = set()
                for c in b.calls:
                    if c.local and c.name in self.bodies:
                        e.add(c.name)
                    elif c.local:
                        # trait method declared locally but unresolved (dyn / generic): fan out to all impls
                        for q in self.impl_methods_named(c.fn):
                            e.add(q)
                    # trait-level call of a foreign trait on a receiver with local impls -> fan out
                    if not c.local or c.name not in self.bodies:
                        for q in self.foreign_trait_targets(c):
                            e.add(q)
                for name, loc, _ in b.fn_mentions():
                    if loc and name in self.bodies:
                        e.add(name)
                cg[p] = e
            self._cg = cg
        return self._cg

    def impl_methods_named(self, trait_fn):
        """local impl bodies of a trait method given as `path::Trait::method`."""
        m = trait_fn.rsplit("::", 1)
        if len(m) != 2:
            return []
        meth = m[1]
        trait = m[0]
        out = []
        for b in self.bodies.values():
            if b.impl_of and b.impl_of == trait and b.path.endswith("::" + meth):
                out.append(b.path)
        return out

    def foreign_trait_targets(self, c):
        """a call like <CountingWrite<..> as Write>::write_fmt or Iterator::collect over a local iterator type:
        any local impl of the same trait whose Self type is mentioned in the call's generic args is a potential callee."""
        out = []
        if not c.full or c.ind:
            return out
        m = re.match(r"^<(.+) as ([^>]+?)(<.*>)?>::(\w+)", c.full)
        tr_fn = c.fn
        if not m:
            return out
        trait = tr_fn.rsplit("::", 1)[0]
        for b in self.bodies.values():
            if not b.impl_of:
                continue
            # same trait: every method of that impl is reachable when the receiver type mentions the impl's Self type
            if b.impl_of == trait or trait_alias(b.impl_of) == trait_alias(trait):
                st = strip_generics(b.self_ty)
                if st and st in c.full:
                    out.append(b.path)
        # constructing-side closure: Iterator adaptors consuming a local Iterator type
        return out

    def reach(self, roots, extra_edges=None, stop=None):
        cg = self.callgraph
        seen = set()
        dq = deque(r for r in roots)
        while dq:
            p = dq.popleft()
            if p in seen or p not in self.bodies:
                continue
            if stop and stop(p):
                continue
            seen.add(p)
            for q in cg.get(p, ()):
                if q not in seen:
                    dq.append(q)
            if extra_edges:
                for q in extra_edges(p):
                    if q not in seen:
                        dq.append(q)
        return seen

    def sccs(self, nodes=None):
        cg = self.callgraph
        nodes = list(nodes if nodes is not None else cg.keys())
        nodeset = set(nodes)
        index = {}
        low = {}
        st = []
        on = set()
        out = []
        idx = [0]
        sys.setrecursionlimit(10000)

        def strong(v):
            index[v] = low[v] = idx[0]
            idx[0] += 1
            st.append(v)
            on.add(v)
            for w in cg.get(v, ()):
                if w not in nodeset:
                    continue
                if w not in index:
                    strong(w)
                    low[v] = min(low[v], low[w])
                elif w in on:
                    low[v] = min(low[v], index[w])
            if low[v] == index[v]:
                comp = []
                while True:
                    w = st.pop()
                    on.discard(w)
                    comp.append(w)
                    if w == v:
                        break
                if len(comp) > 1 or v in cg.get(v, ()):
                    out.append(sorted(comp))

        for v in nodes:
            if v not in index:
                strong(v)
        return out


def strip_generics(t):
    t = t.strip()
    t = re.sub(r"^&(mut )?", "", t)
    d = 0
    out = []
    for ch in t:
        if ch == "<":
            d += 1
        elif ch == ">":
            d -= 1
        elif d == 0:
            out.append(ch)
    return "".join(out)


def trait_alias(t):
    return t.replace("core::", "std::").replace("alloc::", "std::")


class AnchorLost(Exception):
    pass


def facts_path(cfg):
    return os.path.join(V, ".cache", "facts-%s.json" % cfg)


_cache = {}

def load(cfg="default"):
    """facts of /repo's current tree (re-extracted when the cached file belongs to another tree)."""
    if cfg not in _cache:
        import common
        ff, _ = common.ensure_facts(cfg)
        _cache[cfg] = Facts(ff)
    return _cache[cfg]
