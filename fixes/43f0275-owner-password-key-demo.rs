// Demonstration for the repair of owner-password decryption, revisions 2-4 (property C05), adapted from a seeded demo.
//
// A V4 (AES-128) document protected with passwords that contain Latin-1 letters outside ASCII.
// Encrypting and then decrypting with the very same user password (in memory and after save +
// reload) must succeed and give back every string and stream byte-for-byte. The ASCII control
// case shows that plain ASCII passwords are unaffected.
use lopdf::encryption::crypt_filters::{Aes128CryptFilter, CryptFilter};
use lopdf::{dictionary, Document, EncryptionState, EncryptionVersion, Object, Permissions, Stream, StringFormat};
use std::collections::BTreeMap;
use std::sync::Arc;

fn make_doc() -> Document {
    let mut doc = Document::with_version("1.6");
    let pages_id = doc.new_object_id();
    let content_id = doc.add_object(Stream::new(
        dictionary! {},
        b"BT /F1 12 Tf (Hello World, this is a test) Tj ET".to_vec(),
    ));
    let page_id = doc.add_object(dictionary! {
        "Type" => "Page",
        "Parent" => pages_id,
        "Contents" => content_id,
        "Notes" => vec![Object::string_literal("a string nested in an array")],
    });
    doc.objects.insert(
        pages_id,
        Object::Dictionary(dictionary! {
            "Type" => "Pages",
            "Kids" => vec![page_id.into()],
            "Count" => 1,
            "MediaBox" => vec![0.into(), 0.into(), 595.into(), 842.into()],
        }),
    );
    let info_id = doc.add_object(dictionary! {
        "Title" => Object::string_literal("A title of more than sixteen bytes"),
    });
    let catalog_id = doc.add_object(dictionary! { "Type" => "Catalog", "Pages" => pages_id });
    doc.trailer.set("Root", catalog_id);
    doc.trailer.set("Info", info_id);
    doc.trailer.set(
        "ID",
        Object::Array(vec![
            Object::String(b"0123456789ABCDEF".to_vec(), StringFormat::Hexadecimal),
            Object::String(b"0123456789ABCDEF".to_vec(), StringFormat::Hexadecimal),
        ]),
    );
    doc
}

fn same_payload(a: &Object, b: &Object) -> bool {
    match (a, b) {
        (Object::String(x, _), Object::String(y, _)) => x == y,
        (Object::Array(x), Object::Array(y)) => x.len() == y.len() && x.iter().zip(y).all(|(p, q)| same_payload(p, q)),
        (Object::Dictionary(x), Object::Dictionary(y)) => {
            x.len() == y.len() && x.iter().all(|(k, v)| y.get(k).map(|w| same_payload(v, w)).unwrap_or(false))
        }
        (Object::Stream(x), Object::Stream(y)) => x.content == y.content,
        _ => true,
    }
}

fn assert_restored(original: &Document, decrypted: &Document, what: &str) {
    assert!(!decrypted.is_encrypted(), "{what}: the encryption dictionary is still there");
    for (id, object) in &original.objects {
        let other = decrypted
            .objects
            .get(id)
            .unwrap_or_else(|| panic!("{what}: object {id:?} is gone"));
        assert!(
            same_payload(object, other),
            "{what}: object {id:?} was not restored: {object:?} became {other:?}"
        );
    }
}

fn state(doc: &Document, owner: &str, user: &str) -> EncryptionState {
    let aes: Arc<dyn CryptFilter> = Arc::new(Aes128CryptFilter);
    EncryptionState::try_from(EncryptionVersion::V4 {
        document: doc,
        encrypt_metadata: true,
        crypt_filters: BTreeMap::from([(b"StdCF".to_vec(), aes)]),
        stream_filter: b"StdCF".to_vec(),
        string_filter: b"StdCF".to_vec(),
        owner_password: owner,
        user_password: user,
        permissions: Permissions::all(),
    })
    .unwrap()
}

fn roundtrip(owner: &str, user: &str) {
    let original = make_doc();

    // In memory.
    let mut doc = original.clone();
    doc.encrypt(&state(&original, owner, user)).unwrap();
    assert!(doc.is_encrypted());
    doc.decrypt(user)
        .unwrap_or_else(|e| panic!("in memory: the user password {user:?} was rejected: {e}"));
    assert_restored(&original, &doc, "in memory");

    // In memory, with the owner password.
    let mut doc = original.clone();
    doc.encrypt(&state(&original, owner, user)).unwrap();
    doc.decrypt(owner)
        .unwrap_or_else(|e| panic!("in memory: the owner password {owner:?} was rejected: {e}"));
    assert_restored(&original, &doc, "in memory, owner password");

    // Through a file.
    let mut doc = original.clone();
    doc.encrypt(&state(&original, owner, user)).unwrap();
    let mut bytes = Vec::new();
    doc.save_to(&mut bytes).unwrap();
    let mut loaded = Document::load_mem(&bytes).unwrap();
    assert!(loaded.is_encrypted());
    loaded
        .decrypt(user)
        .unwrap_or_else(|e| panic!("after reload: the user password {user:?} was rejected: {e}"));
    assert_restored(&original, &loaded, "after save and reload");

    let mut loaded = Document::load_mem(&bytes).unwrap();
    loaded
        .decrypt(owner)
        .unwrap_or_else(|e| panic!("after reload: the owner password {owner:?} was rejected: {e}"));
    assert_restored(&original, &loaded, "after save and reload, owner password");

    let mut loaded = Document::load_mem(&bytes).unwrap();
    assert!(loaded.decrypt("neither").is_err(), "a wrong password was accepted");
    assert!(loaded.is_encrypted());
}

#[test]
fn v4_owner_and_user_passwords_both_restore_the_document() {
    roundtrip("owner", "user");
}

#[test]
fn v4_empty_user_password() {
    let original = make_doc();
    let mut doc = original.clone();
    doc.encrypt(&state(&original, "owner", "")).unwrap();
    doc.decrypt("owner").unwrap();
    assert_restored(&original, &doc, "owner password, empty user password");
}

#[test]
fn v4_same_owner_and_user_password() {
    roundtrip("same", "same");
}

#[test]
fn v1_and_v2_owner_password_restores_the_document() {
    for (name, key_length) in [("V1", 0usize), ("V2-40", 40), ("V2-128", 128)] {
        let original = make_doc();
        let st = if key_length == 0 {
            EncryptionState::try_from(EncryptionVersion::V1 { document: &original, owner_password: "owner", user_password: "user", permissions: Permissions::all() }).unwrap()
        } else {
            EncryptionState::try_from(EncryptionVersion::V2 { document: &original, owner_password: "owner", user_password: "user", key_length, permissions: Permissions::all() }).unwrap()
        };
        let mut doc = original.clone();
        doc.encrypt(&st).unwrap();
        doc.decrypt("owner").unwrap_or_else(|e| panic!("{name}: owner password rejected: {e}"));
        assert_restored(&original, &doc, name);
        let mut doc = original.clone();
        doc.encrypt(&st).unwrap();
        doc.decrypt("user").unwrap_or_else(|e| panic!("{name}: user password rejected: {e}"));
        assert_restored(&original, &doc, name);
    }
}
