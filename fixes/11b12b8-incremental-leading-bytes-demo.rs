use lopdf::{dictionary, Document, IncrementalDocument, Object};

fn base() -> Vec<u8> {
    let mut doc = Document::with_version("1.5");
    let pages_id = doc.new_object_id();
    let page_id = doc.add_object(dictionary! { "Type" => "Page", "Parent" => pages_id });
    doc.objects.insert(
        pages_id,
        Object::Dictionary(dictionary! { "Type" => "Pages", "Kids" => vec![page_id.into()], "Count" => 1 }),
    );
    let catalog_id = doc.add_object(dictionary! { "Type" => "Catalog", "Pages" => pages_id });
    doc.trailer.set("Root", catalog_id);
    let mut out = Vec::new();
    doc.save_to(&mut out).unwrap();
    out
}

fn update_and_reload(bytes: Vec<u8>) {
    // the file as given loads
    let plain = Document::load_mem(&bytes).expect("base file loads");
    let _ = plain;
    let mut inc = IncrementalDocument::load_from(&bytes[..]).expect("incremental load");
    let id = inc.new_document.add_object(Object::Integer(42));
    let mut out = Vec::new();
    inc.save_to(&mut out).expect("incremental save");
    assert!(out.starts_with(&bytes), "previous bytes are a prefix");
    let again = Document::load_mem(&out).expect("the updated file loads again");
    assert_eq!(again.get_object(id).unwrap().as_i64().unwrap(), 42);
}

#[test]
fn clean_header() {
    update_and_reload(base());
}

#[test]
fn bytes_before_the_header() {
    let mut bytes = b"some mail gateway line\r\n".to_vec();
    bytes.extend(base());
    update_and_reload(bytes);
}
