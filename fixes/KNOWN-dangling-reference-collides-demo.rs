use lopdf::{dictionary, Document, Object};
#[test]
fn dangling_reference_stays_dangling() {
    let mut doc = Document::with_version("1.5");
    doc.objects.insert((1, 0), Object::Dictionary(dictionary! { "Type" => "Catalog", "Missing" => Object::Reference((2, 0)), "Other" => Object::Reference((5, 0)) }));
    doc.objects.insert((5, 0), Object::Dictionary(dictionary! { "Me" => "five" }));
    doc.trailer.set("Root", Object::Reference((1, 0)));
    doc.max_id = 5;
    assert!(doc.get_object((2, 0)).is_err());
    doc.renumber_objects();
    let cat = doc.get_dictionary((1, 0)).unwrap();
    let missing = cat.get(b"Missing").unwrap().as_reference().unwrap();
    assert!(doc.get_object(missing).is_err(), "the dangling reference now resolves to {:?}", doc.get_object(missing));
}
