use lopdf::content::{Content, Operation};
use lopdf::{Document, Object};

#[test]
fn large_reals_survive_save_and_load() {
    for v in [3.0e38_f32, -3.0e38, 9.3e18, 1.0e19, f32::MAX, f32::MIN, 16777216.0, 0.5, -0.25] {
        let mut doc = Document::with_version("1.5");
        let id = doc.add_object(Object::Array(vec![Object::Real(v), Object::Integer(7)]));
        let mut bytes = Vec::new();
        doc.save_to(&mut bytes).unwrap();
        let back = Document::load_mem(&bytes).unwrap();
        let arr = back.get_object(id).unwrap_or_else(|e| panic!("{v}: object lost: {e}")).as_array().unwrap();
        match &arr[0] {
            Object::Real(r) => assert_eq!(*r, v),
            Object::Integer(i) => assert_eq!(*i as f32, v),
            o => panic!("{v}: came back as {o:?}"),
        }
        assert_eq!(arr[1], Object::Integer(7));
        let c = Content { operations: vec![Operation::new("w", vec![Object::Real(v)])] };
        let d = Content::decode(&c.encode().unwrap()).unwrap();
        assert_eq!(d.operations.len(), 1, "{v}");
        assert_eq!(d.operations[0].operands[0].as_float().unwrap(), v);
    }
}
