use lopdf::{dictionary, Dictionary, Document, IncrementalDocument, Object, ObjectId};

fn doc() -> (Document, ObjectId, ObjectId) {
    let mut doc = Document::with_version("1.5");
    let pages_id = doc.new_object_id();
    let font_id = doc.add_object(dictionary! { "Type" => "Font", "Subtype" => "Type1", "BaseFont" => "Courier" });
    let page_id = doc.add_object(dictionary! { "Type" => "Page", "Parent" => pages_id });
    doc.objects.insert(pages_id, Object::Dictionary(dictionary! {
        "Type" => "Pages", "Kids" => vec![Object::Reference(page_id)], "Count" => 1,
        "Resources" => dictionary! { "Font" => dictionary! { "F1" => font_id } },
    }));
    let catalog_id = doc.add_object(dictionary! { "Type" => "Catalog", "Pages" => pages_id });
    doc.trailer.set("Root", catalog_id);
    let x = doc.add_object(lopdf::Stream::new(dictionary! { "Type" => "XObject", "Subtype" => "Form" }, vec![]));
    (doc, page_id, x)
}

/// the resources a PDF consumer uses for the page: its own `/Resources`, else the nearest ancestor's (ISO 32000-1, 7.7.3.4)
fn effective<'a>(doc: &'a Document, page_id: ObjectId) -> &'a Dictionary {
    let mut node = doc.get_dictionary(page_id).unwrap();
    loop {
        if let Ok(r) = node.get_deref(b"Resources", doc).and_then(Object::as_dict) {
            return r;
        }
        node = doc.get_dictionary(node.get(b"Parent").unwrap().as_reference().unwrap()).unwrap();
    }
}

#[test]
fn adding_an_xobject_keeps_the_inherited_font() {
    let (mut doc, page_id, x) = doc();
    assert!(effective(&doc, page_id).get(b"Font").unwrap().as_dict().unwrap().has(b"F1"));
    doc.add_xobject(page_id, "X1", x).unwrap();
    let res = effective(&doc, page_id);
    assert!(res.get(b"XObject").unwrap().as_dict().unwrap().has(b"X1"));
    assert!(res.get(b"Font").and_then(Object::as_dict).map(|f| f.has(b"F1")).unwrap_or(false), "the inherited font F1 is gone: {res:?}");
    // the ancestor's dictionary is untouched
    let pages = doc.get_dictionary(doc.get_dictionary(page_id).unwrap().get(b"Parent").unwrap().as_reference().unwrap()).unwrap();
    assert!(!pages.get(b"Resources").unwrap().as_dict().unwrap().has(b"XObject"));
}

#[test]
fn the_same_through_an_incremental_update() {
    let (mut doc, page_id, x) = doc();
    let mut bytes = Vec::new();
    doc.save_to(&mut bytes).unwrap();
    let mut inc = IncrementalDocument::load_from(&bytes[..]).unwrap();
    inc.add_xobject(page_id, "X1", x).unwrap();
    let res = inc.new_document.get_dictionary(page_id).unwrap().get(b"Resources").unwrap().as_dict().unwrap();
    assert!(res.get(b"XObject").unwrap().as_dict().unwrap().has(b"X1"));
    assert!(res.get(b"Font").and_then(Object::as_dict).map(|f| f.has(b"F1")).unwrap_or(false), "the inherited font F1 is gone: {res:?}");
}

#[test]
fn a_page_without_anything_to_inherit_gets_an_empty_dictionary() {
    let mut doc = Document::with_version("1.5");
    let page_id = doc.add_object(dictionary! { "Type" => "Page" });
    let x = doc.add_object(dictionary! {});
    doc.add_xobject(page_id, "X1", x).unwrap();
    let res = doc.get_dictionary(page_id).unwrap().get(b"Resources").unwrap().as_dict().unwrap();
    assert_eq!(res.len(), 1);
}
