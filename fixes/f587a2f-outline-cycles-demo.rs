use lopdf::{dictionary, Document, Object, ObjectId};
use std::sync::mpsc;
use std::time::Duration;

fn base() -> (Document, ObjectId, ObjectId) {
    let mut doc = Document::with_version("1.5");
    let pages_id = doc.new_object_id();
    let page_id = doc.add_object(dictionary! { "Type" => "Page", "Parent" => pages_id });
    doc.objects.insert(pages_id, Object::Dictionary(dictionary! { "Type" => "Pages", "Kids" => vec![Object::Reference(page_id)], "Count" => 1 }));
    let catalog_id = doc.add_object(dictionary! { "Type" => "Catalog", "Pages" => pages_id });
    doc.trailer.set("Root", catalog_id);
    (doc, catalog_id, page_id)
}

fn item(doc: &mut Document, id: ObjectId, title: &str, page: ObjectId, next: Option<ObjectId>, first: Option<ObjectId>) {
    let mut d = dictionary! { "Title" => Object::string_literal(title), "Dest" => vec![Object::Reference(page), "Fit".into()] };
    if let Some(n) = next { d.set("Next", n); }
    if let Some(f) = first { d.set("First", f); }
    doc.objects.insert(id, Object::Dictionary(d));
}

fn finishes<F: FnOnce() + Send + 'static>(f: F) -> bool {
    let (tx, rx) = mpsc::channel();
    std::thread::Builder::new().stack_size(64 << 20).spawn(move || { f(); let _ = tx.send(()); }).unwrap();
    rx.recv_timeout(Duration::from_secs(10)).is_ok()
}

#[test]
fn well_formed_outline_reads_as_before() {
    let (mut doc, catalog_id, page) = base();
    let (o, a, b, c) = (doc.new_object_id(), doc.new_object_id(), doc.new_object_id(), doc.new_object_id());
    item(&mut doc, a, "A", page, Some(b), Some(c));
    item(&mut doc, b, "B", page, None, None);
    item(&mut doc, c, "A.1", page, None, None);
    doc.objects.insert(o, Object::Dictionary(dictionary! { "Type" => "Outlines", "First" => a, "Last" => b }));
    doc.get_dictionary_mut(catalog_id).unwrap().set("Outlines", o);
    let toc = doc.get_toc().unwrap();
    let got: Vec<(String, usize)> = toc.toc.iter().map(|t| (t.title.clone(), t.level)).collect();
    assert_eq!(got, vec![("A".to_string(), 1), ("A.1".to_string(), 2), ("B".to_string(), 1)]);
}

#[test]
fn next_cycle_terminates() {
    let (mut doc, catalog_id, page) = base();
    let (o, a, b) = (doc.new_object_id(), doc.new_object_id(), doc.new_object_id());
    item(&mut doc, a, "A", page, Some(b), None);
    item(&mut doc, b, "B", page, Some(a), None);
    doc.objects.insert(o, Object::Dictionary(dictionary! { "Type" => "Outlines", "First" => a }));
    doc.get_dictionary_mut(catalog_id).unwrap().set("Outlines", o);
    assert!(finishes(move || { let _ = doc.get_toc(); }), "get_toc did not return on a cyclic /Next chain");
}

#[test]
fn first_cycle_terminates() {
    let (mut doc, catalog_id, page) = base();
    let (o, a, b) = (doc.new_object_id(), doc.new_object_id(), doc.new_object_id());
    item(&mut doc, a, "A", page, None, Some(b));
    item(&mut doc, b, "B", page, None, Some(a));
    doc.objects.insert(o, Object::Dictionary(dictionary! { "Type" => "Outlines", "First" => a }));
    doc.get_dictionary_mut(catalog_id).unwrap().set("Outlines", o);
    assert!(finishes(move || { let _ = doc.get_toc(); }), "get_toc did not return on a cyclic /First chain");
}

#[test]
fn name_tree_cycle_terminates() {
    let (mut doc, catalog_id, page) = base();
    let (o, a, t) = (doc.new_object_id(), doc.new_object_id(), doc.new_object_id());
    item(&mut doc, a, "A", page, None, None);
    doc.objects.insert(o, Object::Dictionary(dictionary! { "Type" => "Outlines", "First" => a }));
    doc.objects.insert(t, Object::Dictionary(dictionary! { "Kids" => vec![Object::Reference(t)] }));
    let cat = doc.get_dictionary_mut(catalog_id).unwrap();
    cat.set("Outlines", o);
    cat.set("Dests", t);
    assert!(finishes(move || { let _ = doc.get_toc(); }), "get_toc did not return on a cyclic name tree");
}
