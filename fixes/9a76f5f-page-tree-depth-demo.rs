// Demonstration for mutant m1 (property C12).
//
// A well-formed page tree that is a "left spine": every intermediate node holds one nested
// intermediate node followed by one page.  While the iterator is inside the nested node it has
// to remember the remaining sibling of every level above, so the explicit stack grows by one
// entry per level.  The depth limit of the iterator is 256 pending levels; trees up to that
// depth must be enumerated completely, in depth-first, left-to-right order.
use lopdf::{dictionary, Dictionary, Document, Object, ObjectId};

/// Build `root -> N1 -> N2 -> ... -> N<depth>`, where node `N<i>` (root is `N0`) has
/// `/Kids [N<i+1> P<i>]` and the innermost node has `/Kids [P<depth>]`.
/// Returns the document and the root id.
fn spine(depth: usize) -> (Document, ObjectId) {
    let mut doc = Document::with_version("1.5");

    let node_ids: Vec<ObjectId> = (0..=depth).map(|_| doc.new_object_id()).collect();
    let page_ids: Vec<ObjectId> = (0..=depth).map(|_| doc.new_object_id()).collect();

    for i in 0..=depth {
        let mut kids: Vec<Object> = Vec::new();
        if i < depth {
            kids.push(Object::Reference(node_ids[i + 1]));
        }
        kids.push(Object::Reference(page_ids[i]));

        let mut node = dictionary! {
            "Type" => "Pages",
            "Kids" => kids,
            "Count" => (depth - i + 1) as i64,
        };
        if i > 0 {
            node.set("Parent", Object::Reference(node_ids[i - 1]));
        }
        doc.objects.insert(node_ids[i], Object::Dictionary(node));

        let page = dictionary! {
            "Type" => "Page",
            "Parent" => Object::Reference(node_ids[i]),
            "MediaBox" => vec![0.into(), 0.into(), 595.into(), 842.into()],
        };
        doc.objects.insert(page_ids[i], Object::Dictionary(page));
    }

    let catalog_id = doc.add_object(dictionary! {
        "Type" => "Catalog",
        "Pages" => Object::Reference(node_ids[0]),
    });
    doc.trailer.set("Root", Object::Reference(catalog_id));

    (doc, node_ids[0])
}

/// Reference enumeration: plain recursive depth-first walk, left to right.
fn dfs(doc: &Document, node: ObjectId, out: &mut Vec<ObjectId>) {
    let dict: &Dictionary = doc.get_dictionary(node).unwrap();
    for kid in dict.get(b"Kids").unwrap().as_array().unwrap() {
        let kid_id = kid.as_reference().unwrap();
        let kid_dict = doc.get_dictionary(kid_id).unwrap();
        match kid_dict.get(b"Type").unwrap().as_name().unwrap() {
            b"Page" => out.push(kid_id),
            b"Pages" => dfs(doc, kid_id, out),
            other => panic!("unexpected type {:?}", other),
        }
    }
}

fn check(depth: usize) {
    let (doc, root) = spine(depth);

    let mut expected = Vec::new();
    // The recursion is `depth` frames deep at most (<= 256): fine on the default test stack.
    dfs(&doc, root, &mut expected);
    assert_eq!(expected.len(), depth + 1);

    let got: Vec<ObjectId> = doc.page_iter().collect();
    assert_eq!(
        got.len(),
        expected.len(),
        "depth {}: enumeration lost {} page(s)",
        depth,
        expected.len() as i64 - got.len() as i64
    );
    assert_eq!(got, expected, "depth {}: wrong order", depth);

    let pages = doc.get_pages();
    assert_eq!(pages.len(), expected.len());
    for (i, id) in expected.iter().enumerate() {
        assert_eq!(pages.get(&((i + 1) as u32)), Some(id), "depth {}: page number {}", depth, i + 1);
    }
}

#[test]
fn shallow_spines_are_enumerated() {
    for depth in [0, 1, 2, 5, 31, 32, 33, 64, 100] {
        check(depth);
    }
}

#[test]
fn spine_of_depth_200_is_enumerated() {
    check(200);
}

#[test]
fn spine_deeper_than_the_old_limit_is_enumerated() {
    check(300);
}

#[test]
fn cyclic_tree_with_pending_siblings_terminates() {
    use lopdf::{dictionary, Document, Object};
    let mut doc = Document::with_version("1.5");
    let pages_id = doc.new_object_id();
    let page_id = doc.add_object(dictionary! { "Type" => "Page", "Parent" => pages_id });
    // the node lists itself before a real page: every descent leaves a pending sibling on the stack
    doc.objects.insert(pages_id, Object::Dictionary(dictionary! {
        "Type" => "Pages", "Kids" => vec![Object::Reference(pages_id), Object::Reference(page_id)], "Count" => 1,
    }));
    let catalog_id = doc.add_object(dictionary! { "Type" => "Catalog", "Pages" => pages_id });
    doc.trailer.set("Root", catalog_id);
    let pages = doc.get_pages();
    assert!(pages.len() <= doc.objects.len());
    assert!(doc.page_iter().count() <= doc.objects.len());
}
