use lopdf::content::{Content, Operation};
use lopdf::Object;
#[test]
fn glyph_width_operators_round_trip() {
    let ops = vec![
        Operation::new("d0", vec![1000.into(), 0.into()]),
        Operation::new("d1", vec![1000.into(), 0.into(), 0.into(), 0.into(), 750.into(), 750.into()]),
        Operation::new("q", vec![]),
        Operation::new("T*", vec![]),
        Operation::new("\"", vec![2.into(), 1.into(), Object::string_literal("x")]),
        Operation::new("Q", vec![]),
    ];
    let bytes = Content { operations: ops.clone() }.encode().unwrap();
    let back = Content::decode(&bytes).unwrap();
    assert_eq!(back.operations.len(), ops.len(), "{:?}", String::from_utf8_lossy(&bytes));
    for (a, b) in ops.iter().zip(back.operations.iter()) {
        assert_eq!(a.operator, b.operator);
        assert_eq!(a.operands, b.operands);
    }
}
