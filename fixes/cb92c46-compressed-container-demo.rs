use lopdf::Document;

// Two revisions (written by triage/mk_rev2.py): object 10 lives in object stream 5 in the first revision and is redefined
// inside a new object stream 20 by the second; the merged cross-reference table says `10 -> container 20`.
const REV2: &[u8] = b"%PDF-1.5\n%\xe2\xe3\xcf\xd3\n1 0 obj\n<</Type/Catalog>>\nendobj\n5 0 obj\n<</Type/ObjStm/N 1/First 5/Length 10>>\nstream\n10 0 (old)\nendstream\nendobj\n30 0 obj\n<</Type/XRef/Size 31/W[1 2 1]/Index[0 1 1 1 5 1 10 1 30 1]/Root 1 0 R/Length 20>>\nstream\n\x00\x00\x00\xff\x01\x00\x0f\x00\x01\x000\x00\x02\x00\x05\x00\x01\x00\x82\x00\nendstream\nendobj\nstartxref\n130\n%%EOF\n20 0 obj\n<</Type/ObjStm/N 1/First 5/Length 10>>\nstream\n10 0 (new)\nendstream\nendobj\n31 0 obj\n<</Type/XRef/Size 32/W[1 2 1]/Index[10 1 20 1 31 1]/Root 1 0 R/Prev 130/Length 12>>\nstream\n\x02\x00\x14\x00\x01\x01\x1e\x00\x01\x01q\x00\nendstream\nendobj\nstartxref\n369\n%%EOF\n";

#[test]
fn object_redefined_in_a_new_object_stream_loads_as_the_new_copy() {
    let doc = Document::load_mem(REV2).unwrap();
    assert_eq!(doc.get_object((10, 0)).unwrap().as_str().unwrap(), b"new");
}
