use lopdf::{dictionary, Bookmark, Document, Object, ObjectId};

/// pages in the order given by `ids` (object ids), returns the document and a bookmark on every page titled by its position
fn doc_with_pages(ids: &[u32]) -> Document {
    let mut doc = Document::with_version("1.5");
    let pages_id: ObjectId = (100, 0);
    let mut kids = Vec::new();
    for (n, id) in ids.iter().enumerate() {
        doc.objects.insert((*id, 0), Object::Dictionary(dictionary! { "Type" => "Page", "Parent" => pages_id, "Pos" => n as i64 }));
        kids.push(Object::Reference((*id, 0)));
    }
    doc.objects.insert(pages_id, Object::Dictionary(dictionary! { "Type" => "Pages", "Kids" => kids, "Count" => ids.len() as i64 }));
    doc.objects.insert((101, 0), Object::Dictionary(dictionary! { "Type" => "Catalog", "Pages" => pages_id }));
    doc.trailer.set("Root", Object::Reference((101, 0)));
    doc.max_id = 101;
    for (n, id) in ids.iter().enumerate() {
        doc.add_bookmark(Bookmark::new(format!("p{n}"), [0.0, 0.0, 0.0], 0, (*id, 0)), None);
    }
    doc
}

fn check(doc: &Document, n: usize) {
    // every bookmark "p<k>" must point at the page whose /Pos is k
    for b in doc.bookmark_table.values() {
        let k: i64 = b.title[1..].parse().unwrap();
        let page = doc.get_dictionary(b.page).unwrap_or_else(|e| panic!("bookmark {} -> {:?}: {e}", b.title, b.page));
        assert_eq!(page.get(b"Pos").unwrap().as_i64().unwrap(), k, "bookmark {} points at the wrong page {:?}", b.title, b.page);
    }
    assert_eq!(doc.get_pages().len(), n);
}

#[test]
fn bookmarks_follow_pages_that_swap_numbers() {
    // page order differs from object-number order: the ordering pass swaps the two numbers
    let mut doc = doc_with_pages(&[7, 4]);
    doc.renumber_objects();
    check(&doc, 2);
}

#[test]
fn bookmarks_follow_an_upward_shift_that_overlaps_the_old_numbers() {
    let mut doc = doc_with_pages(&[1, 2, 3, 4, 5]);
    doc.renumber_objects_with(3);
    check(&doc, 5);
}

#[test]
fn downward_compaction_still_works() {
    let mut doc = doc_with_pages(&[10, 20, 30]);
    doc.renumber_objects();
    check(&doc, 3);
}
