// Demonstration for the repair of multi-unit / array bfrange targets (C15), scaffolding from a seeded demo.
//
// Uses only the public API: a font dictionary with a /ToUnicode stream is turned into an
// `Encoding` by `Dictionary::get_font_encoding`, and byte strings are decoded by
// `Document::decode_text`.
use lopdf::{dictionary, Dictionary, Document, Object, Stream};

fn cmap_source(body: &str) -> Vec<u8> {
    format!(
        "/CIDInit /ProcSet findresource begin\n\
12 dict begin\n\
begincmap\n\
/CIDSystemInfo\n\
<< /Registry (Adobe) /Ordering (UCS) /Supplement 0 >> def\n\
/CMapName /Adobe-Identity-UCS def\n\
/CMapType 2 def\n\
{body}\
endcmap\n\
CMapName currentdict /CMap defineresource pop\n\
end\n\
end\n"
    )
    .into_bytes()
}

fn decode(cmap_body: &str, bytes: &[u8]) -> String {
    let mut doc = Document::new();
    let cmap_id = doc.add_object(Stream::new(dictionary! {}, cmap_source(cmap_body)));
    let font: Dictionary = dictionary! {
        "Type" => "Font",
        "Subtype" => "Type0",
        "BaseFont" => "Demo",
        "Encoding" => "Identity-H",
        "ToUnicode" => Object::Reference(cmap_id),
    };
    let encoding = font.get_font_encoding(&doc).expect("the CMap is well formed");
    Document::decode_text(&encoding, bytes).expect("decoding never fails for a CMap encoding")
}

const CS: &str = "1 begincodespacerange\n<0000> <FFFF>\nendcodespacerange\n";

#[test]
fn adjacent_ranges_with_equal_multi_unit_targets_each_count_from_their_own_start() {
    let body = format!("{CS}2 beginbfrange\n<0001> <0002> <00660041>\n<0003> <0004> <00660041>\nendbfrange\n");
    assert_eq!(decode(&body, &[0, 1, 0, 2, 0, 3, 0, 4]), "fAfBfAfB");
}

#[test]
fn a_range_cut_in_two_by_a_later_definition_keeps_its_values() {
    let body = format!("{CS}1 beginbfrange\n<0001> <0005> <00660041>\nendbfrange\n1 beginbfchar\n<0003> <00780079>\nendbfchar\n");
    assert_eq!(decode(&body, &[0, 1, 0, 2, 0, 3, 0, 4, 0, 5]), "fAfBxyfDfE");
}

#[test]
fn adjacent_array_ranges_with_equal_arrays() {
    let body = format!("{CS}2 beginbfrange\n<0001> <0002> [<0041> <0042>]\n<0003> <0004> [<0041> <0042>]\nendbfrange\n");
    assert_eq!(decode(&body, &[0, 1, 0, 2, 0, 3, 0, 4]), "ABAB");
}

#[test]
fn plain_ranges_are_decoded_as_before() {
    let body = format!("{CS}3 beginbfrange\n<0001> <001A> <0061>\n<0100> <0102> <00660041>\n<0200> <0201> [<0058> <00590059>]\nendbfrange\n");
    assert_eq!(decode(&body, &[0, 1, 0, 0x1A, 1, 0, 1, 2, 2, 0, 2, 1]), "azfAfCXYY");
}
