use lopdf::{Document, Object};
use lopdf::content::Content;

fn pdf_with(obj: &str) -> Vec<u8> {
    let mut out = Vec::new();
    out.extend_from_slice(b"%PDF-1.4\n");
    let o1 = out.len();
    out.extend_from_slice(b"1 0 obj\n<< /Type /Catalog /Pages 2 0 R >>\nendobj\n");
    let o2 = out.len();
    out.extend_from_slice(b"2 0 obj\n<< /Type /Pages /Kids [] /Count 0 >>\nendobj\n");
    let o3 = out.len();
    out.extend_from_slice(format!("3 0 obj\n{}\nendobj\n", obj).as_bytes());
    let x = out.len();
    out.extend_from_slice(format!("xref\n0 4\n0000000000 65535 f \n{:010} 00000 n \n{:010} 00000 n \n{:010} 00000 n \ntrailer\n<< /Size 4 /Root 1 0 R >>\nstartxref\n{}\n%%EOF\n", o1, o2, o3, x).as_bytes());
    out
}

fn depth_of(o: &Object) -> usize {
    let mut d = 0;
    let mut cur = o;
    loop {
        match cur {
            Object::Array(a) if !a.is_empty() => { d += 1; cur = &a[0]; }
            Object::Array(_) => return d + 1,
            Object::Dictionary(dict) => { d += 1; match dict.get(b"A") { Ok(n) => cur = n, Err(_) => return d } }
            _ => return d,
        }
    }
}

#[test]
fn nesting_up_to_the_limit_is_read() {
    for n in [1usize, 10, 25, 50] {
        let obj = format!("{}{}", "[".repeat(n), "]".repeat(n));
        let doc = Document::load_mem(&pdf_with(&obj)).unwrap();
        assert_eq!(depth_of(doc.get_object((3, 0)).unwrap()), n, "arrays {n}");
        let obj = format!("{}1 {}", "<< /A ".repeat(n), ">> ".repeat(n));
        let doc = Document::load_mem(&pdf_with(&obj)).unwrap();
        assert_eq!(depth_of(doc.get_object((3, 0)).unwrap()), n, "dicts {n}");
    }
}

#[test]
fn very_deep_nesting_is_an_error_not_a_crash() {
    for n in [51usize, 1000, 200_000] {
        let obj = format!("{}{}", "[".repeat(n), "]".repeat(n));
        let doc = Document::load_mem(&pdf_with(&obj));
        assert!(doc.is_err() || doc.unwrap().get_object((3, 0)).is_err(), "arrays {n}");
        let obj = format!("{}1 {}", "<< /A ".repeat(n), ">> ".repeat(n));
        let doc = Document::load_mem(&pdf_with(&obj));
        assert!(doc.is_err() || doc.unwrap().get_object((3, 0)).is_err(), "dicts {n}");
        let obj = format!("{}1 {}", "[ << /A ".repeat(n), ">> ] ".repeat(n));
        let doc = Document::load_mem(&pdf_with(&obj));
        assert!(doc.is_err() || doc.unwrap().get_object((3, 0)).is_err(), "mixed {n}");
    }
    let content = format!("{}{} TJ", "[".repeat(200_000), "]".repeat(200_000));
    let _ = Content::decode(content.as_bytes());
}
