use lopdf::content::Content;
use lopdf::Object;

fn image_content(sep: &[u8], data: &[u8]) -> Vec<u8> {
    let mut c = b"q 10 0 0 10 0 0 cm\nBI /W 2 /H 2 /BPC 8 /CS /DeviceGray\nID".to_vec();
    c.extend_from_slice(sep);
    c.extend_from_slice(data);
    c.extend_from_slice(b"\nEI\nQ");
    c
}

fn image_of(c: &Content) -> &lopdf::Stream {
    let bi = c.operations.iter().find(|o| o.operator == "BI").expect("no BI operation");
    match &bi.operands[0] { Object::Stream(s) => s, o => panic!("{o:?}") }
}

#[test]
fn inline_image_survives_decode_encode_decode() {
    for data in [&b"\x01\x02\x03\x04"[..], b" \n\r\t", b"\n\x00\xff ", b"EI Q"] {
        let first = Content::decode(&image_content(b"\n", data)).unwrap();
        assert_eq!(first.operations.len(), 4, "{data:?}: {:?}", first.operations);
        assert_eq!(image_of(&first).content, data);
        let bytes = first.encode().unwrap();
        let second = Content::decode(&bytes).unwrap_or_else(|e| panic!("{data:?}: re-encoded content does not decode: {e}: {:?}", String::from_utf8_lossy(&bytes)));
        assert_eq!(second.operations.len(), 4, "{data:?}: {:?}", String::from_utf8_lossy(&bytes));
        for (a, b) in first.operations.iter().zip(second.operations.iter()) {
            assert_eq!(a.operator, b.operator);
        }
        assert_eq!(image_of(&second).content, data);
        assert_eq!(image_of(&second).dict.get(b"W").unwrap(), image_of(&first).dict.get(b"W").unwrap());
    }
}

#[test]
fn a_cr_lf_after_id_is_one_separator() {
    let c = Content::decode(&image_content(b"\r\n", b"\x01\x02\x03\x04")).unwrap();
    assert_eq!(image_of(&c).content, b"\x01\x02\x03\x04");
    let c = Content::decode(&image_content(b" ", b"\x01\x02\x03\x04")).unwrap();
    assert_eq!(image_of(&c).content, b"\x01\x02\x03\x04");
}
