import struct
def obj(n, body): return b"%d 0 obj\n" % n + body + b"\nendobj\n"
def stream(d, data): return b"<<" + d + b"/Length %d>>\nstream\n" % len(data) + data + b"\nendstream"
def xref_stream(n, entries, size, prev=None, root=b"/Root 1 0 R"):
    # entries: dict objnum -> (type, f2, f3); W=[1 2 1]
    nums = sorted(entries)
    idx = b" ".join(b"%d 1" % k for k in nums)
    data = b"".join(struct.pack(">BHB", *entries[k]) for k in nums)
    d = b"/Type/XRef/Size %d/W[1 2 1]/Index[%s]%s" % (size, idx, root)
    if prev is not None: d += b"/Prev %d" % prev
    return obj(n, stream(d, data))
out = b"%PDF-1.5\n%\xe2\xe3\xcf\xd3\n"
offs = {}
def add(n, body):
    global out
    offs[n] = len(out); out += obj(n, body)
add(1, b"<</Type/Catalog>>")
add(5, stream(b"/Type/ObjStm/N 1/First 5", b"10 0 (old)"))
x1 = len(out)
ent = {0:(0,0,255), 1:(1,offs[1],0), 5:(1,offs[5],0), 10:(2,5,0), 30:(1,x1,0)}
out += xref_stream(30, ent, 31)
out += b"startxref\n%d\n%%%%EOF\n" % x1
# revision 2: new object stream 20 redefining object 10
add(20, stream(b"/Type/ObjStm/N 1/First 5", b"10 0 (new)"))
x2 = len(out)
ent = {10:(2,20,0), 20:(1,offs[20],0), 31:(1,x2,0)}
out += xref_stream(31, ent, 32, prev=x1)
out += b"startxref\n%d\n%%%%EOF\n" % x2
open("rev2.pdf","wb").write(out)
