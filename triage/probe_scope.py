import json, re, collections, sys
G=json.load(open('graph.json')); fns=G['fns']; g=G['g']; sites=G['sites']
names=set(fns)
def find(*pats):
    r=[]
    for p in pats:
        m=[n for n in names if re.search(p,n)]
        if not m: print('!! no match',p)
        r+=m
    return r
def reach(roots):
    seen=set(); st=list(roots)
    while st:
        x=st.pop()
        if x in seen: continue
        seen.add(x); st.extend(g.get(x,()))
    return seen
C04=find(r'reader::Reader::read$', r'reader::try_into$', r'reader::load',
  r'parser_aux::decode$', r'parser_aux::decode_content$', r'object::Stream::decompressed_content$', r'object::Stream::get_plain_content$', r'object::Stream::decompress$',
  r'object_stream::ObjectStream::new$', r'parser_aux::decode_xref_stream$', r'object::Dictionary::get_font_encoding$', r'encodings::Encoding.*::bytes_to_string$', r'impl.*Document.*::decode_text$|document::Document::decode_text$',
  r'common_data_structures::decode_text_string$', r'filters::png::decode_frame$', r'filters::png::decode_row$')
C13=find(r'document::Document::get_object$', r'document::Document::dereference$', r'document::Document::get_dictionary$', r'document::Document::get_dict_in_dict$', r'document::Document::catalog$',
  r'document::Document::get_pages$', r'document::Document::page_iter$', r'document::Document::get_page_contents$', r'document::Document::get_page_content$', r'get_and_decode_page_content$',
  r'document::Document::get_page_resources$', r'document::Document::get_page_fonts$', r'document::Document::get_page_annotations$', r'document::Document::get_page_images$', r'document::Document::get_object_page$',
  r'extract_text$', r'extract_text_chunks$', r'get_outlines$', r'get_outline$', r'get_named_destinations$', r'get_toc$', r'object::Dictionary::get_font_encoding$', r'document::Document::decode_text$',
  r'document::Document::get_encrypted$', r'document::Document::is_encrypted$', r'document::Document::get_crypt_filters$', r'Iterator>::size_hint$|PageTreeIter.*size_hint')
C19=find(r'writer::save$', r'writer::save_to$', r'content::Content.*::encode$')
which=sys.argv[1]
roots={'C04':C04,'C13':C13,'C19':C19}[which]
sc=reach(roots)
print(which,'roots',len(roots),'scope bodies',len(sc))
AUTO_CALL=re.compile(r'Index<std::ops::RangeFull>|unwrap_or|unwrap_or_default|unwrap_or_else')
PANICKY=re.compile(r'::index\b|::index_mut\b|::unwrap\b|::expect\b|panicking::|::sum\b|::product\b|copy_from_slice|split_at|Vec<.*>::remove\b|::swap_remove|::insert\b.*Vec|with_capacity|from_elem|::resize\b|::reserve\b|chunks\b|::pow\b|RangeInclusiveMap.*insert|Rc4::new|GenericArray')
tot=collections.Counter(); rows=[]
for f in sorted(sc):
    for s in sites.get(f,[]):
        k,d,sp=s
        if k=='ASSERT': rows.append((f,k,d,sp)); tot[d]+=1
        elif k=='CALLIND': rows.append((f,k,d,sp)); tot['callind']+=1
        elif k=='CALL' and PANICKY.search(d) and not AUTO_CALL.search(d):
            short=re.sub(r' => .*','',d)
            rows.append((f,k,short[:110],sp)); tot[re.sub(r'<.*','',short.split('::')[-1]) if '::' in short else short]+=1
print(dict(tot))
for r in rows: print('\t'.join(r))
