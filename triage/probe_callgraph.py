import re, collections, json
def strip_generics(s):
    out=[];i=0
    while i<len(s):
        if s.startswith('::<',i):
            d=0;j=i+2
            while j<len(s):
                if s[j]=='<': d+=1
                elif s[j]=='>':
                    d-=1
                    if d==0: break
                j+=1
            i=j+1
        else:
            out.append(s[i]); i+=1
    return ''.join(out)
fns={}; raw_edges=collections.defaultdict(set); sites=collections.defaultdict(list)
for l in open('facts.txt'):
    p=l.rstrip('\n').split('\t')
    if p[0]=='FN': fns[strip_generics(p[1])]=p[2]
    elif p[0]=='CALL':
        caller=strip_generics(p[1]); callee=p[2]; tgt=strip_generics(callee.split(' => ')[-1])
        raw_edges[caller].add((tgt,p[3]))
        sites[caller].append(('CALL',callee,p[4]))
    elif p[0]=='MENTION': raw_edges[strip_generics(p[1])].add((strip_generics(p[2]),p[3]))
    elif p[0]=='CLOSURE': raw_edges[strip_generics(p[1])].add((strip_generics(p[2]),'true'))
    elif p[0]=='ASSERT': sites[strip_generics(p[1])].append(('ASSERT',p[2],p[3]))
    elif p[0]=='CALLIND': sites[strip_generics(p[1])].append(('CALLIND',p[2],p[3]))
names=set(fns)
g=collections.defaultdict(set); unres=collections.Counter()
for a,ts in raw_edges.items():
    for t,local in ts:
        if t in names: g[a].add(t)
        elif t.startswith('<dyn encryption::crypt_filters::CryptFilter'):
            m=t.rsplit('::',1)[1]
            for n in names:
                if n.endswith('as encryption::crypt_filters::CryptFilter>::'+m): g[a].add(n)
        elif local=='true' and not re.match(r'object::Object::[A-Z]\w+$|.*::\{constructor', t): unres[t]+=1
json.dump({'fns':fns,'g':{k:sorted(v) for k,v in g.items()},'sites':{k:v for k,v in sites.items()}},open('graph.json','w'))
print('fns',len(names),'edges',sum(len(v) for v in g.values()),'unres',sum(unres.values()))
for t,c in unres.most_common(12): print('  UNRES',c,t)
