use lopdf::{EncryptionState, EncryptionVersion, Permissions};
use lopdf::encryption::crypt_filters::{CryptFilter, Aes256CryptFilter};
use std::collections::BTreeMap; use std::sync::Arc;
fn main() {
    let f: Arc<dyn CryptFilter> = Arc::new(Aes256CryptFilter);
    let key = [7u8; 32];
    let st = EncryptionState::try_from(EncryptionVersion::V5 { encrypt_metadata: true, crypt_filters: BTreeMap::from([(b"StdCF".to_vec(), f)]), file_encryption_key: &key, stream_filter: b"StdCF".to_vec(), string_filter: b"StdCF".to_vec(), owner_password: "owner", user_password: "user", permissions: Permissions::all() }).unwrap();
    let p = st.permission_encrypted();
    println!("perms: /Perms = {:02x?}", p);
    println!("perms: bytes 8..12 of the *stored* value = {:?} (plaintext marker 'T','a','d','b' visible => never encrypted)", String::from_utf8_lossy(&p[8..12]));
}
