use lopdf::{Document, Object, Stream, Dictionary, StringFormat, dictionary, EncryptionState, EncryptionVersion, Permissions};
use lopdf::content::{Content, Operation};
use std::panic::catch_unwind;

fn rt(doc: &mut Document) -> Result<Document, String> {
    let mut buf = Vec::new();
    doc.save_to(&mut buf).map_err(|e| e.to_string())?;
    Document::load_mem(&buf).map_err(|e| e.to_string())
}
fn base() -> Document {
    let mut d = Document::with_version("1.5");
    d.reference_table.cross_reference_type = lopdf::xref::XrefType::CrossReferenceTable;
    d
}
fn main() {
    let which = std::env::args().nth(1).unwrap_or_default();
    match which.as_str() {
        "parens" => {
            let mut d = base();
            let mut s = vec![b'('; 101]; s.extend(vec![b')'; 101]);
            let id = d.add_object(Object::String(s.clone(), StringFormat::Literal));
            let id2 = d.add_object(Object::Integer(7));
            let l = rt(&mut d).unwrap();
            println!("parens: obj present={} int present={}", l.objects.get(&id).map(|o| o == &Object::String(s.clone(), StringFormat::Literal)).unwrap_or(false), l.objects.contains_key(&id2));
        }
        "real" => {
            let mut d = base();
            let id = d.add_object(Object::Real(1e20));
            let l = rt(&mut d).unwrap();
            println!("real: {:?}", l.objects.get(&id));
        }
        "textstring" => {
            let o = lopdf::text_string("a\nb\tc");
            println!("textstring: {:?}", lopdf::decode_text_string(&o));
        }
        "a85" => {
            let s = Stream::new(dictionary!{"Filter" => "ASCII85Decode"}, b"s8W-\"~>".to_vec());
            let r = catch_unwind(|| s.decompressed_content().map(|v| v.len()).map_err(|e| e.to_string()));
            println!("a85: {:?}", r.map_err(|_| "PANIC"));
        }
        "cmap" => {
            let cmap = b"/CIDInit /ProcSet findresource begin\n12 dict begin\nbegincmap\n/CMapName /X def\n/CMapType 2 def\n1 begincodespacerange\n<00> <FF>\nendcodespacerange\n2 beginbfchar\n<01> <00410042>\n<02> <00410042>\nendbfchar\nendcmap\nCMapName currentdict /CMap defineresource pop\nend\nend\n";
            let mut d = base();
            let sid = d.add_object(Stream::new(dictionary!{}, cmap.to_vec()));
            let font = dictionary!{"Type" => "Font", "Encoding" => "Identity-H", "ToUnicode" => sid};
            let enc = font.get_font_encoding(&d).unwrap();
            println!("cmap: {:?} (expected ABAB)", Document::decode_text(&enc, &[1,2]));
            let cmap2 = b"/CIDInit /ProcSet findresource begin\n12 dict begin\nbegincmap\n/CMapName /X def\n/CMapType 2 def\n1 begincodespacerange\n<00> <FF>\nendcodespacerange\n2 beginbfrange\n<01> <02> [<0041> <0042>]\n<03> <04> [<0041> <0042>]\nendbfrange\nendcmap\nCMapName currentdict /CMap defineresource pop\nend\nend\n";
            let sid = d.add_object(Stream::new(dictionary!{}, cmap2.to_vec()));
            let font = dictionary!{"Type" => "Font", "Encoding" => "Identity-H", "ToUnicode" => sid};
            let r = catch_unwind(std::panic::AssertUnwindSafe(|| { let enc = font.get_font_encoding(&d).unwrap(); Document::decode_text(&enc, &[1,2,3,4]).map_err(|e| e.to_string()) }));
            println!("cmap2: {:?} (expected ABAB)", r.map_err(|_| "PANIC"));
        }
        "xrefovf" => {
            let pdf = b"%PDF-1.5\n1 0 obj\nnull\nendobj\nxref\n18446744073709551615 2\n0000000009 00000 n \n0000000009 00000 n \ntrailer\n<</Size 2>>\nstartxref\n29\n%%EOF";
            let r = catch_unwind(|| Document::load_mem(pdf).map(|_| ()).map_err(|e| e.to_string()));
            println!("xrefovf: {:?}", r.map_err(|_| "PANIC"));
        }
        "count" => {
            let mut d = base();
            let pages = d.new_object_id();
            let kid = d.add_object(dictionary!{"Type" => "Pages", "Kids" => Vec::<Object>::new(), "Count" => 4611686018427387904i64, "Parent" => pages});
            let page = d.add_object(dictionary!{"Type" => "Page", "Parent" => pages});
            d.objects.insert(pages, dictionary!{"Type" => "Pages", "Kids" => vec![Object::Reference(page), Object::Reference(kid)], "Count" => 1}.into());
            let cat = d.add_object(dictionary!{"Type" => "Catalog", "Pages" => pages});
            d.trailer.set("Root", cat);
            let r = catch_unwind(std::panic::AssertUnwindSafe(|| d.get_pages().len()));
            println!("count: {:?}", r.map_err(|_| "PANIC"));
        }
        "delete" => {
            let mut d = base();
            let a = d.add_object(Object::Integer(1));
            let arr = d.add_object(Object::Array(vec![Object::Reference(a), Object::Reference(a)]));
            d.trailer.set("Root", arr);
            d.delete_object(a);
            println!("delete: remaining {:?}", d.objects.get(&arr));
        }
        "dest" => {
            let mut d = base();
            let ol = d.add_object(dictionary!{"Title" => Object::string_literal("t"), "Dest" => Vec::<Object>::new()});
            let outlines = d.add_object(dictionary!{"First" => ol});
            let cat = d.add_object(dictionary!{"Type" => "Catalog", "Outlines" => outlines});
            d.trailer.set("Root", cat);
            let r = catch_unwind(std::panic::AssertUnwindSafe(|| d.get_toc().map(|_| ()).map_err(|e| e.to_string())));
            println!("dest: {:?}", r.map_err(|_| "PANIC"));
        }
        "deep" => {
            let n = 200000;
            let mut c = vec![b'['; n]; c.extend(vec![b']'; n]); c.extend(b" x");
            let r = Content::decode(&c).map(|_| ());
            println!("deep: {:?}", r.map_err(|e| e.to_string()));
        }
        "bi" => {
            let c = b"BI /W 1 /H 1 /CS /Gray /BPC 8\nID\nA\nEI";
            let d1 = Content::decode(c).unwrap();
            let e = d1.encode().unwrap();
            println!("bi: re-encoded = {:?}", String::from_utf8_lossy(&e));
            println!("bi: decode again = {:?}", Content::decode(&e).map(|c| c.operations.len()).map_err(|e| e.to_string()));
        }
        "res" => {
            let mut d = base();
            let pages = d.new_object_id();
            let font = d.add_object(dictionary!{"Type" => "Font", "Subtype" => "Type1", "BaseFont" => "Courier"});
            let page = d.add_object(dictionary!{"Type" => "Page", "Parent" => pages});
            d.objects.insert(pages, dictionary!{"Type" => "Pages", "Kids" => vec![Object::Reference(page)], "Count" => 1, "Resources" => dictionary!{"Font" => dictionary!{"F1" => font}}}.into());
            let cat = d.add_object(dictionary!{"Type" => "Catalog", "Pages" => pages});
            d.trailer.set("Root", cat);
            let x = d.add_object(Stream::new(dictionary!{}, vec![]));
            d.add_xobject(page, "X1", x).unwrap();
            println!("res: page dict now {:?}", d.get_dictionary(page).unwrap());
        }
        "rev2" => {
            let b = std::fs::read("rev2.pdf").unwrap();
            let d = Document::load_mem(&b).unwrap();
            println!("rev2: object 10 = {:?} (expected (new)); xref entry = {:?}", d.objects.get(&(10,0)), d.reference_table.get(10));
        }
        "owner" => {
            for pw in ["user", "owner"] {
                let mut d = base();
                d.add_object(Object::string_literal("hello world, this is plaintext"));
                d.add_object(Stream::new(dictionary!{}, b"stream plaintext 0123456789".to_vec()));
                d.trailer.set("ID", Object::Array(vec![Object::string_literal(b"ABC".to_vec()), Object::string_literal(b"DEF".to_vec())]));
                let orig = d.objects.clone();
                let state = EncryptionState::try_from(EncryptionVersion::V2 { document: &d, owner_password: "owner", user_password: "user", key_length: 128, permissions: Permissions::all() }).unwrap();
                d.encrypt(&state).unwrap();
                let r = d.decrypt(pw);
                let same = orig.iter().all(|(k, v)| d.objects.get(k) == Some(v));
                println!("owner: V2 decrypt({pw}) = {:?}, content restored = {}", r.map_err(|e| e.to_string()), same);
            }
        }
        _ => {}
    }
    let _ = (Dictionary::new(), Operation::new("x", vec![]));
}
