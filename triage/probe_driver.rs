#![feature(rustc_private)]
extern crate rustc_driver;
extern crate rustc_interface;
extern crate rustc_middle;
extern crate rustc_hir;
extern crate rustc_span;

use rustc_driver::Compilation;
use rustc_interface::interface;
use rustc_middle::ty::{self, TyCtxt, Instance, TypingEnv};
use rustc_middle::mir::{TerminatorKind, AssertKind, Operand, Rvalue, StatementKind, AggregateKind, Const};
use rustc_hir::def::DefKind;
use std::fmt::Write;

struct Cb;
impl rustc_driver::Callbacks for Cb {
    fn after_analysis<'tcx>(&mut self, _c: &interface::Compiler, tcx: TyCtxt<'tcx>) -> Compilation {
        let krate = tcx.crate_name(rustc_span::def_id::LOCAL_CRATE);
        if krate.as_str() != "lopdf" { return Compilation::Continue; }
        let mut out = String::new();
        let sm = tcx.sess.source_map();
        for def_id in tcx.mir_keys(()) {
            let did = def_id.to_def_id();
            let kind = tcx.def_kind(did);
            if !matches!(kind, DefKind::Fn | DefKind::AssocFn | DefKind::Closure) { continue; }
            let body = tcx.optimized_mir(did);
            let path = tcx.def_path_str(did);
            let loc = sm.span_to_diagnostic_string(body.span);
            writeln!(out, "FN\t{}\t{}", path, loc).unwrap();
            let tenv = TypingEnv::post_analysis(tcx, did);
            let mention = |out: &mut String, op: &Operand<'tcx>| {
                if let Operand::Constant(c) = op {
                    let t = c.const_.ty();
                    match t.kind() {
                        ty::FnDef(d, _) => { writeln!(out, "MENTION\t{}\t{}\t{}", path, tcx.def_path_str(*d), d.is_local()).unwrap(); }
                        _ => {}
                    }
                }
            };
            for bb in body.basic_blocks.iter() {
                for st in &bb.statements {
                    if let StatementKind::Assign(b) = &st.kind {
                        let (_, rv) = &**b;
                        match rv {
                            Rvalue::Aggregate(ak, ops) => {
                                if let AggregateKind::Closure(cd, _) = &**ak {
                                    writeln!(out, "CLOSURE\t{}\t{}", path, tcx.def_path_str(*cd)).unwrap();
                                }
                                for o in ops.iter() { mention(&mut out, o); }
                            }
                            Rvalue::Use(o, ..) | Rvalue::Cast(_, o, _) => mention(&mut out, o),
                            _ => {}
                        }
                    }
                }
                let term = bb.terminator();
                let sp = sm.span_to_diagnostic_string(term.source_info.span);
                match &term.kind {
                    TerminatorKind::Assert { msg, .. } => {
                        let k = match &**msg {
                            AssertKind::BoundsCheck{..} => "bounds".to_string(),
                            AssertKind::Overflow(op, ..) => format!("overflow:{:?}", op),
                            AssertKind::DivisionByZero(_) => "div0".into(),
                            AssertKind::RemainderByZero(_) => "rem0".into(),
                            AssertKind::OverflowNeg(_) => "neg".into(),
                            _ => "other".into(),
                        };
                        if k != "other" { writeln!(out, "ASSERT\t{}\t{}\t{}", path, k, sp).unwrap(); }
                    }
                    TerminatorKind::Call { func, args, .. } => {
                        for a in args.iter() { mention(&mut out, &a.node); }
                        if let Some((cd, cargs)) = func.const_fn_def() {
                            let mut callee = tcx.def_path_str_with_args(cd, cargs);
                            let mut local = cd.is_local();
                            if let Ok(Some(inst)) = Instance::try_resolve(tcx, tenv, cd, cargs) {
                                let rd = inst.def_id();
                                if rd != cd { callee = format!("{} => {}", callee, tcx.def_path_str(rd)); local = rd.is_local(); }
                            }
                            writeln!(out, "CALL\t{}\t{}\t{}\t{}", path, callee, local, sp).unwrap();
                        } else {
                            writeln!(out, "CALLIND\t{}\t{:?}\t{}", path, func, sp).unwrap();
                        }
                    }
                    _ => {}
                }
            }
        }
        std::fs::write(std::env::var("DRV_OUT").unwrap(), out).unwrap();
        Compilation::Continue
    }
}
fn main() {
    let mut args: Vec<String> = std::env::args().collect();
    args.remove(1);
    rustc_driver::run_compiler(&args, &mut Cb);
}
