#![feature(rustc_private)]
extern crate rustc_driver;
extern crate rustc_interface;
extern crate rustc_middle;
extern crate rustc_hir;
extern crate rustc_span;
extern crate rustc_abi;

use rustc_driver::Compilation;
use rustc_interface::interface;
use rustc_middle::ty::{self, TyCtxt, TypingEnv};
use rustc_middle::mir::{self, TerminatorKind, Operand, Rvalue, StatementKind, Place, ProjectionElem, ConstValue};
use rustc_hir::def::DefKind;
use std::fmt::Write;

fn field_accesses<'tcx>(tcx: TyCtxt<'tcx>, body: &mir::Body<'tcx>, place: &Place<'tcx>, how: &str, path: &str, out: &mut String) {
    let mut ty = mir::PlaceTy::from_ty(body.local_decls[place.local].ty);
    for elem in place.projection.iter() {
        if let ProjectionElem::Field(f, _) = elem {
            if let ty::Adt(adt, _) = ty.ty.kind() {
                if adt.did().is_local() {
                    let v = match ty.variant_index { Some(v) => adt.variant(v), None => adt.non_enum_variant() };
                    let fname = v.fields[f].name;
                    writeln!(out, "FIELD\t{}\t{}\t{}\t{}", path, tcx.def_path_str(adt.did()), fname, how).unwrap();
                }
            }
        }
        ty = ty.projection_ty(tcx, elem);
    }
}

struct Cb;
impl rustc_driver::Callbacks for Cb {
    fn after_analysis<'tcx>(&mut self, _c: &interface::Compiler, tcx: TyCtxt<'tcx>) -> Compilation {
        let krate = tcx.crate_name(rustc_span::def_id::LOCAL_CRATE);
        if krate.as_str() != "lopdf" { return Compilation::Continue; }
        let mut out = String::new();
        // (a) const tables
        for id in tcx.hir_crate_items(()).free_items() {
            let did = id.owner_id.to_def_id();
            if matches!(tcx.def_kind(did), DefKind::Const { .. }) {
                let name = tcx.def_path_str(did);
                if name.ends_with("_ENCODING") || name.ends_with("PAD_BYTES") || name.ends_with("MAX_BRACKET") {
                    let ty = tcx.type_of(did).instantiate_identity().skip_norm_wip();
                    match tcx.const_eval_poly(did) {
                        Ok(val) => {
                            let layout = tcx.layout_of(TypingEnv::fully_monomorphized().as_query_input(ty)).unwrap();
                            let desc = match val {
                                ConstValue::Scalar(s) => format!("scalar {:?}", s),
                                ConstValue::ZeroSized => "zst".to_string(),
                                ConstValue::Slice{..} => "slice".to_string(),
                                ConstValue::Indirect { alloc_id, offset } => {
                                    let alloc = tcx.global_alloc(alloc_id).unwrap_memory();
                                    let a = alloc.inner();
                                    let bytes = a.inspect_with_uninit_and_ptr_outside_interpreter(offset.bytes_usize()..offset.bytes_usize()+layout.size.bytes_usize());
                                    let hex: String = bytes.iter().take(24).map(|b| format!("{:02x}", b)).collect();
                                    format!("indirect size={} first={}", layout.size.bytes(), hex)
                                }
                            };
                            writeln!(out, "CONST\t{}\t{}\t{}", name, ty, desc).unwrap();
                        }
                        Err(e) => { writeln!(out, "CONSTERR\t{}\t{:?}", name, e).unwrap(); }
                    }
                }
            }
        }
        for def_id in tcx.mir_keys(()) {
            let did = def_id.to_def_id();
            let kind = tcx.def_kind(did);
            if !matches!(kind, DefKind::Fn | DefKind::AssocFn | DefKind::Closure) { continue; }
            let body = tcx.optimized_mir(did);
            let path = tcx.def_path_str(did);
            if !(path.contains("writer::") || path.contains("is_whitespace") || path.contains("compress")) { continue; }
            for bb in body.basic_blocks.iter() {
                for st in &bb.statements {
                    if let StatementKind::Assign(b) = &st.kind {
                        let (lhs, rv) = &**b;
                        field_accesses(tcx, body, lhs, "write", &path, &mut out);
                        match rv {
                            Rvalue::Ref(_, bk, p) => field_accesses(tcx, body, p, if matches!(bk, mir::BorrowKind::Mut{..}) {"borrow_mut"} else {"borrow"}, &path, &mut out),
                            Rvalue::Use(Operand::Copy(p), ..) => field_accesses(tcx, body, p, "read", &path, &mut out),
                            Rvalue::Use(Operand::Move(p), ..) => field_accesses(tcx, body, p, "move", &path, &mut out),
                            Rvalue::BinaryOp(op, ops) => { writeln!(out, "BINOP\t{}\t{:?}\t{:?}\t{:?}", path, op, ops.0, ops.1).unwrap(); }
                            Rvalue::Use(Operand::Constant(c), ..) => {
                                // (b) byte string constants
                                let cty = c.const_.ty();
                                if let Some(v) = c.const_.try_eval_scalar_int(tcx, TypingEnv::post_analysis(tcx, did)) { let _ = v; }
                                writeln!(out, "CONSTUSE\t{}\t{}\t{}", path, cty, c.const_).unwrap();
                            }
                            _ => {}
                        }
                    }
                }
                if let TerminatorKind::SwitchInt { discr, targets } = &bb.terminator().kind {
                    writeln!(out, "SWITCH\t{}\t{:?}\t{:?}", path, discr, targets.iter().map(|(v,b)| (v, b.index())).collect::<Vec<_>>()).unwrap();
                }
            }
        }
        std::fs::write(std::env::var("DRV_OUT").unwrap(), out).unwrap();
        Compilation::Continue
    }
}
fn main() {
    let mut args: Vec<String> = std::env::args().collect();
    args.remove(1);
    rustc_driver::run_compiler(&args, &mut Cb);
}
