use lopdf::{Document, Object, Stream, dictionary, EncryptionState, EncryptionVersion, Permissions};
use lopdf::encryption::crypt_filters::{CryptFilter, Aes128CryptFilter, Aes256CryptFilter};
use std::collections::BTreeMap; use std::sync::Arc;
fn doc() -> (Document, (u32,u16)) {
    let mut d = Document::with_version("1.5");
    d.add_object(Object::string_literal("hello world, this is plaintext"));
    let s = d.add_object(Stream::new(dictionary!{}, b"stream plaintext 0123456789".to_vec()));
    d.trailer.set("ID", Object::Array(vec![Object::string_literal(b"ABC".to_vec()), Object::string_literal(b"DEF".to_vec())]));
    (d, s)
}
fn main() {
    // (1) StmF = Identity, not listed in CF
    let (mut d, sid) = doc();
    let f: Arc<dyn CryptFilter> = Arc::new(Aes128CryptFilter);
    let st = EncryptionState::try_from(EncryptionVersion::V4 { document: &d, encrypt_metadata: true, crypt_filters: BTreeMap::from([(b"StdCF".to_vec(), f)]), stream_filter: b"Identity".to_vec(), string_filter: b"StdCF".to_vec(), owner_password: "owner", user_password: "user", permissions: Permissions::all() }).unwrap();
    d.encrypt(&st).unwrap();
    let c = &d.objects[&sid].as_stream().unwrap().content;
    println!("identity: StmF=/Identity, stream left as plaintext = {}", c.as_slice() == b"stream plaintext 0123456789");
    // (2) V5 with /Length 256
    let (mut d, _) = doc();
    let f: Arc<dyn CryptFilter> = Arc::new(Aes256CryptFilter);
    let key = [7u8; 32];
    let st = EncryptionState::try_from(EncryptionVersion::V5 { encrypt_metadata: true, crypt_filters: BTreeMap::from([(b"StdCF".to_vec(), f)]), file_encryption_key: &key, stream_filter: b"StdCF".to_vec(), string_filter: b"StdCF".to_vec(), owner_password: "owner", user_password: "user", permissions: Permissions::all() }).unwrap();
    d.encrypt(&st).unwrap();
    let eid = d.trailer.get(b"Encrypt").unwrap().as_reference().unwrap();
    let mut d2 = d.clone();
    println!("length256: without /Length: {:?}", d.decrypt("user").map_err(|e| e.to_string()));
    d2.get_dictionary_mut(eid).unwrap().set("Length", 256);
    println!("length256: with /Length 256: {:?}", d2.decrypt("user").map_err(|e| e.to_string()));
}
