#!/bin/bash
# extract.sh <cfg-name> <cargo feature args...>  — run mirfacts over /repo's working tree for one configuration
set -euo pipefail
V="$(cd "$(dirname "$0")/.." && pwd)"
cfg="$1"; shift
REPO="${VERIF_REPO:-/repo}"
export LD_LIBRARY_PATH="$(rustc +nightly --print sysroot)/lib"
export CARGO_NET_OFFLINE=true
T="$V/.cache/target-$cfg"
out="$V/.cache/facts-$cfg.json"
rm -f "$out"
# cargo skips the wrapper when the member is fresh: drop its fingerprints
rm -rf "$T"/debug/.fingerprint/lopdf-* 2>/dev/null || true
cd "$REPO"
if ! MIRFACTS_OUT="$out" MIRFACTS_CRATE=lopdf RUSTFLAGS="-Zmir-opt-level=0 -Awarnings -Coverflow-checks=on" \
   RUSTC_WORKSPACE_WRAPPER="$V/engines/mirfacts/target/debug/mirfacts" CARGO_TARGET_DIR="$T" \
   cargo +nightly check --offline --lib "$@" >"$V/.cache/extract-$cfg.log" 2>&1; then
  echo "extract[$cfg]: cargo check failed; see $V/.cache/extract-$cfg.log" >&2
  tail -30 "$V/.cache/extract-$cfg.log" >&2
  exit 3
fi
test -s "$out" || { echo "extract[$cfg]: fact file not written (wrapper skipped?)" >&2; exit 3; }
