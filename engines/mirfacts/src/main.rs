// mirfacts — E1 of /verif: dumps the type-checked MIR of the crate under analysis as JSON.
//
// Used as RUSTC_WORKSPACE_WRAPPER under `cargo +nightly check`; only the crate whose
// name equals $MIRFACTS_CRATE (default "lopdf") is dumped, to $MIRFACTS_OUT (one write).
// Everything a rule needs (CFG, dominators, call graph, guards) is computed from this
// file by the python rules; this program only serialises what rustc resolved.
#![feature(rustc_private)]
extern crate rustc_abi;
extern crate rustc_driver;
extern crate rustc_hir;
extern crate rustc_interface;
extern crate rustc_middle;
extern crate rustc_span;

use rustc_driver::Compilation;
use rustc_hir::def::DefKind;
use rustc_interface::interface;
use rustc_middle::mir::{
    self, AggregateKind, AssertKind, BorrowKind, Const, ConstValue, Operand, Place, ProjectionElem, Rvalue,
    StatementKind, TerminatorKind, VarDebugInfoContents,
};
use rustc_middle::ty::print::PrintTraitRefExt;
use rustc_middle::ty::{self, Instance, Ty, TyCtxt, TypingEnv};
use rustc_span::def_id::{DefId, LOCAL_CRATE};
use std::fmt::Write;

fn esc(s: &str) -> String {
    let mut o = String::with_capacity(s.len() + 2);
    o.push('"');
    for c in s.chars() {
        match c {
            '"' => o.push_str("\\\""),
            '\\' => o.push_str("\\\\"),
            '\n' => o.push_str("\\n"),
            '\r' => o.push_str("\\r"),
            '\t' => o.push_str("\\t"),
            c if (c as u32) < 0x20 => {
                write!(o, "\\u{:04x}", c as u32).unwrap();
            }
            c => o.push(c),
        }
    }
    o.push('"');
    o
}

fn hex(b: &[u8]) -> String {
    let mut s = String::with_capacity(b.len() * 2);
    for x in b {
        write!(s, "{:02x}", x).unwrap();
    }
    s
}

/// the function an instance stands for; a closure coerced to a function pointer shows as the closure itself
fn instance_name<'tcx>(tcx: TyCtxt<'tcx>, instance: Instance<'tcx>) -> String {
    if let Some(t) = instance.args.types().next() {
        if let ty::Closure(d, _) = t.kind() {
            if tcx.def_path_str(instance.def_id()).ends_with("call_once") {
                return tcx.def_path_str(*d);
            }
        }
    }
    tcx.def_path_str(instance.def_id())
}

/// Structured value of a constant / static initialiser that holds pointers (a dispatch table kept in data): integers, byte
/// strings, tuples / structs field by field (by the layout rustc computed), arrays element by element, references followed
/// to plain memory, to a `static` (by name) or to a function (by name).  `null` where it is not understood.
fn decode_val<'tcx>(tcx: TyCtxt<'tcx>, alloc: &mir::interpret::Allocation, off: usize, ty: Ty<'tcx>, depth: u32, budget: &mut usize) -> String {
    use rustc_middle::mir::interpret::GlobalAlloc;
    use rustc_middle::ty::layout::LayoutCx;
    if depth == 0 || *budget == 0 {
        return "null".to_string();
    }
    *budget -= 1;
    let tenv = TypingEnv::fully_monomorphized();
    let layout = match tcx.layout_of(tenv.as_query_input(ty)) {
        Ok(l) => l,
        Err(_) => return "null".to_string(),
    };
    let size = layout.size.bytes_usize();
    if off + size > alloc.len() {
        return "null".to_string();
    }
    let has_ptr_in = |lo: usize, hi: usize| alloc.provenance().ptrs().iter().any(|(o, _)| o.bytes_usize() >= lo && o.bytes_usize() < hi);
    let ptr_at = |o: usize| alloc.provenance().ptrs().iter().find(|(po, _)| po.bytes_usize() == o).map(|(_, pr)| pr.alloc_id());
    let word = |o: usize| -> usize {
        let raw = alloc.inspect_with_uninit_and_ptr_outside_interpreter(o..o + 8);
        let mut b8 = [0u8; 8];
        b8.copy_from_slice(raw);
        u64::from_le_bytes(b8) as usize
    };
    match ty.kind() {
        ty::Bool | ty::Int(_) | ty::Uint(_) | ty::Char => {
            if size == 0 || size > 16 || has_ptr_in(off, off + size) {
                return "null".to_string();
            }
            let raw = alloc.inspect_with_uninit_and_ptr_outside_interpreter(off..off + size);
            let mut buf = [0u8; 16];
            buf[..size].copy_from_slice(raw);
            let mut v = u128::from_le_bytes(buf) as i128;
            if ty.is_signed() && size < 16 && (v >> (size * 8 - 1)) & 1 == 1 {
                v -= 1i128 << (size * 8);
            }
            format!("{{\"int\":\"{}\"}}", v)
        }
        ty::Array(elem, _) => {
            let n = layout.fields.count();
            if *elem == tcx.types.u8 {
                if has_ptr_in(off, off + size) {
                    return "null".to_string();
                }
                return format!("{{\"bytes\":\"{}\"}}", hex(alloc.inspect_with_uninit_and_ptr_outside_interpreter(off..off + size)));
            }
            if n > 4096 {
                return "null".to_string();
            }
            let stride = if n > 0 { size / n } else { 0 };
            let items: Vec<String> = (0..n).map(|i| decode_val(tcx, alloc, off + i * stride, *elem, depth - 1, budget)).collect();
            format!("{{\"arr\":[{}]}}", items.join(","))
        }
        ty::Tuple(_) => {
            let cx = LayoutCx::new(tcx, tenv);
            let items: Vec<String> = (0..layout.fields.count())
                .map(|i| decode_val(tcx, alloc, off + layout.fields.offset(i).bytes_usize(), layout.field(&cx, i).ty, depth - 1, budget))
                .collect();
            format!("{{\"tup\":[{}]}}", items.join(","))
        }
        ty::Adt(adt, _) if adt.is_struct() => {
            let cx = LayoutCx::new(tcx, tenv);
            let names: Vec<String> = adt.non_enum_variant().fields.iter().map(|f| esc(f.name.as_str())).collect();
            let items: Vec<String> = (0..layout.fields.count())
                .map(|i| decode_val(tcx, alloc, off + layout.fields.offset(i).bytes_usize(), layout.field(&cx, i).ty, depth - 1, budget))
                .collect();
            format!("{{\"adt\":{},\"names\":[{}],\"tup\":[{}]}}", esc(&tcx.def_path_str(adt.did())), names.join(","), items.join(","))
        }
        ty::FnPtr(..) => match ptr_at(off).map(|id| tcx.global_alloc(id)) {
            Some(GlobalAlloc::Function { instance, .. }) => format!("{{\"fn\":{}}}", esc(&instance_name(tcx, instance))),
            _ => "null".to_string(),
        },
        ty::Ref(_, inner, _) | ty::RawPtr(inner, _) => {
            let id = match ptr_at(off) {
                Some(i) => i,
                None => return "null".to_string(),
            };
            let toff = word(off);
            match tcx.global_alloc(id) {
                GlobalAlloc::Static(d) => format!("{{\"static\":{}}}", esc(&tcx.def_path_str(d))),
                GlobalAlloc::Function { instance, .. } => format!("{{\"fn\":{}}}", esc(&instance_name(tcx, instance))),
                GlobalAlloc::Memory(m) => {
                    let ta = m.inner();
                    match inner.kind() {
                        ty::Str => {
                            let len = word(off + 8);
                            if toff + len > ta.len() {
                                return "null".to_string();
                            }
                            format!("{{\"bytes\":\"{}\"}}", hex(ta.inspect_with_uninit_and_ptr_outside_interpreter(toff..toff + len)))
                        }
                        ty::Slice(e) => {
                            let len = word(off + 8);
                            if *e == tcx.types.u8 {
                                if toff + len > ta.len() {
                                    return "null".to_string();
                                }
                                return format!("{{\"bytes\":\"{}\"}}", hex(ta.inspect_with_uninit_and_ptr_outside_interpreter(toff..toff + len)));
                            }
                            let el = match tcx.layout_of(tenv.as_query_input(*e)) {
                                Ok(l) => l.size.bytes_usize(),
                                Err(_) => return "null".to_string(),
                            };
                            if len > 4096 {
                                return "null".to_string();
                            }
                            let items: Vec<String> = (0..len).map(|i| decode_val(tcx, ta, toff + i * el, *e, depth - 1, budget)).collect();
                            format!("{{\"arr\":[{}]}}", items.join(","))
                        }
                        _ => {
                            // the pointee's bytes as well, when it is plain data: an anonymous copy of a named constant is
                            // recognised by its value
                            let isz = tcx.layout_of(tenv.as_query_input(*inner)).map(|l| l.size.bytes_usize()).unwrap_or(0);
                            let plain = isz > 0 && isz <= 4096 && toff + isz <= ta.len()
                                && !ta.provenance().ptrs().iter().any(|(o, _)| o.bytes_usize() >= toff && o.bytes_usize() < toff + isz);
                            if plain {
                                format!(
                                    "{{\"ref\":{},\"raw\":\"{}\"}}",
                                    decode_val(tcx, ta, toff, *inner, depth - 1, budget),
                                    hex(ta.inspect_with_uninit_and_ptr_outside_interpreter(toff..toff + isz))
                                )
                            } else {
                                format!("{{\"ref\":{}}}", decode_val(tcx, ta, toff, *inner, depth - 1, budget))
                            }
                        }
                    }
                }
                _ => "null".to_string(),
            }
        }
        _ => "null".to_string(),
    }
}

struct Cx<'a, 'tcx> {
    tcx: TyCtxt<'tcx>,
    body: &'a mir::Body<'tcx>,
    did: DefId,
    tenv: TypingEnv<'tcx>,
}

impl<'a, 'tcx> Cx<'a, 'tcx> {
    fn ty_s(&self, t: Ty<'tcx>) -> String {
        esc(&format!("{}", t))
    }

    fn place(&self, p: &Place<'tcx>) -> String {
        let tcx = self.tcx;
        let mut s = format!("{{\"l\":{},\"p\":[", p.local.as_usize());
        let mut pty = mir::PlaceTy::from_ty(self.body.local_decls[p.local].ty);
        let mut first = true;
        for elem in p.projection.iter() {
            if !first {
                s.push(',');
            }
            first = false;
            match elem {
                ProjectionElem::Deref => s.push_str("\"*\""),
                ProjectionElem::Field(f, _) => {
                    let mut name = format!("{}", f.as_usize());
                    let mut adt_s = String::new();
                    let mut local = false;
                    if let ty::Adt(adt, _) = pty.ty.kind() {
                        let v = match pty.variant_index {
                            Some(v) => adt.variant(v),
                            None if adt.is_enum() => adt.variant(rustc_abi::FIRST_VARIANT),
                            None => adt.non_enum_variant(),
                        };
                        if f.as_usize() < v.fields.len() {
                            name = v.fields[f].name.to_string();
                        }
                        adt_s = tcx.def_path_str(adt.did());
                        if pty.variant_index.is_some() {
                            adt_s = format!("{}::{}", adt_s, v.name);
                        }
                        local = adt.did().is_local();
                    }
                    write!(
                        s,
                        "{{\"f\":{},\"n\":{},\"adt\":{},\"loc\":{}}}",
                        f.as_usize(),
                        esc(&name),
                        esc(&adt_s),
                        local
                    )
                    .unwrap();
                }
                ProjectionElem::Index(l) => write!(s, "{{\"idx\":{}}}", l.as_usize()).unwrap(),
                ProjectionElem::ConstantIndex { offset, min_length, from_end } => {
                    write!(s, "{{\"cidx\":{},\"min\":{},\"end\":{}}}", offset, min_length, from_end).unwrap()
                }
                ProjectionElem::Subslice { from, to, from_end } => {
                    write!(s, "{{\"sub\":[{},{}],\"end\":{}}}", from, to, from_end).unwrap()
                }
                ProjectionElem::Downcast(name, v) => {
                    let n = name.map(|n| n.to_string()).unwrap_or_default();
                    write!(s, "{{\"down\":{},\"v\":{}}}", esc(&n), v.as_usize()).unwrap()
                }
                _ => s.push_str("\"?\""),
            }
            pty = pty.projection_ty(tcx, elem);
        }
        s.push_str("]}");
        s
    }

    fn const_bytes(&self, c: &Const<'tcx>) -> Option<Vec<u8>> {
        let tcx = self.tcx;
        let ty = c.ty();
        let mut inner = match ty.kind() {
            ty::Ref(_, inner, _) => *inner,
            _ => return None,
        };
        let val = c.eval(tcx, self.tenv, rustc_span::DUMMY_SP).ok()?;
        match (inner.kind(), val) {
            (ty::Str, ConstValue::Slice { alloc_id, meta }) | (ty::Slice(_), ConstValue::Slice { alloc_id, meta }) => {
                if let ty::Slice(e) = inner.kind() {
                    if *e != tcx.types.u8 {
                        return None;
                    }
                }
                let alloc = match tcx.global_alloc(alloc_id) { rustc_middle::mir::interpret::GlobalAlloc::Memory(m) => m, _ => return None };
                let a = alloc.inner();
                let n = meta as usize;
                Some(a.inspect_with_uninit_and_ptr_outside_interpreter(0..n).to_vec())
            }
            (_, ConstValue::Scalar(mir::interpret::Scalar::Ptr(ptr, _))) => {
                // `&[u8; N]`, or `&&[u8; N]` / `&&&[u8; N]` (promoted operands of comparisons): follow the pointers
                let (prov, off) = ptr.into_raw_parts();
                let mut alloc_id = prov.alloc_id();
                let mut o = off.bytes_usize();
                for _ in 0..3 {
                    match inner.kind() {
                        ty::Ref(_, next, _) => {
                            let alloc = match tcx.global_alloc(alloc_id) {
                                rustc_middle::mir::interpret::GlobalAlloc::Memory(m) => m,
                                _ => return None,
                            };
                            let a = alloc.inner();
                            let psz = tcx.data_layout.pointer_size().bytes_usize();
                            if o + psz > a.len() {
                                return None;
                            }
                            let mut found = None;
                            for (poff, pprov) in a.provenance().ptrs().iter() {
                                if poff.bytes_usize() == o {
                                    found = Some(pprov.alloc_id());
                                }
                            }
                            let raw = a.inspect_with_uninit_and_ptr_outside_interpreter(o..o + psz);
                            let mut buf = [0u8; 8];
                            buf[..psz.min(8)].copy_from_slice(&raw[..psz.min(8)]);
                            o = u64::from_le_bytes(buf) as usize;
                            alloc_id = found?;
                            inner = *next;
                        }
                        _ => break,
                    }
                }
                if let ty::Array(e, len) = inner.kind() {
                    if *e != tcx.types.u8 {
                        return None;
                    }
                    let n = len.try_to_target_usize(tcx)? as usize;
                    let alloc = match tcx.global_alloc(alloc_id) {
                        rustc_middle::mir::interpret::GlobalAlloc::Memory(m) => m,
                        _ => return None,
                    };
                    let a = alloc.inner();
                    if o + n > a.len() {
                        return None;
                    }
                    return Some(a.inspect_with_uninit_and_ptr_outside_interpreter(o..o + n).to_vec());
                }
                None
            }
            _ => None,
        }
    }

    fn constant(&self, c: &Const<'tcx>) -> String {
        let tcx = self.tcx;
        let ty = c.ty();
        if let ty::FnDef(d, args) = ty.kind() {
            let mut res = String::new();
            let mut local = d.is_local();
            if let Ok(Some(inst)) = Instance::try_resolve(tcx, self.tenv, *d, args) {
                let rd = inst.def_id();
                if rd != *d {
                    res = tcx.def_path_str(rd);
                    local = rd.is_local();
                }
            }
            return format!(
                "{{\"fn\":{},\"full\":{},\"res\":{},\"loc\":{}}}",
                esc(&tcx.def_path_str(*d)),
                esc(&tcx.def_path_str_with_args(*d, args)),
                esc(&res),
                local
            );
        }
        if ty.is_integral() || ty.is_bool() || ty.is_char() {
            if let Some(si) = c.try_eval_scalar_int(tcx, self.tenv) {
                let size = si.size();
                let v: i128 = if ty.is_signed() { si.to_int(size) } else { si.to_uint(size) as i128 };
                return format!("{{\"int\":\"{}\",\"ty\":{}}}", v, self.ty_s(ty));
            }
        }
        if let ty::Ref(_, inner, _) = ty.kind() {
            if inner.is_integral() || inner.is_bool() || inner.is_char() {
                if let Some(v) = self.const_ref_int(c, *inner) {
                    return format!("{{\"refint\":\"{}\",\"ty\":{}}}", v, self.ty_s(ty));
                }
            }
        }
        if let Some(t) = self.const_table(c) {
            return format!("{{{},\"s\":{},\"ty\":{}}}", t, esc(&format!("{}", c)), self.ty_s(ty));
        }
        if let Some(b) = self.const_bytes(c) {
            return format!("{{\"bytes\":\"{}\",\"ty\":{}}}", hex(&b), self.ty_s(ty));
        }
        if let Some(r) = self.const_ref_raw(c) {
            return format!("{{\"refraw\":\"{}\",\"ty\":{}}}", hex(&r), self.ty_s(ty));
        }
        if let Some(st) = self.const_struct(c) {
            return format!("{{\"struct\":{},\"ty\":{}}}", st, self.ty_s(ty));
        }
        format!("{{\"s\":{},\"ty\":{}}}", esc(&format!("{}", c)), self.ty_s(ty))
    }

    /// A reference to a `static` (by name), or a reference to / a value of a table kept in data (array or slice of tuples or
    /// structs, possibly holding names, function pointers and references to statics), decoded row by row.
    fn const_table(&self, c: &Const<'tcx>) -> Option<String> {
        use rustc_middle::mir::interpret::GlobalAlloc;
        let tcx = self.tcx;
        let ty = c.ty();
        let is_rows = |t: Ty<'tcx>| match t.kind() {
            ty::Array(e, _) | ty::Slice(e) => match e.kind() {
                ty::Tuple(_) => true,
                ty::Adt(ad, _) => ad.is_struct(),
                _ => false,
            },
            _ => false,
        };
        let val = c.eval(tcx, self.tenv, rustc_span::DUMMY_SP).ok()?;
        match (ty.kind(), val) {
            (ty::Ref(_, inner, _), ConstValue::Scalar(mir::interpret::Scalar::Ptr(ptr, _))) => {
                let (prov, off) = ptr.into_raw_parts();
                match tcx.global_alloc(prov.alloc_id()) {
                    GlobalAlloc::Static(d) => Some(format!("\"static\":{}", esc(&tcx.def_path_str(d)))),
                    GlobalAlloc::Memory(m) if is_rows(*inner) && matches!(inner.kind(), ty::Array(..)) => {
                        let mut budget = 20000usize;
                        Some(format!("\"table\":{}", decode_val(tcx, m.inner(), off.bytes_usize(), *inner, 6, &mut budget)))
                    }
                    _ => None,
                }
            }
            (_, ConstValue::Indirect { alloc_id, offset }) if is_rows(ty) && matches!(ty.kind(), ty::Array(..)) => {
                if let GlobalAlloc::Memory(m) = tcx.global_alloc(alloc_id) {
                    let mut budget = 20000usize;
                    Some(format!("\"table\":{}", decode_val(tcx, m.inner(), offset.bytes_usize(), ty, 6, &mut budget)))
                } else {
                    None
                }
            }
            _ => None,
        }
    }

    /// `&[T; N]` constants of plain data up to 4 KiB (e.g. a promoted `&ENCODING_TABLE`): the raw bytes.
    fn const_ref_raw(&self, c: &Const<'tcx>) -> Option<Vec<u8>> {
        let tcx = self.tcx;
        let inner = match c.ty().kind() {
            ty::Ref(_, inner, _) => *inner,
            _ => return None,
        };
        if !matches!(inner.kind(), ty::Array(..)) {
            return None;
        }
        let layout = tcx.layout_of(TypingEnv::fully_monomorphized().as_query_input(inner)).ok()?;
        let n = layout.size.bytes_usize();
        if n == 0 || n > 4096 {
            return None;
        }
        let val = c.eval(tcx, self.tenv, rustc_span::DUMMY_SP).ok()?;
        if let ConstValue::Scalar(mir::interpret::Scalar::Ptr(ptr, _)) = val {
            let (prov, off) = ptr.into_raw_parts();
            let alloc = match tcx.global_alloc(prov.alloc_id()) {
                rustc_middle::mir::interpret::GlobalAlloc::Memory(m) => m,
                _ => return None,
            };
            let a = alloc.inner();
            let o = off.bytes_usize();
            if !a.provenance().ptrs().is_empty() || o + n > a.len() {
                return None;
            }
            return Some(a.inspect_with_uninit_and_ptr_outside_interpreter(o..o + n).to_vec());
        }
        None
    }

    /// `&<integer>` constants (promoted literals such as the `0` in `format!("{:>010}", 0)`).
    fn const_ref_int(&self, c: &Const<'tcx>, inner: Ty<'tcx>) -> Option<i128> {
        let tcx = self.tcx;
        let val = c.eval(tcx, self.tenv, rustc_span::DUMMY_SP).ok()?;
        let layout = tcx.layout_of(TypingEnv::fully_monomorphized().as_query_input(inner)).ok()?;
        let n = layout.size.bytes_usize();
        if let ConstValue::Scalar(mir::interpret::Scalar::Ptr(ptr, _)) = val {
            let (prov, off) = ptr.into_raw_parts();
            let alloc = match tcx.global_alloc(prov.alloc_id()) { rustc_middle::mir::interpret::GlobalAlloc::Memory(m) => m, _ => return None };
            let a = alloc.inner();
            let o = off.bytes_usize();
            if n > 16 || o + n > a.len() {
                return None;
            }
            let bytes = a.inspect_with_uninit_and_ptr_outside_interpreter(o..o + n);
            let mut buf = [0u8; 16];
            buf[..n].copy_from_slice(bytes);
            let mut v = u128::from_le_bytes(buf) as i128;
            if inner.is_signed() && n < 16 {
                let shift = 128 - 8 * n as u32;
                v = (v << shift) >> shift;
            }
            return Some(v);
        }
        None
    }

    /// `&Struct` / `Struct` constants whose fields are plain integers (e.g. a promoted `RangeInclusive<u8>`):
    /// the field values, read from the constant's allocation at the layout's field offsets.
    fn const_struct(&self, c: &Const<'tcx>) -> Option<String> {
        let tcx = self.tcx;
        let ty = c.ty();
        let (inner, by_ref) = match ty.kind() {
            ty::Ref(_, inner, _) => (*inner, true),
            _ => (ty, false),
        };
        let (adt, args) = match inner.kind() {
            ty::Adt(a, args) if a.is_struct() => (a, args),
            _ => return None,
        };
        let val = c.eval(tcx, self.tenv, rustc_span::DUMMY_SP).ok()?;
        let layout = tcx.layout_of(TypingEnv::fully_monomorphized().as_query_input(inner)).ok()?;
        let size = layout.size.bytes_usize();
        let bytes: Vec<u8> = match (val, by_ref) {
            (ConstValue::Scalar(mir::interpret::Scalar::Ptr(ptr, _)), true) => {
                let (prov, off) = ptr.into_raw_parts();
                let alloc = match tcx.global_alloc(prov.alloc_id()) { rustc_middle::mir::interpret::GlobalAlloc::Memory(m) => m, _ => return None };
                let a = alloc.inner();
                if !a.provenance().ptrs().is_empty() {
                    return None;
                }
                let o = off.bytes_usize();
                a.inspect_with_uninit_and_ptr_outside_interpreter(o..o + size).to_vec()
            }
            (ConstValue::Indirect { alloc_id, offset }, false) => {
                let alloc = match tcx.global_alloc(alloc_id) { rustc_middle::mir::interpret::GlobalAlloc::Memory(m) => m, _ => return None };
                let a = alloc.inner();
                if !a.provenance().ptrs().is_empty() {
                    return None;
                }
                let o = offset.bytes_usize();
                a.inspect_with_uninit_and_ptr_outside_interpreter(o..o + size).to_vec()
            }
            (ConstValue::Scalar(mir::interpret::Scalar::Int(si)), false) => {
                let v = si.to_bits(si.size());
                v.to_le_bytes()[..size].to_vec()
            }
            _ => return None,
        };
        let variant = adt.non_enum_variant();
        let mut out = format!("{{\"name\":{},\"fields\":{{", esc(&tcx.def_path_str(adt.did())));
        let mut first = true;
        for (i, f) in variant.fields.iter().enumerate() {
            let fty = f.ty(tcx, args);
            if !(fty.is_integral() || fty.is_bool() || fty.is_char()) {
                continue;
            }
            let fl = tcx.layout_of(TypingEnv::fully_monomorphized().as_query_input(fty)).ok()?;
            let off = layout.fields.offset(i).bytes_usize();
            let n = fl.size.bytes_usize();
            if off + n > bytes.len() || n > 16 {
                return None;
            }
            let mut buf = [0u8; 16];
            buf[..n].copy_from_slice(&bytes[off..off + n]);
            let mut v = u128::from_le_bytes(buf) as i128;
            if fty.is_signed() && n < 16 {
                let shift = 128 - 8 * n as u32;
                v = (v << shift) >> shift;
            }
            if !first {
                out.push(',');
            }
            first = false;
            write!(out, "{}:\"{}\"", esc(f.name.as_str()), v).unwrap();
        }
        out.push_str("}}");
        Some(out)
    }

    /// constant with, for references to named `const` items, the item's path (so that its evaluated value can be
    /// looked up in the crate-level constant table whatever its type)
    fn constant_named(&self, c: &Const<'tcx>) -> String {
        let base = self.constant(c);
        if let Const::Unevaluated(uv, _) = c {
            if uv.promoted.is_none() {
                let name = self.tcx.def_path_str(uv.def);
                if base.ends_with('}') {
                    return format!("{},\"def\":{}}}", &base[..base.len() - 1], esc(&name));
                }
            }
        }
        base
    }

    fn operand(&self, o: &Operand<'tcx>) -> String {
        match o {
            Operand::Copy(p) => format!("{{\"c\":{}}}", self.place(p)),
            Operand::Move(p) => format!("{{\"m\":{}}}", self.place(p)),
            Operand::Constant(c) => format!("{{\"k\":{}}}", self.constant_named(&c.const_)),
            #[allow(unreachable_patterns)]
            _ => "{\"k\":{\"s\":\"?\"}}".to_string(),
        }
    }

    fn rvalue(&self, rv: &Rvalue<'tcx>) -> String {
        match rv {
            Rvalue::Use(o, ..) => format!("{{\"k\":\"use\",\"o\":{}}}", self.operand(o)),
            Rvalue::Repeat(o, n) => format!("{{\"k\":\"repeat\",\"o\":{},\"n\":{}}}", self.operand(o), esc(&format!("{}", n))),
            Rvalue::Ref(_, bk, p) => {
                let m = matches!(bk, BorrowKind::Mut { .. });
                format!("{{\"k\":\"ref\",\"mut\":{},\"p\":{}}}", m, self.place(p))
            }
            Rvalue::RawPtr(k, p) => format!("{{\"k\":\"rawptr\",\"kind\":{},\"p\":{}}}", esc(&format!("{:?}", k)), self.place(p)),
            Rvalue::Cast(k, o, t) => {
                format!("{{\"k\":\"cast\",\"kind\":{},\"o\":{},\"ty\":{}}}", esc(&format!("{:?}", k)), self.operand(o), self.ty_s(*t))
            }
            Rvalue::BinaryOp(op, ops) => {
                format!("{{\"k\":\"bin\",\"op\":\"{:?}\",\"a\":{},\"b\":{}}}", op, self.operand(&ops.0), self.operand(&ops.1))
            }
            Rvalue::UnaryOp(op, o) => format!("{{\"k\":\"un\",\"op\":\"{:?}\",\"o\":{}}}", op, self.operand(o)),
            Rvalue::Discriminant(p) => {
                // variant names of the enum, so that SwitchInt values can be read
                let pty = p.ty(self.body, self.tcx).ty;
                let mut vars = String::from("[");
                if let ty::Adt(adt, _) = pty.kind() {
                    if adt.is_enum() {
                        let mut first = true;
                        for (vi, disc) in adt.discriminants(self.tcx) {
                            if !first {
                                vars.push(',');
                            }
                            first = false;
                            write!(vars, "[\"{}\",{}]", disc.val, esc(adt.variant(vi).name.as_str())).unwrap();
                        }
                    }
                }
                vars.push(']');
                format!("{{\"k\":\"discr\",\"p\":{},\"ety\":{},\"vars\":{}}}", self.place(p), self.ty_s(pty), vars)
            }
            Rvalue::Aggregate(ak, ops) => {
                let kind = match &**ak {
                    AggregateKind::Array(_) => "{\"a\":\"array\"}".to_string(),
                    AggregateKind::Tuple => "{\"a\":\"tuple\"}".to_string(),
                    AggregateKind::Adt(d, v, _, _, _) => {
                        let adt = self.tcx.adt_def(*d);
                        let var = adt.variant(*v);
                        let fields: Vec<String> = var.fields.iter().map(|f| esc(f.name.as_str())).collect();
                        format!(
                            "{{\"a\":\"adt\",\"adt\":{},\"var\":{},\"fields\":[{}],\"loc\":{}}}",
                            esc(&self.tcx.def_path_str(*d)),
                            esc(var.name.as_str()),
                            fields.join(","),
                            d.is_local()
                        )
                    }
                    AggregateKind::Closure(d, _) => format!("{{\"a\":\"closure\",\"def\":{}}}", esc(&self.tcx.def_path_str(*d))),
                    AggregateKind::Coroutine(d, _) => format!("{{\"a\":\"coroutine\",\"def\":{}}}", esc(&self.tcx.def_path_str(*d))),
                    AggregateKind::CoroutineClosure(d, _) => {
                        format!("{{\"a\":\"coroutine_closure\",\"def\":{}}}", esc(&self.tcx.def_path_str(*d)))
                    }
                    _ => "{\"a\":\"other\"}".to_string(),
                };
                let o: Vec<String> = ops.iter().map(|o| self.operand(o)).collect();
                format!("{{\"k\":\"agg\",\"kind\":{},\"ops\":[{}]}}", kind, o.join(","))
            }
            Rvalue::CopyForDeref(p) => format!("{{\"k\":\"use\",\"o\":{{\"c\":{}}}}}", self.place(p)),
            Rvalue::ThreadLocalRef(d) => format!("{{\"k\":\"tls\",\"def\":{}}}", esc(&self.tcx.def_path_str(*d))),
            other => format!("{{\"k\":\"other\",\"s\":{}}}", esc(&format!("{:?}", other))),
        }
    }

    fn line(&self, sp: rustc_span::Span) -> (usize, bool) {
        let sm = self.tcx.sess.source_map();
        let exp = sp.from_expansion();
        let sp = sp.source_callsite();
        let lo = sm.lookup_char_pos(sp.lo());
        (lo.line, exp)
    }
}

fn dump_body<'tcx>(tcx: TyCtxt<'tcx>, did: DefId, out: &mut String) {
    let body = tcx.optimized_mir(did);
    let cx = Cx { tcx, body, did, tenv: TypingEnv::post_analysis(tcx, did) };
    let sm = tcx.sess.source_map();
    let kind = tcx.def_kind(did);
    let path = tcx.def_path_str(did);
    let lo = sm.lookup_char_pos(body.span.lo());
    let hi = sm.lookup_char_pos(body.span.hi());
    let file = format!("{}", lo.file.name.prefer_local_unconditionally());
    let parent = match kind {
        DefKind::Closure => tcx.def_path_str(tcx.typeck_root_def_id(did)),
        _ => String::new(),
    };
    let (vis, reach) = match kind {
        DefKind::Fn | DefKind::AssocFn => {
            let v = format!("{:?}", tcx.visibility(did));
            let r = did.as_local().map(|l| tcx.effective_visibilities(()).is_reachable(l)).unwrap_or(false);
            (v, r)
        }
        _ => (String::new(), false),
    };
    // impl context: `impl Trait for Ty` the fn belongs to
    let mut impl_of = String::new();
    let mut self_ty = String::new();
    if matches!(kind, DefKind::AssocFn) {
        let p = tcx.parent(did);
        if matches!(tcx.def_kind(p), DefKind::Impl { .. }) {
            self_ty = format!("{}", tcx.type_of(p).instantiate_identity().skip_norm_wip());
            if let DefKind::Impl { of_trait: true } = tcx.def_kind(p) {
                let tr = tcx.impl_trait_ref(p).instantiate_identity().skip_norm_wip();
                impl_of = tcx.def_path_str(tr.def_id);
            }
        }
    }
    write!(
        out,
        "{{\"path\":{},\"kind\":\"{:?}\",\"parent\":{},\"vis\":{},\"reach\":{},\"impl_of\":{},\"self_ty\":{},\"file\":{},\"lo\":{},\"hi\":{},\"argc\":{},",
        esc(&path),
        kind,
        esc(&parent),
        esc(&vis),
        reach,
        esc(&impl_of),
        esc(&self_ty),
        esc(&file),
        lo.line,
        hi.line,
        body.arg_count
    )
    .unwrap();
    // locals
    out.push_str("\"locals\":[");
    for (i, d) in body.local_decls.iter().enumerate() {
        if i > 0 {
            out.push(',');
        }
        write!(out, "{{\"ty\":{}}}", cx.ty_s(d.ty)).unwrap();
    }
    out.push_str("],\"dbg\":[");
    let mut first = true;
    for v in body.var_debug_info.iter() {
        if let VarDebugInfoContents::Place(p) = &v.value {
            if !first {
                out.push(',');
            }
            first = false;
            let pty = p.ty(body, tcx).ty;
            write!(out, "{{\"n\":{},\"p\":{},\"ty\":{}}}", esc(v.name.as_str()), cx.place(p), cx.ty_s(pty)).unwrap();
        }
    }
    out.push_str("],\"blocks\":[");
    for (bi, bb) in body.basic_blocks.iter().enumerate() {
        if bi > 0 {
            out.push(',');
        }
        write!(out, "{{\"cleanup\":{},\"st\":[", bb.is_cleanup).unwrap();
        let mut first = true;
        for st in &bb.statements {
            let (line, exp) = cx.line(st.source_info.span);
            let s = match &st.kind {
                StatementKind::Assign(b) => {
                    let (lhs, rv) = &**b;
                    Some(format!("{{\"lhs\":{},\"rv\":{},\"ln\":{},\"x\":{}}}", cx.place(lhs), cx.rvalue(rv), line, exp))
                }
                StatementKind::SetDiscriminant { place, variant_index } => Some(format!(
                    "{{\"setdiscr\":{},\"v\":{},\"ln\":{},\"x\":{}}}",
                    cx.place(place),
                    variant_index.as_usize(),
                    line,
                    exp
                )),
                _ => None,
            };
            if let Some(s) = s {
                if !first {
                    out.push(',');
                }
                first = false;
                out.push_str(&s);
            }
        }
        out.push_str("],\"t\":");
        let term = bb.terminator();
        let (line, exp) = cx.line(term.source_info.span);
        let unwind_s = |u: &mir::UnwindAction| match u {
            mir::UnwindAction::Cleanup(b) => format!("{}", b.as_usize()),
            _ => "null".to_string(),
        };
        match &term.kind {
            TerminatorKind::Goto { target } => write!(out, "{{\"k\":\"goto\",\"to\":{}", target.as_usize()).unwrap(),
            TerminatorKind::SwitchInt { discr, targets } => {
                let t: Vec<String> = targets.iter().map(|(v, b)| format!("[\"{}\",{}]", v, b.as_usize())).collect();
                write!(
                    out,
                    "{{\"k\":\"switch\",\"d\":{},\"dty\":{},\"tg\":[{}],\"else\":{}",
                    cx.operand(discr),
                    cx.ty_s(discr.ty(body, tcx)),
                    t.join(","),
                    targets.otherwise().as_usize()
                )
                .unwrap()
            }
            TerminatorKind::Return => out.push_str("{\"k\":\"return\""),
            TerminatorKind::Unreachable => out.push_str("{\"k\":\"unreachable\""),
            TerminatorKind::UnwindResume => out.push_str("{\"k\":\"resume\""),
            TerminatorKind::UnwindTerminate(_) => out.push_str("{\"k\":\"terminate\""),
            TerminatorKind::Drop { place, target, unwind, .. } => write!(
                out,
                "{{\"k\":\"drop\",\"p\":{},\"to\":{},\"uw\":{}",
                cx.place(place),
                target.as_usize(),
                unwind_s(unwind)
            )
            .unwrap(),
            TerminatorKind::Call { func, args, destination, target, unwind, .. } => {
                let f = match func {
                    Operand::Constant(c) => cx.constant(&c.const_),
                    o => format!("{{\"ind\":{},\"ty\":{}}}", cx.operand(o), cx.ty_s(o.ty(body, tcx))),
                };
                let a: Vec<String> = args.iter().map(|a| cx.operand(&a.node)).collect();
                write!(
                    out,
                    "{{\"k\":\"call\",\"f\":{},\"args\":[{}],\"dest\":{},\"to\":{},\"uw\":{}",
                    f,
                    a.join(","),
                    cx.place(destination),
                    target.map(|t| format!("{}", t.as_usize())).unwrap_or("null".into()),
                    unwind_s(unwind)
                )
                .unwrap()
            }
            TerminatorKind::Assert { cond, expected, msg, target, unwind } => {
                let (k, ops) = match &**msg {
                    AssertKind::BoundsCheck { len, index } => ("bounds".to_string(), vec![cx.operand(len), cx.operand(index)]),
                    AssertKind::Overflow(op, a, b) => (format!("overflow:{:?}", op), vec![cx.operand(a), cx.operand(b)]),
                    AssertKind::OverflowNeg(a) => ("overflow:Neg".to_string(), vec![cx.operand(a)]),
                    AssertKind::DivisionByZero(a) => ("div0".to_string(), vec![cx.operand(a)]),
                    AssertKind::RemainderByZero(a) => ("rem0".to_string(), vec![cx.operand(a)]),
                    AssertKind::MisalignedPointerDereference { .. } => ("misaligned".to_string(), vec![]),
                    AssertKind::NullPointerDereference => ("nullptr".to_string(), vec![]),
                    AssertKind::ResumedAfterReturn(..) | AssertKind::ResumedAfterPanic(..) => ("resumed".to_string(), vec![]),
                    _ => ("other".to_string(), vec![]),
                };
                write!(
                    out,
                    "{{\"k\":\"assert\",\"cond\":{},\"exp\":{},\"ak\":{},\"ops\":[{}],\"to\":{},\"uw\":{}",
                    cx.operand(cond),
                    expected,
                    esc(&k),
                    ops.join(","),
                    target.as_usize(),
                    unwind_s(unwind)
                )
                .unwrap()
            }
            TerminatorKind::FalseEdge { real_target, .. } => write!(out, "{{\"k\":\"goto\",\"to\":{}", real_target.as_usize()).unwrap(),
            TerminatorKind::FalseUnwind { real_target, .. } => {
                write!(out, "{{\"k\":\"goto\",\"to\":{}", real_target.as_usize()).unwrap()
            }
            TerminatorKind::Yield { resume, .. } => write!(out, "{{\"k\":\"yield\",\"to\":{}", resume.as_usize()).unwrap(),
            other => write!(out, "{{\"k\":\"other\",\"s\":{}", esc(&format!("{:?}", other))).unwrap(),
        }
        write!(out, ",\"ln\":{},\"x\":{}}}}}", line, exp).unwrap();
    }
    out.push_str("]}");
    let _ = cx.did;
}

struct Cb;
impl rustc_driver::Callbacks for Cb {
    fn after_analysis<'tcx>(&mut self, _c: &interface::Compiler, tcx: TyCtxt<'tcx>) -> Compilation {
        let want = std::env::var("MIRFACTS_CRATE").unwrap_or_else(|_| "lopdf".to_string());
        let krate = tcx.crate_name(LOCAL_CRATE);
        if krate.as_str() != want {
            return Compilation::Continue;
        }
        let outp = match std::env::var("MIRFACTS_OUT") {
            Ok(p) => p,
            Err(_) => return Compilation::Continue,
        };
        let mut out = String::with_capacity(64 << 20);
        write!(out, "{{\"crate\":{},\"ptr_width\":{},", esc(krate.as_str()), tcx.data_layout.pointer_size().bits()).unwrap();

        // crate-level lint attributes, e.g. #![forbid(unsafe_code)]
        out.push_str("\"crate_attrs\":[");
        {
            let mut first = true;
            for a in tcx.hir_krate_attrs() {
                let s = format!("{:?}", a);
                if s.starts_with("Parsed(DocComment") {
                    continue;
                }
                if !first {
                    out.push(',');
                }
                first = false;
                out.push_str(&esc(&s));
            }
        }
        out.push_str("],");

        // named constants of the crate, evaluated
        out.push_str("\"consts\":[");
        let mut first = true;
        let mut const_ids: Vec<DefId> = Vec::new();
        for id in tcx.hir_crate_items(()).definitions() {
            let did = id.to_def_id();
            if matches!(tcx.def_kind(did), DefKind::Const { .. } | DefKind::AssocConst { .. }) {
                const_ids.push(did);
            }
        }
        for did in const_ids {
            let name = tcx.def_path_str(did);
            let generics = tcx.generics_of(did);
            // (lifetime parameters of the enclosing impl do not stand in the way of evaluating an associated constant)
            if generics.requires_monomorphization(tcx) {
                continue;
            }
            let ty = tcx.type_of(did).instantiate_identity().skip_norm_wip();
            let val = match tcx.const_eval_poly(did) {
                Ok(v) => v,
                Err(_) => continue,
            };
            let layout = match tcx.layout_of(TypingEnv::fully_monomorphized().as_query_input(ty)) {
                Ok(l) => l,
                Err(_) => continue,
            };
            let desc = match val {
                ConstValue::Scalar(mir::interpret::Scalar::Int(si)) => {
                    let size = si.size();
                    let v: i128 = if ty.is_signed() { si.to_int(size) } else { si.to_uint(size) as i128 };
                    format!("\"int\":\"{}\"", v)
                }
                ConstValue::Indirect { alloc_id, offset } => {
                    let alloc = match tcx.global_alloc(alloc_id) { rustc_middle::mir::interpret::GlobalAlloc::Memory(m) => m, _ => continue };
                    let a = alloc.inner();
                    let n = layout.size.bytes_usize();
                    if n > (1 << 20) {
                        continue;
                    }
                    // `&[u8]` / `&str` stored as a fat pointer: follow it
                    let is_byte_slice = match ty.kind() {
                        ty::Ref(_, inner, _) => match inner.kind() {
                            ty::Str => true,
                            ty::Slice(e) => *e == tcx.types.u8,
                            _ => false,
                        },
                        _ => false,
                    };
                    let o0 = offset.bytes_usize();
                    if is_byte_slice && n == 16 && o0 + 16 <= a.len() {
                        let mut target = None;
                        for (poff, pprov) in a.provenance().ptrs().iter() {
                            if poff.bytes_usize() == o0 {
                                target = Some(pprov.alloc_id());
                            }
                        }
                        let raw = a.inspect_with_uninit_and_ptr_outside_interpreter(o0..o0 + 16);
                        let mut b8 = [0u8; 8];
                        b8.copy_from_slice(&raw[0..8]);
                        let toff = u64::from_le_bytes(b8) as usize;
                        b8.copy_from_slice(&raw[8..16]);
                        let tlen = u64::from_le_bytes(b8) as usize;
                        let mut done = None;
                        if let Some(tid) = target {
                            if let rustc_middle::mir::interpret::GlobalAlloc::Memory(m) = tcx.global_alloc(tid) {
                                let ta = m.inner();
                                if toff + tlen <= ta.len() && ta.provenance().ptrs().is_empty() {
                                    done = Some(hex(ta.inspect_with_uninit_and_ptr_outside_interpreter(toff..toff + tlen)));
                                }
                            }
                        }
                        match done {
                            Some(h) => format!("\"bytes\":\"{}\"", h),
                            None => format!("\"ptrs\":true"),
                        }
                    } else if !a.provenance().ptrs().is_empty() {
                        let mut budget = 20000usize;
                        format!("\"ptrs\":true,\"val\":{}", decode_val(tcx, a, o0, ty, 6, &mut budget))
                    } else {
                        let bytes = a.inspect_with_uninit_and_ptr_outside_interpreter(offset.bytes_usize()..offset.bytes_usize() + n);
                        // an array of tuples / structs of plain data is a table too: decode it row by row
                        let rows = match ty.kind() {
                            ty::Array(e, _) => match e.kind() {
                                ty::Tuple(_) => true,
                                ty::Adt(ad, _) => ad.is_struct(),
                                _ => false,
                            },
                            _ => false,
                        };
                        if rows && n <= (1 << 16) {
                            let mut budget = 20000usize;
                            format!("\"raw\":\"{}\",\"val\":{}", hex(bytes), decode_val(tcx, a, o0, ty, 6, &mut budget))
                        } else {
                            format!("\"raw\":\"{}\"", hex(bytes))
                        }
                    }
                }
                ConstValue::Slice { alloc_id, meta } => {
                    let alloc = match tcx.global_alloc(alloc_id) { rustc_middle::mir::interpret::GlobalAlloc::Memory(m) => m, _ => continue };
                    let a = alloc.inner();
                    let n = meta as usize;
                    if !a.provenance().ptrs().is_empty() || n > a.len() {
                        format!("\"ptrs\":true")
                    } else {
                        let bytes = a.inspect_with_uninit_and_ptr_outside_interpreter(0..n);
                        format!("\"bytes\":\"{}\"", hex(bytes))
                    }
                }
                _ => format!("\"opaque\":true"),
            };
            if !first {
                out.push(',');
            }
            first = false;
            write!(out, "{{\"name\":{},\"ty\":{},\"size\":{},{}}}", esc(&name), esc(&format!("{}", ty)), layout.size.bytes(), desc).unwrap();
        }
        out.push_str("],");

        // statics of the crate whose initialiser holds pointers (tables of names, functions, other statics), decoded
        out.push_str("\"statics\":[");
        {
            let mut first = true;
            for id in tcx.hir_crate_items(()).definitions() {
                let did = id.to_def_id();
                if !matches!(tcx.def_kind(did), DefKind::Static { .. }) {
                    continue;
                }
                let ty = tcx.type_of(did).instantiate_identity().skip_norm_wip();
                let alloc = match tcx.eval_static_initializer(did) {
                    Ok(a) => a,
                    Err(_) => continue,
                };
                let a = alloc.inner();
                let rows = match ty.kind() {
                    ty::Array(e, _) => match e.kind() {
                        ty::Tuple(_) => true,
                        ty::Adt(ad, _) => ad.is_struct(),
                        _ => false,
                    },
                    _ => false,
                };
                if a.provenance().ptrs().is_empty() && !(rows && a.len() <= (1 << 16)) {
                    continue;
                }
                let mut budget = 20000usize;
                let v = decode_val(tcx, a, 0, ty, 6, &mut budget);
                if !first {
                    out.push(',');
                }
                first = false;
                write!(out, "{{\"name\":{},\"ty\":{},\"val\":{}}}", esc(&tcx.def_path_str(did)), esc(&format!("{}", ty)), v).unwrap();
            }
        }
        out.push_str("],");

        // local ADTs: fields with types and visibility
        out.push_str("\"adts\":[");
        let mut first = true;
        for id in tcx.hir_crate_items(()).definitions() {
            let did = id.to_def_id();
            if !matches!(tcx.def_kind(did), DefKind::Struct | DefKind::Enum) {
                continue;
            }
            let adt = tcx.adt_def(did);
            if !first {
                out.push(',');
            }
            first = false;
            write!(out, "{{\"name\":{},\"enum\":{},\"variants\":[", esc(&tcx.def_path_str(did)), adt.is_enum()).unwrap();
            let mut vf = true;
            // discriminant values of an enum's variants (the byte a fieldless enum is stored as in constant data)
            let discrs: Vec<u128> = if adt.is_enum() { adt.discriminants(tcx).map(|(_, d)| d.val).collect() } else { Vec::new() };
            for (vi, v) in adt.variants().iter().enumerate() {
                if !vf {
                    out.push(',');
                }
                vf = false;
                write!(out, "{{\"name\":{},", esc(v.name.as_str())).unwrap();
                if let Some(dv) = discrs.get(vi) {
                    write!(out, "\"discr\":{},", *dv as i128 as i64).unwrap();
                }
                write!(out, "\"fields\":[").unwrap();
                let mut ff = true;
                for f in v.fields.iter() {
                    if !ff {
                        out.push(',');
                    }
                    ff = false;
                    let fty = tcx.type_of(f.did).instantiate_identity().skip_norm_wip();
                    write!(
                        out,
                        "{{\"n\":{},\"ty\":{},\"vis\":{}}}",
                        esc(f.name.as_str()),
                        esc(&format!("{}", fty)),
                        esc(&format!("{:?}", f.vis))
                    )
                    .unwrap();
                }
                out.push_str("]}");
            }
            out.push_str("]}");
        }
        out.push_str("],");

        // trait impls for local types
        out.push_str("\"impls\":[");
        let mut first = true;
        for id in tcx.hir_crate_items(()).definitions() {
            let did = id.to_def_id();
            if let DefKind::Impl { of_trait } = tcx.def_kind(did) {
                let self_ty = format!("{}", tcx.type_of(did).instantiate_identity().skip_norm_wip());
                let tr = if of_trait {
                    let t = tcx.impl_trait_ref(did).instantiate_identity().skip_norm_wip();
                    format!("{}", t.print_only_trait_path())
                } else {
                    String::new()
                };
                let methods: Vec<String> = tcx
                    .associated_item_def_ids(did)
                    .iter()
                    .filter(|d| matches!(tcx.def_kind(**d), DefKind::AssocFn))
                    .map(|d| esc(&tcx.def_path_str(*d)))
                    .collect();
                if !first {
                    out.push(',');
                }
                first = false;
                write!(out, "{{\"trait\":{},\"self_ty\":{},\"methods\":[{}]}}", esc(&tr), esc(&self_ty), methods.join(",")).unwrap();
            }
        }
        out.push_str("],");

        out.push_str("\"bodies\":[\n");
        let mut first = true;
        let mut n = 0usize;
        for def_id in tcx.mir_keys(()) {
            let did = def_id.to_def_id();
            let kind = tcx.def_kind(did);
            if !matches!(kind, DefKind::Fn | DefKind::AssocFn | DefKind::Closure) {
                continue;
            }
            if !first {
                out.push_str(",\n");
            }
            first = false;
            dump_body(tcx, did, &mut out);
            n += 1;
        }
        write!(out, "\n],\"n_bodies\":{}}}\n", n).unwrap();
        let tmp = format!("{}.tmp.{}", outp, std::process::id());
        std::fs::write(&tmp, out).expect("write facts");
        std::fs::rename(&tmp, &outp).expect("rename facts");
        Compilation::Continue
    }
}

fn main() {
    let mut args: Vec<String> = std::env::args().collect();
    // RUSTC_WORKSPACE_WRAPPER mode: argv[1] is the real rustc
    if args.len() > 1 && (args[1].ends_with("rustc") || args[1].contains("/rustc")) {
        args.remove(1);
    }
    rustc_driver::run_compiler(&args, &mut Cb);
}
