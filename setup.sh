#!/bin/bash
# setup.sh — build the framework from files on disk only (offline) and warm the per-configuration dependency caches.
set -euo pipefail
cd "$(dirname "$0")"
export CARGO_NET_OFFLINE=true
( cd engines/mirfacts && cargo build --offline 2>&1 | tail -3 )
mkdir -p .cache evidence
# one extraction per quick-tier configuration: compiles the dependencies once (the facts themselves are re-extracted
# by every check whenever /repo's tree differs from the cached key)
for cfg in default nodefault; do
  python3 - "$cfg" <<'PY'
import sys, os
sys.path.insert(0, os.path.join(os.getcwd(), "rules"))
import common
ff, fresh = common.ensure_facts(sys.argv[1])
print("facts", sys.argv[1], ff, "fresh" if fresh else "cached")
PY
done
echo "setup ok"
