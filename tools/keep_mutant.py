#!/usr/bin/env python3
"""keep_mutant.py <prop> <mN> <short-id> <caught: yes|no|after-strengthening> <rule or note>  — file a confirmed adversarial change under seeded/."""
import json, os, shutil, sys, re
prop, m, sid, caught, note = sys.argv[1:6]
src = "/tmp/wt/%s/out/%s" % (prop, m)
dst = "/verif/seeded/%s-%s" % (prop, sid)
os.makedirs(dst, exist_ok=True)
shutil.copy(os.path.join(src, "patch.diff"), os.path.join(dst, "patch.diff"))
shutil.copy(os.path.join(src, "demo.rs"), os.path.join(dst, "demo.rs"))
readme = open(os.path.join(src, "README.md")).read()
shutil.copy(os.path.join(src, "README.md"), os.path.join(dst, "README.md"))
files = sorted(set(re.findall(r"^\+\+\+ b/(\S+)", open(os.path.join(src, "patch.diff")).read(), re.M)))
meta = {
    "property": prop,
    "files": files,
    "origin": "independent sub-agent given only the property text and a scratch worktree",
    "needs_to_manifest": note if caught == "-" else None,
    "what_i_ran": ["tools/confirm_mutant.sh /tmp/wt/%s %s  (demo passes on the unchanged tree; with the patch: builds, existing suite unchanged, demo fails)" % (prop, m),
                   "tools/try_mutant.sh seeded/%s-%s/patch.diff %s" % (prop, sid, prop)],
    "detected": caught,
    "detected_by": note,
}
meta["needs_to_manifest"] = sys.argv[6] if len(sys.argv) > 6 else ""
json.dump(meta, open(os.path.join(dst, "meta.json"), "w"), indent=1)
print("kept", dst)
