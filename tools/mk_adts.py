#!/usr/bin/env python3
"""mk_adts.py — names of the structs and enums of the reviewed tree (tables/adts.json).  A single-field wrapper around an
integer that is NOT in this list was introduced after the review: the renderings look through it (rules/mir.py)."""
import sys, os, json
V = os.path.dirname(os.path.dirname(os.path.abspath(__file__)))
sys.path.insert(0, os.path.join(V, "rules"))
import mir
names = set()
for cfg in ("default", "nodefault", "async", "serde", "embed_image", "time_only"):
    try:
        names |= set(mir.load(cfg).adts)
    except Exception as e:      # configuration not extracted (quick tier only): the default one is what the rules need
        print("  (configuration %s not available: %s)" % (cfg, e))
with open(os.path.join(V, "tables", "adts.json"), "w") as f:
    json.dump(sorted(names), f, indent=0)
print("tables/adts.json: %d types" % len(names))
