#!/bin/bash
# maintenance: regenerate tables/inventory.json, tables/inventory_findings.json and the R-INV part of known_findings.json
cd "$(dirname "$0")/.." && python3 tools/mk_table.py && python3 tools/reasons.py | tail -3 && python3 tools/mk_known.py && python3 tools/mk_mustpass.py --all && python3 tools/mk_adts.py
