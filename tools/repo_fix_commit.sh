#!/bin/bash
# repo_fix_commit.sh <commit message file>  — run the repository's suite on the working tree and commit the fix if the
# results are the baseline's (85 stable tests pass, annotation_count is the known always-fail).
set -u
cd /repo
export CARGO_NET_OFFLINE=true
cargo build --offline --no-default-features 2>&1 | grep -E "^error" -A5 | head -20
out=$(timeout 1500 cargo test --workspace --no-fail-fast --offline 2>&1 | grep -E "^test result|^test .* FAILED")
echo "$out" | tr '\n' ';'; echo
passed=$(echo "$out" | grep -oE "[0-9]+ passed" | awk '{s+=$1} END {print s}')
failed=$(echo "$out" | grep -c "FAILED$" )
fl=$(echo "$out" | grep "FAILED$" | grep -v annotation_count | grep -v "^test result" | wc -l)
echo "passed=$passed other-failures=$fl"
if [ "$passed" -ge 88 ] && [ "$fl" -eq 0 ]; then git add -A && git commit -q -F "$1" && git log --oneline | head -1; else echo "NOT COMMITTED"; fi
