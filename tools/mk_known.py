#!/usr/bin/env python3
"""Maintenance tool: (re)generate the R-INV part of known_findings.json from tables/inventory_findings.json,
one entry per property whose scope contains the function.  Hand-written entries (other rules) are preserved."""
import json, os, sys
V = os.path.join(os.path.dirname(os.path.abspath(__file__)), "..")
sys.path.insert(0, os.path.join(V, "rules"))
import mir, scopes
F = mir.load("default")
inv_f = json.load(open(os.path.join(V, "tables", "inventory_findings.json")))
p = os.path.join(V, "known_findings.json")
old = json.load(open(p)) if os.path.exists(p) else {"findings": [], "fixed": []}
keep = [k for k in old["findings"] if not k["key"].startswith("R-INV|")]
sc = {n: set(F.canon_of(F.bodies[x]) for x in scopes.scope(F, getattr(scopes, n + "_ENTRIES"))) for n in ("C04", "C12", "C13", "C19")}
new = {}
for f in inv_f:
    for prop, fns in sc.items():
        if f["fn"] in fns:
            key = "R-INV|%s|%s|%s" % (f["file"], f["kind"], f["nterm"])
            if (prop, key) in new:
                new[(prop, key)]["n"] += f["n"]
            else:
                new[(prop, key)] = {"property": prop, "key": key, "n": f["n"], "what": f["what"], "in": f["fn"]}
new = list(new.values())
old["findings"] = keep + new
json.dump(old, open(p, "w"), indent=1, sort_keys=True)
print(len(keep), "hand-written +", len(new), "inventory findings")
