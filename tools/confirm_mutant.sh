#!/bin/bash
# confirm_mutant.sh <worktree> <mN>  — re-verify an adversarial change in its scratch worktree:
# demo passes on the unchanged tree; with the patch: builds, the existing suite is unchanged, the demo fails.
set -u
WT="$1"; M="$2"
export CARGO_NET_OFFLINE=true
cd "$WT" || exit 2
git checkout -q -- src; rm -f tests/demo_m*.rs
cp "out/$M/demo.rs" "tests/demo_$M.rs"
echo "[1] demo on unchanged tree"
timeout 900 cargo test --offline --test "demo_$M" 2>&1 | grep -E "^test result|error(\[|:)" | head -3
git apply "out/$M/patch.diff" || { echo "PATCH DOES NOT APPLY"; exit 1; }
echo "[2] build with patch"
cargo build --offline 2>&1 | grep -E "^error|Finished" | head -3
echo "[3] existing suite with patch (annotation_count is a known always-fail)"
mv "tests/demo_$M.rs" /tmp/demo_hold_$$.rs
timeout 1500 cargo test --workspace --no-fail-fast --offline 2>&1 | grep -E "^test result|FAILED$|^test .* FAILED" | tr '\n' ';'; echo
mv /tmp/demo_hold_$$.rs "tests/demo_$M.rs"
echo "[4] demo with patch"
timeout 900 cargo test --offline --test "demo_$M" 2>&1 | grep -a -E "^test result|error(\[|:)|stack overflow" | head -3
git checkout -q -- src; rm -f tests/demo_m*.rs
