#!/usr/bin/env python3
"""Maintenance tool (never run by a check): the record of the hand review of every panic-capable site that no
automatic rule discharges.  Rules are (function regex, kind regex, term regex, verdict, text); first match wins.
verdict SAFE -> reason written into tables/inventory.json;  FINDING -> entry for known_findings.json is printed.
Run after tools/mk_table.py."""
import json, os, re, sys
V = os.path.join(os.path.dirname(os.path.abspath(__file__)), "..")

R = [
    # ---- genuine defects (DESIGN §6): recorded in known_findings.json, not in the table
    (r"^parser::xref::\{closure#3\}$", r"overflow:Add", r"start,index", "FINDING", "xref subsection start + index overflows usize for a subsection starting near usize::MAX"),
    (r"^parser_aux::decode_xref_stream$", r"overflow:Add", r"start,j", "SAFE", "0 <= j < count and start.checked_add(count) was Some: start + j < start + count <= i64::MAX", [{'kind': 'dominating', 'cond': '^is_none\\(&?checked_add\\(\\$\\d+,\\$\\d+\\)\\)$', 'truth': False, 'where': 'self'}]),
    (r"^Stream::decode_ascii85$", r"overflow:Add", r"^buffer,", "FINDING", "ASCII85 group accumulator `buffer += digit` overflows u32 after checked_mul (e.g. `s8W-\"~>`)"),
    (r"^Stream::decompress_predictor$", r"overflow:Mul", r"colors,bits", "FINDING", "/Colors * /BitsPerComponent taken from DecodeParms overflows usize"),
    (r"^filters::png::decode_frame$", r"overflow:Mul", r"bytes_per_pixel,pixels_per_row", "FINDING", "bytes_per_pixel * pixels_per_row from DecodeParms overflows usize"),
    (r"^parser::image_data_stream$", r"overflow:(Mul|Add)", r"", "FINDING", "inline image geometry W*(C*BPC)+7 / H*stride from the image dictionary overflows usize"),

    # ---- reviewed safe
    (r"CryptFilter>::compute_key$", r"index:RangeTo", r"key_len", "SAFE", "key_len = min(key.len()+5, 16) and an MD5 digest is 16 bytes"),
    (r"Aes(128|256)CryptFilter as CryptFilter>::decrypt$", r"index:Range(To|From)", r"ciphertext", "SAFE", "dominated by `len % 16 != 0 -> Err` and `is_empty() || len == 16 -> return`: len >= 32", [{'kind': 'dominating', 'cond': '^Ne\\(Rem\\(len\\(&\\*\\$\\d+\\),16\\),0\\)$', 'truth': False, 'where': 'self'}, {'kind': 'dominating', 'cond': '^is_empty\\(&\\*\\$\\d+\\)$', 'truth': False, 'where': 'self'}]),
    (r"Aes(128|256)CryptFilter as CryptFilter>::decrypt$", r"slice-op", r"copy_from_slice\(&iv", "SAFE", "iv is [u8; 16] and the source is ciphertext[..16]", [{'kind': 'dominating', 'cond': '^Ne\\(Rem\\(len\\(&\\*\\$\\d+\\),16\\),0\\)$', 'truth': False, 'where': 'self'}, {'kind': 'dominating', 'cond': '^is_empty\\(&\\*\\$\\d+\\)$', 'truth': False, 'where': 'self'}]),
    (r"Aes128CryptFilter as CryptFilter>::decrypt$", r"generic-array", r"\(&\*key\)", "SAFE", "dominated by `key.len() != 16 -> Err`", [{'kind': 'dominating', 'cond': '^Ne\\(len\\(&\\*\\$\\d+\\),16\\)$', 'truth': False, 'where': 'self'}]),
    (r"Aes256CryptFilter as CryptFilter>::decrypt$", r"generic-array", r"\(&\*key\)", "SAFE", "dominated by `key.len() != 32 -> Err`", [{'kind': 'dominating', 'cond': '^Ne\\(len\\(&\\*\\$\\d+\\),32\\)$', 'truth': False, 'where': 'self'}]),
    (r"CryptFilter>::decrypt$", r"generic-array", r"\(iv\)", "SAFE", "iv is a [u8; 16] by value: the conversion is by type"),
    (r"^<CountingWrite as Write>::write(_all)?$", r"overflow:Add", r"bytes_written", "SAFE", "counts bytes delivered to the sink; 2^64 bytes of output are not reachable"),
    (r"^IncrementalDocument::save_internal$", r"overflow:Add", r"bytes_written", "SAFE", "first addition to a zero counter: 0 + len"),
    (r"save_internal$|write_cross_reference_stream$|write_trailer$", r"overflow:Add", r"max_id,1", "SAFE", "precondition max_id < u32::MAX (fewer than 2^32 objects); every in-crate writer of max_id keeps it below that (C11 rule 1)"),
    (r"^Writer::create_xref_steam$", r"overflow:Add", r"", "SAFE", "xref.size = max_id + 1 computed without overflow by the caller; obj_id counts entries of one section (< size)"),
    (r"^<PageTreeIter as Iterator>::next$", r"overflow:Sub", r"iter_limit,1", "SAFE", "dominated by `iter_limit == 0 -> return None` (re-verified by C12's R-TERM rule)"),
    (r"^<PageTreeIter as Iterator>::next$", r"unwrap", r"self.kids", "SAFE", "`kids` was just assigned Some(..) or checked by the while-let in the same iteration (state machine of next)"),
    (r"^Document::decrypt_raw$", r"unwrap", r"Encrypt", "SAFE", "`trailer.get(b\"Encrypt\")?` earlier in the same body succeeded and nothing removes the key in between"),
    (r"^Document::dereference$", r"overflow:Add", r"nb_deref,1", "SAFE", "counter compared against a small limit after each increment (DEREF_LIMIT)", [{'kind': 'exists', 'fn': 'Document::dereference', 'cond': 'Gt\\(\\$\\d+,\\d+\\)'}]),
    (r"^Document::get_page_contents$", r"overflow:Add", r"nb_deref,1", "SAFE", "counter compared against a small limit after each increment (the walk continues only while it is below DEREF_LIMIT)", [{'kind': 'exists', 'fn': 'Document::get_page_contents', 'cond': 'Lt\\(\\$\\d+,\\d+\\)'}]),
    (r"^Document::get_object_mut$", r"unwrap", r"get_mut", "SAFE", "the id was just resolved by get_object()/dereference() on the same map"),
    (r"^Document::get_outlines$", r"unwrap", r"node", "SAFE", "dominated by `node.is_none() -> return`"),
    (r"^Document::get_pages::\{closure#0\}$", r"overflow:Add", r"i,1", "SAFE", "i enumerates yielded pages (< objects.len() <= usize::MAX/size_of object)"),
    (r"^Document::get_toc::\{closure#[01]\}$", r"bounds", r"len\(x\),[01]", "SAFE", "x is a chunk of chunks_exact(2)/chunks(2) taken after an odd length was rejected", [{'kind': 'dominating', 'cond': '^Ne\\(BitAnd\\(len\\(&\\$\\d+\\),1\\),0\\)$', 'truth': False, 'where': 'parent'}]),
    (r"^Encoding::bytes_to_string$", r"overflow", r"", "SAFE", "considered_source_code accumulates at most 4 bytes base 256 (reset when bytes_in_considered_code reaches 4), fits u32", [{'kind': 'exists', 'fn': 'Encoding::bytes_to_string', 'cond': '^Eq\\(\\$\\d+,4\\)$'}, {'kind': 'reset-together', 'fn': 'Encoding::bytes_to_string', 'limit': 4, 'factor': 256}]),
    (r"^Encoding::bytes_to_string::\{closure#0\}$", r"op-trait", r"(div|rem)\(it,256\)", "SAFE", "u16 / 256 and % 256 with a constant non-zero divisor"),
    (r"^ObjectStream::new$", r"index:RangeTo", r"numbers.*len", "SAFE", "len = numbers.len() / 2 * 2 <= numbers.len()", [{'kind': 'call-arg', 'fn': 'ObjectStream::new', 'callee': 'ops::Index::index$', 'arg': 1, 'matches': 'RangeTo\\{\\$\\d+\\}'}]),
    (r"^ObjectStream::new::\{closure#3\}$", r"bounds", r"len\(chunk\),[01]", "SAFE", "chunks of (par_)chunks(2) over an even-length prefix have exactly 2 elements", [{'kind': 'call-arg', 'fn': 'parent', 'callee': '(par_chunks|slice::<impl \\[T\\]>::chunks)$', 'arg': 1, 'matches': '^2$'}, {'kind': 'call-arg', 'fn': 'parent', 'callee': 'ops::Index::index$', 'arg': 1, 'matches': 'RangeTo\\{\\$\\d+\\}'}, {'kind': 'call-arg', 'fn': 'parent', 'callee': '(par_chunks|slice::<impl \\[T\\]>::chunks)$', 'arg': 0, 'matches': 'index\\(&\\$\\d+,RangeTo::RangeTo\\{\\$\\d+\\}\\)'}]),
    (r"^ObjectStream::new::\{closure#3\}$", r"overflow:Add", r"", "SAFE", "first_offset <= content.len() <= isize::MAX (get(..first_offset) succeeded) plus a u32: no overflow on 64-bit usize"),
    (r"^PasswordAlgorithm::(authenticate_owner_password_r4|compute_file_encryption_key_r4)$", r"index:RangeTo", r"hash\),RangeTo::RangeTo\{n\}", "SAFE", "n = Length/8 with Length validated to 40..=128 by PasswordAlgorithm::try_from (default 40): n <= 16 = MD5 digest length", [{'kind': 'exists', 'fn': '<PasswordAlgorithm as TryFrom>::try_from', 'cond': 'contains\\(.*\\$\\d+\\)|Rem\\(\\$\\d+,8\\)'}]),
    (r"^PasswordAlgorithm::authenticate_user_password_r4$", r"index:RangeTo", r"hashed_user_password.*len", "SAFE", "len is 32 or 16 and compute_hashed_user_password_* returns 32 bytes", [{'kind': 'exists', 'fn': 'PasswordAlgorithm::authenticate_user_password_r4', 'cond': '^Lt\\(len\\(&\\*\\$\\d+\\.user_value\\),\\$\\d+\\)$'}]),
    (r"^PasswordAlgorithm::.*_r6$", r"index:Range", r"(owner|user)_value", "SAFE", "O and U are validated to exactly 48 bytes for revision >= 5 by PasswordAlgorithm::try_from; the _r6 functions are reached only through the 5..=6 arms", [{'kind': 'exists', 'fn': '<PasswordAlgorithm as TryFrom>::try_from', 'cond': 'Ne\\(len\\(&\\$\\d+\\),48\\)'}, {'kind': 'exists', 'fn': '<PasswordAlgorithm as TryFrom>::try_from', 'cond': 'Ne\\(len\\(&\\$\\d+\\),48\\)'}]),
    (r"^PasswordAlgorithm::.*_r6$", r"alloc:with_capacity", r"", "SAFE", "capacity is password length (<= 127 after truncation) plus an 8-byte salt"),
    (r"^PasswordAlgorithm::compute_file_encryption_key_r6$", r"generic-array|slice-op", r"", "SAFE", "key is [u8; 32] filled from a 32-byte compute_hash result; iv is [u8; 16]; block comes from chunks_exact_mut(16)"),
    (r"^PasswordAlgorithm::compute_hash$", r"alloc|overflow", r"", "SAFE", "64 * (password <= 127 + 64 + user key <= 48) is a small constant bound"),
    (r"^PasswordAlgorithm::compute_hash$", r"generic-array", r"", "SAFE", "key = k[..16], iv = k[16..32] of a >= 32-byte digest; block from chunks_exact_mut(16)"),
    (r"^PasswordAlgorithm::compute_hash$", r"iter-arith", r"sum", "SAFE", "sum of 16 bytes widened to u32"),
    (r"^PasswordAlgorithm::compute_hash$", r"panic", r"unreachable", "SAFE", "match on `x % 3` with arms 0, 1, 2: the remainder of division by 3 has no other value"),
    (r"^PasswordAlgorithm::compute_hash$", r"index:Range", r"&k|&e", "SAFE", "k is a SHA-256/384/512 digest (>= 32 bytes); e is the AES output of a non-empty multiple of 64 bytes"),
    (r"^PasswordAlgorithm::compute_hashed_user_password_r3_r4$", r"index:RangeFrom", r"result.*16", "SAFE", "result was resized to 32 bytes just before"),
    (r"^PasswordAlgorithm::validate_permissions$", r"slice-op", r"permission_encrypted", "SAFE", "Perms is validated to 16 bytes by PasswordAlgorithm::try_from for revision >= 5", [{'kind': 'exists', 'fn': '<PasswordAlgorithm as TryFrom>::try_from', 'cond': 'Ne\\(len\\(&\\$\\d+\\),16\\)'}]),
    (r"^PasswordAlgorithm::validate_permissions$", r"slice-op", r"file_encryption_key", "SAFE", "the revision 5/6 file encryption key is the 32-byte result of compute_hash/AES-256 (callers pass the key they computed)"),
    (r"^PasswordAlgorithm::validate_permissions$", r"generic-array", r"", "SAFE", "key is [u8; 32] and bytes is [u8; 16] by value: conversions by type"),
    (r"^PasswordAlgorithm::validate_permissions$", r"index:RangeTo", r"RangeFrom::RangeFrom\{9\}\),RangeTo::RangeTo\{3\}", "SAFE", "bytes is [u8; 16]: bytes[9..] has 7 elements"),
    (r"^Rc4::apply_keystream$", r"slice-op", r"swap", "SAFE", "state is [u8; 256] and both indices are u8 values"),
    (r"^Rc4::new$", r"slice-op", r"swap", "SAFE", "initial_state is [u8; 256]; i ranges over 0..256 and j is a u8"),
    (r"^Rc4::new$", r"panic", r"assertion failed", "SAFE", "callers pass hash[..n] with n = Length/8 <= 16 (checked next to each use), Length validated to be >= 40 for every V (default 40): 5..=16 bytes; the RC4 crypt filter rejects empty keys first", [{'kind': 'exists', 'fn': '<PasswordAlgorithm as TryFrom>::try_from', 'cond': '^Lt\\(\\$\\d+,40\\)$'}]),
    (r"^Reader::get_xref_start::\{closure#1\}$", r"overflow:Sub", r"eof_pos,25", "SAFE", "the preceding and_then closure passes on only eof_pos > 25", [{'kind': 'exists', 'fn': 'Reader::get_xref_start', 'cond': '^Gt\\(\\$\\d+,25\\)$'}]),
    (r"^IncrementalDocument::save_internal$", r"overflow:Sub", r"header_offset\(", "SAFE", "header_offset(buf) is a position() inside windows(5) over buf, or 0: never more than buf.len()", [{'kind': 'call-arg', 'fn': 'reader::header_offset', 'callee': 'iter::Iterator::position$', 'arg': 0, 'matches': 'windows\\(.*,5\\)'}, {'kind': 'call-arg', 'fn': 'reader::header_offset', 'callee': 'Option::<T>::unwrap_or$', 'arg': 1, 'matches': '^0$'}]),
    (r"^Reader::read$", r"index:RangeFrom", r"RangeFrom\{offset\}", "SAFE", "offset is a position() inside windows(5) over the same buffer, or 0"),
    (r"^Reader::read$", r"overflow:Add|index:RangeFrom", r"pos,1", "SAFE", "pos is a position() of an element of the buffer: pos + 1 <= len"),
    (r"^Reader::read$", r"overflow:Sub", r"xref.size,1", "SAFE", "xref.size was just set to max_id().checked_add(1)? >= 1 (or already equal to it)"),
    (r"^Reader::read_stream_content$", r"overflow:Add", r"start,length", "SAFE", "start is an offset into the buffer and length a non-negative i64: the sum fits a 64-bit usize; the result is range-checked next", [{'kind': 'dominating', 'cond': '^Lt\\(\\$\\d+,0\\)$', 'truth': False, 'where': 'self'}]),
    (r"^Reader::search_substring$", r"overflow", r"", "SAFE", "index <= pattern.len() and index <= seek_pos - start_pos by construction of the scan; seek_pos < buffer.len()"),
    (r"^Stream::decode_ascii85$", r"overflow:Add", r"count,1", "SAFE", "count is reset to 0 when it reaches 5", [{'kind': 'exists', 'fn': 'Stream::decode_ascii85', 'cond': '^Eq\\(\\$\\d+,5\\)$'}, {'kind': 'reset-at-limit', 'fn': 'Stream::decode_ascii85', 'limit': 5}]),
    (r"^Stream::decode_ascii85$", r"index:RangeTo", r"bytes.*count", "SAFE", "count is in 1..=4 here (count > 0 and reset at 5) and bytes is [u8; 4]", [{'kind': 'dominating', 'cond': '^Gt\\(\\$\\d+,0\\)$', 'truth': True, 'where': 'self'}, {'kind': 'exists', 'fn': 'Stream::decode_ascii85', 'cond': '^Eq\\(\\$\\d+,5\\)$'}]),
    (r"^Stream::decompress_zlib$", r"alloc:with_capacity", r"", "SAFE", "twice the compressed input length: proportional to the input"),
    (r"^ToUnicodeCMap::from_sections$", r"index:usize", r"dst_vec,0\),0", "SAFE", "the single-element arm: dst_vec.len() == 1 was matched and the parser yields non-empty UTF-16 strings (hex_u16 many1)"),
    (r"^ToUnicodeCMap::get::\{closure#0\}$", r"op-trait", r"sub\(", "SAFE", "code is contained in the range returned by get_key_value, so code >= range.start()"),
    (r"^ToUnicodeCMap::put$", r"rangemap-insert", r"", "SAFE", "from_sections rejects end < start before calling put; put_char passes start == end"),
    (r"^common_data_structures::decode_text_string::\{closure#0\}$", r"unwrap", r"try_into", "SAFE", "the closure's other arm handled len == 1; chunks(2) yields 1 or 2 elements", [{'kind': 'dominating', 'cond': '^Eq\\(len\\(&\\*\\$\\d+\\),1\\)$', 'truth': False, 'where': 'self'}]),
    (r"^encodings::bytes_to_string$", r"unwrap", r"from_utf16", "SAFE", "no cell of the predefined encoding tables is a surrogate (re-verified here over all [Option<u16>; 256] constants; also C16 rule 1)", [{'kind': 'no-surrogates', 'min_tables': 7}]),
    (r"^filters::png::decode_frame$", r"alloc:resize", r"", "SAFE", "preceded by try_reserve(bytes_per_row)? on the same empty vector", [{'kind': 'call-arg', 'fn': 'filters::png::decode_frame', 'callee': 'Vec::<.*>::try_reserve$', 'arg': 1, 'matches': '^\\$\\d+$'}]),
    (r"^filters::png::decode_frame$", r"overflow:Add|index:RangeFrom", r"pos", "SAFE", "pos < content.len() (loop condition), then read_exact of bytes_per_row succeeded: pos + 1 + bytes_per_row <= len", [{'kind': 'dominating', 'cond': '^Lt\\(\\$\\d+,len\\(&\\*\\$\\d+\\)\\)$', 'truth': True, 'where': 'self'}]),
    (r"^filters::png::decode_row$", r"bounds", r"len\(previous\)", "SAFE", "precondition previous.len() >= current.len(): the only in-crate caller decode_frame resizes both rows to bytes_per_row"),
    (r"^parser::(_indirect_object|integer|real|big_integer|stream)$", r"overflow:Sub|index:RangeTo", r"", "SAFE", "i is the remainder nom returned for `input`: a suffix, so i.len() <= input.len()"),
    (r"^parser::(integer|real|big_integer)$", r"unwrap", r"from_utf8", "SAFE", "the consumed prefix matched only ASCII sign/digits/'.'"),
    (r"^parser::(hex_char|oct_char|unsigned_int)::\{closure#\d\}$", r"unwrap", r"from_utf8", "SAFE", "the preceding combinator admitted only ASCII hex/octal/decimal digits"),
    (r"^parser::cmap_parser::source_code", r"", r"", "SAFE", "at most 4 bytes (zip with 0..4): 256^i * byte < 2^32 and the sum < 2^32"),
    (r"^parser::(escape_sequence|name)::\{closure#\d\}$", r"bounds", r"len\(rawptr\),0", "SAFE", "c is the output of take(1): exactly one byte"),
    (r"^parser::hexadecimal_string::\{closure#1\}$", r"unwrap", r"last_mut", "SAFE", "the fold's flag is true only after a push in the previous step"),
    (r"^parser::nested_literal_string::\{closure#0\}$", r"overflow:Sub", r"", "SAFE", "dominated by `depth == 0` taking the other branch"),
    (r"^parser::nested_literal_string::\{closure#0\}::\{closure#2\}$", r"vec-op", r"insert\(&content,0", "SAFE", "insert at index 0 is always in range"),
    (r"^parser_aux::decode_xref_stream$", r"index:usize|overflow:Add", r"Mul\(2,i\)", "SAFE", "i ranges over 0..section_indice.len()/2"),
    (r"^parser_aux::read_big_endian_integer$", r"overflow:Add", r"Shl", "SAFE", "the low byte is zero after the shift by 8"),
    (r"^toc::setup_outline_page_ids$", r"overflow:Add", r"level,1", "SAFE", "level is the nesting depth of an in-memory outline value"),
]

def main():
    p = os.path.join(V, "tables", "inventory.json")
    t = json.load(open(p))
    findings = []
    out = {}
    un = 0
    for file, rows in t.items():
        for r in rows:
            fn = r["fn"]
            verdict = None
            guards = None
            for ent in R:
                frx, krx, trx, v, text = ent[:5]
                if re.search(frx, fn) and re.search(krx, r["kind"]) and re.search(trx, r["term"]):
                    verdict, reason = v, text
                    guards = ent[5] if len(ent) > 5 else None
                    break
            if verdict == "SAFE":
                # merge rows of one file with the same key, reason and guards
                lst = out.setdefault(file, [])
                hit = None
                for x in lst:
                    if x["kind"] == r["kind"] and x["nterm"] == r["nterm"] and x["reason"] == reason and x.get("guards") == guards:
                        hit = x
                if hit:
                    hit["n"] += r["n"]
                    if fn not in hit["in"]:
                        hit["in"].append(fn)
                else:
                    row = {"kind": r["kind"], "nterm": r["nterm"], "n": r["n"], "reason": reason, "in": [fn], "example": r["term"]}
                    if guards:
                        row["guards"] = guards
                    lst.append(row)
            elif verdict == "FINDING":
                findings.append({"file": file, "fn": fn, "kind": r["kind"], "term": r["term"], "nterm": r["nterm"], "n": r["n"], "what": reason})
            else:
                un += 1
                print("UNREVIEWED", file, fn, r["kind"], r["term"][:100])
    json.dump(out, open(p, "w"), indent=1, sort_keys=True)
    json.dump(findings, open(os.path.join(V, "tables", "inventory_findings.json"), "w"), indent=1, sort_keys=True)
    print("safe rows:", sum(len(v) for v in out.values()), "sites:", sum(x["n"] for v in out.values() for x in v), "findings:", len(findings), "unreviewed:", un)

main()
