#!/bin/bash
# try_refactor.sh <patch>  — apply a behaviour-preserving change to /repo, run ALL registered checks, undo it; print only alarms.
set -u
P="$1"
cd /verif
export VERIF_SCRATCH=1   # evidence of runs against a modified /repo goes to .cache/scratch-evidence
if ! git -C /repo apply "$P" 2>/dev/null; then echo "  (patch does not apply to the current /repo)"; exit 2; fi
for c in C01 C02 C03 C04 C05 C06 C07 C08 C09 C10 C11 C12 C13 C14 C15 C16 C17 C19; do
  ./check "$c" > /tmp/ref_out.txt 2>&1
  if [ $? -ne 0 ]; then echo "  ALARM $c:"; grep -E "^  [A-Za-z-]+:|anchor" /tmp/ref_out.txt | cut -c1-330 | head -6; fi
done
git -C /repo checkout -- . && git -C /repo clean -fdq src
