#!/bin/bash
# confirm_refactor.sh <worktree> — for every out/rN/patch.diff of the worktree: applies alone to the clean tree, builds (default and
# --no-default-features), and the existing suite gives the baseline result (88 passed, only annotation_count fails).
set -u
WT="$1"
export CARGO_NET_OFFLINE=true
cd "$WT" || exit 2
for d in out/r*/; do
  n=$(basename "$d")
  git checkout -q -- src
  if ! git apply "$d/patch.diff" 2>/dev/null; then echo "$n: DOES NOT APPLY"; continue; fi
  b1=$(cargo build --offline 2>&1 | grep -cE "^error")
  b2=$(cargo build --offline --no-default-features 2>&1 | grep -cE "^error")
  out=$(timeout 1500 cargo test --workspace --no-fail-fast --offline 2>&1 | grep -E "^test result|^test .* FAILED")
  passed=$(echo "$out" | grep -oE "[0-9]+ passed" | awk '{s+=$1} END {print s}')
  fl=$(echo "$out" | grep "FAILED$" | grep -v annotation_count | grep -v "^test result" | wc -l)
  echo "$n: build_errors=$b1/$b2 passed=$passed other_failures=$fl lines=$(grep -cE '^[+-][^+-]' $d/patch.diff)"
  git checkout -q -- src
done
