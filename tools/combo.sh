#!/bin/bash
# combo.sh — maintenance: detection must survive refactoring.  For every seeded change, apply (first) a behaviour-preserving patch that
# touches one of the same files and still lets the seeded patch apply, then the seeded patch, and require the property's check to
# report a violation.  Prints the pairs that were tried and the ones in which the violation was lost.
cd /verif
export VERIF_SCRATCH=1
tried=0; lost=0
for sd in /verif/seeded/*/; do
  sn=$(basename "$sd"); p=${sn%%-*}
  files=$(grep -E '^\+\+\+ b/' "$sd/patch.diff" | sed 's#+++ b/##')
  for bd in /verif/benign/*/; do
    bn=$(basename "$bd")
    [ -f "$bd/patch.diff" ] || continue
    grep -q "\"$bn\"" /verif/benign/KNOWN_LIMITS.json && continue
    hit=0; for f in $files; do grep -q "^+++ b/$f" "$bd/patch.diff" && hit=1; done
    [ $hit = 1 ] || continue
    git -C /repo apply --check "$bd/patch.diff" 2>/dev/null || continue
    git -C /repo apply "$bd/patch.diff"
    if git -C /repo apply --check "$sd/patch.diff" 2>/dev/null; then
      git -C /repo apply "$sd/patch.diff"
      tried=$((tried+1))
      if ./check "$p" > /tmp/combo_out.txt 2>&1; then echo "LOST: $sn on top of $bn"; lost=$((lost+1)); fi
      git -C /repo checkout -- .; git -C /repo clean -fdq src
      break
    fi
    git -C /repo checkout -- .; git -C /repo clean -fdq src
  done
done
echo "COMBO tried=$tried lost=$lost"
